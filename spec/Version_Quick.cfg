\* C14 exhaustive run (quick tier: strings up to length 6).  harness/checks/version.py runs a copy of this file in which HaveCodes is
\* replaced by the versions of the library and of the models of the tree under test.
SPECIFICATION Spec
CONSTANTS
  Alphabet = {"0", "1", "2", ".", "-", "a"}
  MaxLen = 6
  MaxV = 3
  HaveCodes = {11100, 10100, 10000, 20400}
  Models = {"ovni", "nosv", "nanos6", "nodes", "mpi", "tampi", "openmp", "kernel"}
  CoreModel = "ovni"
  Variant = "code"
INVARIANTS
  CompatRefines Reflexive MajorStrict MonotoneHaveMinor AntitoneWantMinor PatchIgnored Transitive RoundTrip
  ParseRefines StrictInLenient SuffixIgnored NonNegative RequireRefines
  ModelRefines EnabledExactly ForcedAll RequireMoreIsSafe UnrequiredRejected
ACTION_CONSTRAINT Export
CHECK_DEADLOCK FALSE
