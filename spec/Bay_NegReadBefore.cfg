SPECIFICATION Spec
CONSTANTS
  N = 2
  Vals = {0, 5, 6}
  Def = 9
  Variant = "read_before"
  MaxEvents = 4
  MaxWrites = 3
CONSTRAINT Bound
VIEW MCView
INVARIANTS View NoStaleCallback DirtyListDrains
CHECK_DEADLOCK FALSE
