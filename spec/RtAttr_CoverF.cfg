SPECIFICATION Spec
CONSTANTS
  NT = 1
  Calls <- CallsCoverF
  MaxOps = 1000
  MinDie = 0
  Ending = "any"
  ProcAtStart = FALSE
  Variant = "faithful"
VIEW View
INVARIANTS
  TreesWellFormed
  TreeIsLastWrites
  DiskIsSnapshot
  ReturnsAreDeclared
  FailureIsLast
  PhaseIsHistory
  TerminalIsStuck
PROPERTIES
  P_SetFrame
  P_ScalarMidDies
  P_Reads
  P_Flush
  P_NotReadyDies
  P_DiesKeepsFile
  P_DeadIsFinal
  P_Isolation
CHECK_DEADLOCK FALSE
ACTION_CONSTRAINT ExportT
