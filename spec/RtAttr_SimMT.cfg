SPECIFICATION SpecSim
CONSTANTS
  NT <- EnvNT
  Calls <- CallsSimMT
  MaxOps <- EnvMaxOps
  MinDie <- EnvMinDie
  Ending <- EnvTail
  ProcAtStart = TRUE
  Variant = "faithful"
INVARIANT SimInv
ACTION_CONSTRAINT ExportEnd
CHECK_DEADLOCK FALSE
