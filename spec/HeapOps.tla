------------------------------ MODULE HeapOps ------------------------------
(* The pointer heap of src/include/heap.h (module PtrHeap) on its own, under
   arbitrary sequences of heap_insert / heap_pop_max with the min-heap
   comparison of player.c: up to MaxNodes nodes with keys from Keys.
   A new node is always the free node with the smallest number (the replay
   harness drivers/heapharness.c allocates the same way).

   Property layer: the heap is a multiset of keys; a pop must return a node
   whose key is the minimum of the multiset (NULL iff it is empty), the size
   is the number of elements.  TLC checks this and the structural invariants
   on every reachable heap (Spec), and exports op sequences with the result
   demanded after every op for the replay on the real heap (GSpec).        *)
EXTENDS PtrHeap, TLC, Json

CONSTANTS MaxNodes, Keys, MaxOps,
          Grammar    \* of the exported op sequences: "any" | "filldrain" (inserts, then pops until empty)

Nodes == 1..MaxNodes
MinOf(S) == CHOOSE x \in S : \A y \in S : x <= y

VARIABLES h, key, members, hist
vars == <<h, key, members, hist>>

\* flat description of the pointer structure for the replay comparison
Struct(hh, mem) == <<hh.root, [n \in Nodes |-> IF n \in mem THEN hh.par[n] ELSE 0],
                              [n \in Nodes |-> IF n \in mem THEN hh.lft[n] ELSE 0],
                              [n \in Nodes |-> IF n \in mem THEN hh.rgt[n] ELSE 0]>>

Ins(k, rec) ==
   /\ Nodes \ members # {}
   /\ LET n == MinOf(Nodes \ members)
          key2 == [key EXCEPT ![n] = k]
          h2 == HeapInsert(h, n, key2)
      IN /\ key' = key2
         /\ h' = h2
         /\ members' = members \cup {n}
         /\ hist' = IF rec THEN Append(hist, [op |-> "i", k |-> k, want |-> -2, got |-> -2, node |-> n,
                                              size |-> Cardinality(members) + 1,
                                              st |-> Struct(h2, members \cup {n})])
                           ELSE hist

\* what the property layer demands of a pop: the minimum key, -1 = NULL
Want == IF members = {} THEN -1 ELSE MinOf({key[n] : n \in members})

Pop(rec) ==
   LET r == HeapPop(h, key)
       mem2 == members \ {r.node}
   IN /\ h' = r.h
      /\ members' = mem2
      /\ key' = IF r.node # 0 THEN [key EXCEPT ![r.node] = 0] ELSE key
      /\ hist' = IF rec THEN Append(hist, [op |-> "p", k |-> -1, want |-> Want,
                                           got |-> IF r.node = 0 THEN -1 ELSE key[r.node], node |-> r.node,
                                           size |-> IF members = {} THEN 0 ELSE Cardinality(members) - 1,
                                           st |-> Struct(r.h, mem2)])
                        ELSE hist

Init == h = HeapEmpty(Nodes) /\ key = [n \in Nodes |-> 0] /\ members = {} /\ hist = <<>>

\* every reachable heap (no history)
Next == (\E k \in Keys : Ins(k, FALSE)) \/ Pop(FALSE)
Spec == Init /\ [][Next]_vars

\* op sequences with history, up to MaxOps ops
NoPopYet == \A i \in 1..Len(hist) : hist[i].op = "i"
GNext == /\ Len(hist) < MaxOps
         /\ \/ (Grammar = "filldrain" => NoPopYet) /\ \E k \in Keys : Ins(k, TRUE)
            \/ (Grammar = "filldrain" => members # {}) /\ Pop(TRUE)
GSpec == Init /\ [][GNext]_vars
Complete == IF Grammar = "filldrain" THEN hist # <<>> /\ members = {} ELSE Len(hist) = MaxOps
GExport == Complete =>
              PrintT(<<"TR", ToJson([i \in 1..Len(hist) |->
                         <<hist[i].op, hist[i].k, hist[i].want, hist[i].got, hist[i].node, hist[i].size, hist[i].st>>])>>)

WellFormed == HeapWellFormed(h, key, members)
SizeIsCount == h.size = Cardinality(members)
\* a pop removes a node with the minimum key; NULL iff empty (action property)
PopIsMin == [][members' # members /\ Cardinality(members') < Cardinality(members) =>
                 \E n \in members : members' = members \ {n} /\ key[n] = Want]_vars
\* (NULL iff empty follows from WellFormed: root = NULL iff size = 0 iff no members)
\* the same two, for the export runs, on the recorded history
HistOK == \A i \in 1..Len(hist) : hist[i].op = "p" => hist[i].got = hist[i].want
=============================================================================
