SPECIFICATION CSpec
CONSTANTS
  Variant = "noclock"
  SeedIds = {1}
  Deep = FALSE
INVARIANTS SwapAlwaysRejected
CHECK_DEADLOCK FALSE
