"""C04 (thread life-cycle) and C05 (CPU occupancy) - EmuCore via EmuMC.

TLC explores the full state graph of the bounded thread/CPU model with the
invariants of the layer, prints every transition; one emulator history per
transition (accepted and rejected, with shortest legal completion) is
replayed by ovniemu and validated by EmuTrace.tla (views of thread.prv /
cpu.prv after every event, final verdict).
"""
from vlib import core, emuhist

CFG = {"C04": ("EmuMC_C04.cfg", "thread life-cycle, 2 threads, 2 CPUs + vCPU"),
       "C05": ("EmuMC_C05.cfg", "occupancy/affinity, 4 threads, 2 looms")}


def main(pid, tier):
    ck = core.Check(pid, "model_checking", tier)
    bdir = core.build("hooks")
    cfg, label = CFG[pid]
    r, g = emuhist.explore(cfg)
    ck.add_tlc(r, "EmuMC/%s (%s)" % (cfg, label))
    if r.violated:
        ck.violation("model %s violates %s" % (cfg, r.violated), {"tlc.out": r.out[-20000:]})
    ck.phase("tlc")
    ntr = len(g.trans)
    ck.notes["model_transitions"] = {"total": ntr,
                                     "accepted": sum(1 for t in g.trans if t["ok"] and not t["un"]),
                                     "rejected": sum(1 for t in g.trans if not t["ok"] and not t["un"]),
                                     "unspecified": sum(1 for t in g.trans if t["un"])}
    emuhist.conformance(ck, bdir, g, tier, limit_quick=2500 if pid == "C05" else None,
                        limit_thorough=None, label=pid)
    ck.phase("conformance")
    ck.assumptions += ["rows are identified through the names in thread.row/cpu.row (looms sorted by name)",
                       "a dead thread executing again and OAr to the current CPU are Unspecified (any outcome accepted)"]
    return ck.finish(rule="one emulator history per transition of the TLC state graph (shortest path to the source "
                          "state + event + shortest legal completion); non-trivial = history of at least 2 events; "
                          "distinct by event list")
