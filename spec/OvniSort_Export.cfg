SPECIFICATION Spec
CONSTANTS
  MaxLen = 6
  MaxClock = 2
  Rings <- MCRings
  MaxB = 2
  MaxJ = 1
  Strict = TRUE
  JumboInside = TRUE
  ExportUnspecLen = 3
  Variant = "code"
INVARIANTS Refinement
ACTION_CONSTRAINT Export
CHECK_DEADLOCK FALSE
