SPECIFICATION MCSpec
CONSTANTS
  System <- SysC08K
  Alphabet <- AlphaC08K
  MaxLen = 7
  Lint = TRUE
VIEW MCView
INVARIANT Inv
ACTION_CONSTRAINT Export
CHECK_DEADLOCK FALSE
