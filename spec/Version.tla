------------------------------- MODULE Version -------------------------------
(* C14 - version gating follows semantic versioning, in the runtime
   (ovni_version_check_str, ovni_thread_require) and in the emulator
   (model_version_probe / should_enable / model_event).

   Two layers (DESIGN.md section 2):

   * property layer: Compatible, Parse (three-valued), RequireVerdict,
     ShouldEnable, TraceVerdict.  Conformance compares the real binaries with
     this layer only.
   * implementation layer, shaped like the code: ParseImpl (strtok_r/strtol
     loop of src/include/version.h), CompatImpl (version_is_compatible and the
     two tests of ovni_version_check_str), ProbeImpl/EventImpl (model_probe,
     model_event of src/emu/model.c).  TLC checks exhaustively on the small
     domain that this layer refines the property layer.  `Variant` selects
     deliberately wrong implementation layers for the negative configurations.

   Version strings are sequences of one-character strings (TLC cannot index
   strings).  The state machine only enumerates the domain: every state is
   one case (a pair of triples, a string, or a model-enabling configuration);
   the ACTION_CONSTRAINT Export prints each case with the verdict of the
   property layer for the harness to replay. *)
EXTENDS Naturals, Integers, Sequences, FiniteSets, TLC, Json

CONSTANTS
    Alphabet,    \* characters of the exhaustively enumerated strings
    MaxLen,      \* maximal length of the enumerated strings
    MaxV,        \* want/have triples range over 0..MaxV
    HaveCodes,   \* provider versions (library, models) the strings are judged against, each
                 \* coded as major * 10000 + minor * 100 + patch (cfg files cannot hold tuples)
    Models,      \* names of the emulation models
    CoreModel,   \* the model whose events every stream carries (thread life cycle)
    Variant      \* "code" = mirrors /repo; anything else = seeded error (negative cfg)

Decode(c) == <<c \div 10000, (c \div 100) % 100, c % 100>>
none == <<>>                     \* "no triple"
Huge == 1000000000               \* saturation: any number of 10 or more significant digits
Digit == {"0", "1", "2", "3", "4", "5", "6", "7", "8", "9"}
Space == {" ", "\t", "\n"}       \* what strtol skips (isspace), as far as the cases use it
DigitVal(c) == CASE c = "0" -> 0 [] c = "1" -> 1 [] c = "2" -> 2 [] c = "3" -> 3 [] c = "4" -> 4
                 [] c = "5" -> 5 [] c = "6" -> 6 [] c = "7" -> 7 [] c = "8" -> 8 [] c = "9" -> 9
DigitChar(d) == CHOOSE c \in Digit : DigitVal(c) = d

\* first index >= from whose character is (not) in C; 0 if there is none
\* (= Min {i \in from..Len(t) : t[i] \in C}, written as a scan because TLC evaluates it 10^7 times)
RECURSIVE FirstIn(_, _, _)
FirstIn(t, C, from) == IF from > Len(t) THEN 0 ELSE IF t[from] \in C THEN from ELSE FirstIn(t, C, from + 1)
RECURSIVE FirstNotIn(_, _, _)
FirstNotIn(t, C, from) == IF from > Len(t) THEN 0 ELSE IF t[from] \notin C THEN from ELSE FirstNotIn(t, C, from + 1)

-----------------------------------------------------------------------------
(* Property layer: numbers *)

IsNum(t) == Len(t) > 0 /\ \A i \in 1..Len(t) : t[i] \in Digit

RECURSIVE StripZeros(_)
StripZeros(t) == IF Len(t) > 1 /\ t[1] = "0" THEN StripZeros(Tail(t)) ELSE t
RECURSIVE Horner(_, _)
Horner(t, acc) == IF t = <<>> THEN acc ELSE Horner(Tail(t), acc * 10 + DigitVal(t[1]))
\* value of a non-empty decimal, saturated at Huge (TLC integers are 32-bit)
NumVal(t) == LET z == StripZeros(t) IN IF Len(z) > 9 THEN Huge ELSE Horner(z, 0)

DigitPrefix(t) == LET k == FirstNotIn(t, Digit, 1) IN IF k = 0 THEN Len(t) ELSE k - 1

-----------------------------------------------------------------------------
(* Property layer: compatibility *)

\* want is served by have: same major, minor not newer, patch ignored
Compatible(want, have) == want[1] = have[1] /\ want[2] <= have[2]

HasHuge(v) == \E i \in 1..3 : v[i] >= Huge

-----------------------------------------------------------------------------
(* Property layer: parsing.
   Strict(t)  : the grammar  N "." N "." N [ "-" any ]  (N = non-empty decimal).
   Lenient(t) : the same triple read from a string whose only irregularities
                are ones the property does not define:
                 - empty components (extra "." before/between the numbers,
                   extra "." or "-" in front of the patch number);
                 - anything after the patch number that starts with "." (a
                   fourth component);
                 - a C spelling of a non-negative number: leading blanks, "+",
                   or "-" in front of zero.
                A negative number is never a version: malformed.
   Parse(t).kind = "ok"          -> must be read as Parse(t).v
                   "malformed"   -> must be refused
                   "unspecified" -> may be refused, or read as Parse(t).v *)

Strict(t) ==
    LET i == FirstIn(t, {"."}, 1) IN
    IF i = 0 THEN none ELSE
    LET j == FirstIn(t, {"."}, i + 1) IN
    IF j = 0 THEN none ELSE
    LET a == SubSeq(t, 1, i - 1)
        b == SubSeq(t, i + 1, j - 1)
        r == SubSeq(t, j + 1, Len(t))
        k == DigitPrefix(r)
    IN IF IsNum(a) /\ IsNum(b) /\ k > 0 /\ (k = Len(r) \/ r[k + 1] = "-")
       THEN <<NumVal(a), NumVal(b), NumVal(SubSeq(r, 1, k))>>
       ELSE none

\* value of a leniently spelled non-negative number, -1 if it is not one
LenientVal(tok) ==
    LET k == FirstNotIn(tok, Space, 1) IN
    IF k = 0 THEN -1 ELSE
    LET u == SubSeq(tok, k, Len(tok)) IN
    IF IsNum(u) THEN NumVal(u)
    ELSE IF Len(u) > 1 /\ u[1] = "+" /\ IsNum(Tail(u)) THEN NumVal(Tail(u))
    ELSE IF Len(u) > 1 /\ u[1] = "-" /\ IsNum(Tail(u)) /\ NumVal(Tail(u)) = 0 THEN 0
    ELSE -1

Sep12 == {"."}
Sep3 == {".", "-"}

Lenient(t) ==
    LET a1 == FirstNotIn(t, Sep12, 1) IN
    IF a1 = 0 THEN none ELSE
    LET e1 == FirstIn(t, Sep12, a1) IN
    IF e1 = 0 THEN none ELSE
    LET a2 == FirstNotIn(t, Sep12, e1) IN
    IF a2 = 0 THEN none ELSE
    LET e2 == FirstIn(t, Sep12, a2) IN
    IF e2 = 0 THEN none ELSE
    LET a3 == FirstNotIn(t, Sep3, e2) IN
    IF a3 = 0 THEN none ELSE
    LET e3 == FirstIn(t, Sep3, a3)
        A == LenientVal(SubSeq(t, a1, e1 - 1))
        B == LenientVal(SubSeq(t, a2, e2 - 1))
        C == LenientVal(SubSeq(t, a3, IF e3 = 0 THEN Len(t) ELSE e3 - 1))
    IN IF A < 0 \/ B < 0 \/ C < 0 THEN none ELSE <<A, B, C>>

Parse(t) ==
    IF Len(t) >= 64 THEN [kind |-> "malformed", v |-> none]
    ELSE LET st == Strict(t) IN
         IF st # none THEN [kind |-> "ok", v |-> st]
         \* everything outside the grammar is malformed and must be refused ("malformed version strings
         \* are refused"): empty components, a fourth component, blanks, signs.  (The pinned code read such
         \* strings leniently through strtok_r / strtol; Lenient(t) is kept for the record and the lemma.)
         ELSE [kind |-> "malformed", v |-> none]

(* What a parser may do with t: "ok" = must return Parse(t).v, "malformed" = must
   refuse, "unspecified" = may refuse; if it accepts, it returns Parse(t).v
   unless a number is not representable (Huge), then the triple is not compared. *)
ParseVerdict(t) == LET p == Parse(t) IN IF p.kind = "ok" /\ HasHuge(p.v) THEN "unspecified" ELSE p.kind
Exact(t) == LET p == Parse(t) IN p.kind # "malformed" /\ ~HasHuge(p.v)

(* Verdict on "a program / a stream requires version string t, the provider
   has version hv".  An unspecified string may be refused or read leniently:
   if the lenient reading is incompatible both readings refuse.  Refusing a
   compatible version because one of its numbers is not representable (Huge,
   only the patch can be) is a legitimate limit; accepting an incompatible one
   is never allowed. *)
VerdictOf(p, hv) ==      \* p = Parse(t)
    CASE p.kind = "malformed" -> "reject"
      [] p.kind = "unspecified" -> IF Compatible(p.v, hv) THEN "unspecified" ELSE "reject"
      [] OTHER -> IF ~Compatible(p.v, hv) THEN "reject"
                  ELSE IF HasHuge(p.v) THEN "unspecified" ELSE "accept"
RequireVerdict(t, hv) == VerdictOf(Parse(t), hv)

\* several streams requiring the same model: every requirement must be served
RequireAll(ts, hv) ==
    LET vs == {RequireVerdict(ts[i], hv) : i \in 1..Len(ts)} IN
    IF "reject" \in vs THEN "reject" ELSE IF "unspecified" \in vs THEN "unspecified" ELSE "accept"

\* option -a forces models on; it does not waive the version requirements of the streams
ProbeVerdict(ts, hv, enableAll) == RequireAll(ts, hv)

-----------------------------------------------------------------------------
(* Property layer: model enabling.
   requires = set of models required by some stream, enableAll = option -a.
   The property does not say what happens to the core model (whose events
   every stream carries and which the runtime always requires) when no stream
   requires it: Unspecified. *)

ShouldEnable(model, requires, enableAll) ==
    IF enableAll \/ model \in requires THEN "yes"
    ELSE IF model = CoreModel THEN "unspecified" ELSE "no"

\* an event of a model that is not enabled is rejected
EventOfDisabledModel(model, requires, enableAll) == ShouldEnable(model, requires, enableAll) = "no"

\* a trace (all required versions compatible) with otherwise legal events of the models in evs
TraceVerdict(evs, requires, enableAll) ==
    IF \E m \in evs : EventOfDisabledModel(m, requires, enableAll) THEN "reject"
    ELSE IF \E m \in evs : ShouldEnable(m, requires, enableAll) = "unspecified" THEN "unspecified"
    ELSE "accept"

-----------------------------------------------------------------------------
(* Implementation layer: version_parse() of src/include/version.h, written as
   the character scanner the C code is: strtok_r with a save pointer and the
   delimiter sets ".", ".", ".-"; strtol with blanks and sign; the three tests
   after strtol; the negative test.  (errno/overflow of long and the (int)
   cast are outside the modelled domain: numbers saturate at Huge.) *)

RECURSIVE SkipWhile(_, _, _)
SkipWhile(buf, p, C) == IF p <= Len(buf) /\ buf[p] \in C THEN SkipWhile(buf, p + 1, C) ELSE p
RECURSIVE SkipUntil(_, _, _)
SkipUntil(buf, p, C) == IF p <= Len(buf) /\ buf[p] \notin C THEN SkipUntil(buf, p + 1, C) ELSE p

StrtokR(buf, save, D) ==
    LET a == SkipWhile(buf, save, D) IN
    IF a > Len(buf) THEN [found |-> FALSE, tok |-> <<>>, save |-> a]
    ELSE LET e == SkipUntil(buf, a, D) IN
         [found |-> TRUE, tok |-> SubSeq(buf, a, e - 1), save |-> IF e > Len(buf) THEN e ELSE e + 1]

RECURSIVE ScanDigits(_, _, _)
ScanDigits(tok, p, acc) ==
    IF p <= Len(tok) /\ tok[p] \in Digit
    THEN ScanDigits(tok, p + 1, IF acc >= Huge \div 10 THEN Huge ELSE acc * 10 + DigitVal(tok[p]))
    ELSE <<p, acc>>

Strtol(tok) ==
    LET p1 == SkipWhile(tok, 1, Space)
        sgn == IF p1 <= Len(tok) /\ tok[p1] \in {"+", "-"} THEN tok[p1] ELSE ""
        p2 == IF sgn = "" THEN p1 ELSE p1 + 1
        r == ScanDigits(tok, p2, 0)
    IN [conv |-> r[1] > p2,                               \* endptr != num
        endp |-> IF r[1] > p2 THEN r[1] ELSE 1,           \* index endptr points to
        val |-> IF sgn = "-" THEN 0 - r[2] ELSE r[2]]

Delim == <<{"."}, {"."}, {".", "-"}>>
Fail == [ok |-> FALSE, v |-> none]

RECURSIVE ImplLoop(_, _, _, _)
ImplLoop(buf, i, save, acc) ==
    IF i > 3 THEN [ok |-> TRUE, v |-> acc]
    ELSE LET tk == StrtokR(buf, save, Delim[i]) IN
         IF ~tk.found THEN Fail                                      \* missing number
         ELSE LET n == Strtol(tk.tok) IN
              IF ~n.conv THEN Fail                                    \* endptr == num
              ELSE IF Variant # "parse_prefix" /\ n.endp <= Len(tk.tok) THEN Fail   \* endptr[0] != '\0'
              ELSE IF n.val < 0 THEN Fail                             \* invalid negative
              ELSE ImplLoop(buf, i + 1, tk.save, Append(acc, n.val))

\* the strict scanner ("fix: version: refuse malformed version strings"): digits, ".", digits, ".", digits,
\* then the end of the string or a "-" suffix
RECURSIVE StrictLoop(_, _, _, _)
StrictLoop(buf, i, p, acc) ==
    IF i > 3 THEN IF p > Len(buf) \/ buf[p] = "-" THEN [ok |-> TRUE, v |-> acc] ELSE Fail
    ELSE IF p > Len(buf) \/ buf[p] \notin Digit THEN Fail
    ELSE LET r == ScanDigits(buf, p, 0) IN
         IF i = 3 THEN StrictLoop(buf, 4, r[1], Append(acc, r[2]))
         ELSE IF r[1] > Len(buf) \/ buf[r[1]] # "." THEN Fail
         ELSE StrictLoop(buf, i + 1, r[1] + 1, Append(acc, r[2]))

ParseImpl(t) == IF Len(t) >= 64 THEN Fail
                ELSE IF Variant \in {"lenient_parser", "parse_prefix"} THEN ImplLoop(t, 1, 1, <<>>)   \* pinned code
                ELSE StrictLoop(t, 1, 1, <<>>)

(* version_is_compatible() / the two tests of ovni_version_check_str() *)
MinorTooNew(want, have) ==
    CASE Variant = "minor_ge" -> want[2] >= have[2]
      [] Variant = "patch" -> want[2] > have[2] \/ want[3] > have[3]
      [] OTHER -> want[2] > have[2]
CompatImpl(want, have) ==
    IF want[1] # have[1] THEN FALSE
    ELSE IF MinorTooNew(want, have) THEN FALSE
    ELSE TRUE

ImplVerdictOf(q, hv) ==  \* q = ParseImpl(t)
    IF ~q.ok THEN "reject" ELSE IF CompatImpl(q.v, hv) THEN "accept" ELSE "reject"
RequireImpl(t, hv) == ImplVerdictOf(ParseImpl(t), hv)

(* model_probe(): enabled = probe() > 0 or -a; the probe of the core model
   always returns 1, the others return 1 iff some stream requires the model.
   model_event(): error if the model of the event is not enabled. *)
ProbeImpl(m, requires) == IF m = CoreModel \/ m \in requires THEN 1 ELSE 0
EnabledImpl(m, requires, enableAll) ==
    IF Variant = "enable_unrequired" THEN TRUE ELSE ProbeImpl(m, requires) > 0 \/ enableAll
EventImpl(m, requires, enableAll) ==
    IF Variant # "no_enable_check" /\ ~EnabledImpl(m, requires, enableAll) THEN "reject" ELSE "accept"
TraceImpl(evs, requires, enableAll) ==
    IF \E m \in evs : EventImpl(m, requires, enableAll) = "reject" THEN "reject" ELSE "accept"

-----------------------------------------------------------------------------
(* Rendering, for the round trip and for the export *)

RECURSIVE ToDigits(_)
ToDigits(n) == IF n < 10 THEN <<DigitChar(n)>> ELSE Append(ToDigits(n \div 10), DigitChar(n % 10))
Render(v) == ToDigits(v[1]) \o <<".">> \o ToDigits(v[2]) \o <<".">> \o ToDigits(v[3])
RECURSIVE Join(_)
Join(t) == IF t = <<>> THEN "" ELSE t[1] \o Join(Tail(t))
Rep(c, n) == [i \in 1..n |-> c]

\* hand-picked strings outside the enumerated alphabet / length
Extra == <<
    <<>>,
    <<"1", ".", "2", ".", "3", "-", "r", "c", "1">>,
    <<"1", ".", "2", ".", "3", "r", "c">>,
    <<"1", ".", "O", ".", "O">>,
    <<"+", "1", ".", "2", ".", "3">>,
    <<" ", "1", ".", "2", ".", "3">>,
    <<"1", ".", " ", "2", ".", "3">>,
    <<"1", ".", "2", ".", "3", " ">>,
    <<"1", ".", "+", "2", ".", "\t", "3">>,
    <<"-", "1", ".", "0", ".", "0">>,
    <<"1", ".", "-", "0", "0", ".", "3">>,
    <<"1", ".", "2", ".", "3", ".", "4">>,
    <<"1", ".", "2", ".", "3", "-", "4", ".", "5">>,
    <<"0", "x", "1", ".", "2", ".", "3">>,
    <<"1", ",", "2", ",", "3">>,
    <<"1", "0", ".", "2", "0", ".", "3", "0">>,
    <<"0", "0", "7", ".", "0", "8", ".", "0", "9">>,
    <<"1", ".", "2", ".", "1", "2", "3", "4", "5", "6", "7", "8", "9", "0", "1">>,
    <<"1", ".", "2", ".", "3", "-">> \o Rep("a", 57),
    <<"1", ".", "2", ".", "3", "-">> \o Rep("a", 58),
    <<"1", ".", "2", ".", "3", ".">> \o Rep("a", 57),
    Rep("1", 61) \o <<".", "2", ".", "3">>
>>

-----------------------------------------------------------------------------
(* Enumeration of the domain *)

VARIABLES kind, s, w, h, req, evm, all
vars == <<kind, s, w, h, req, evm, all>>

Triples == (0..MaxV) \X (0..MaxV) \X (0..MaxV)

Init == /\ kind = "init" /\ s = <<>> /\ w = <<0, 0, 0>> /\ h = <<0, 0, 0>>
        /\ req = {} /\ evm = {} /\ all = FALSE

\* (two steps per case family so that the workers of TLC share the enumeration)
GenWant == /\ kind = "init" /\ kind' = "want"
           /\ w' \in Triples
           /\ UNCHANGED <<s, h, req, evm, all>>
GenPair == /\ kind = "want" /\ kind' = "pair"
           /\ h' \in Triples
           /\ UNCHANGED <<s, w, req, evm, all>>
GenStr == /\ kind \in {"init", "str"} /\ Len(s) < MaxLen /\ kind' = "str"
          /\ \E c \in Alphabet : s' = Append(s, c)
          /\ UNCHANGED <<w, h, req, evm, all>>
GenExtra == /\ kind = "init" /\ kind' = "extra"
            /\ \E i \in 1..Len(Extra) : s' = Extra[i]
            /\ UNCHANGED <<w, h, req, evm, all>>
GenReq == /\ kind = "init" /\ kind' = "req"
          /\ req' \in SUBSET Models
          /\ UNCHANGED <<s, w, h, evm, all>>
GenModel == /\ kind = "req" /\ kind' = "model"
            /\ evm' \in SUBSET Models /\ all' \in BOOLEAN
            /\ UNCHANGED <<s, w, h, req>>
Next == GenWant \/ GenPair \/ GenStr \/ GenExtra \/ GenReq \/ GenModel
Spec == Init /\ [][Next]_vars

IsStr == kind \in {"str", "extra"}

-----------------------------------------------------------------------------
(* Theorems checked by TLC on every state *)

\* the code-shaped relation is the property's relation
CompatRefines == kind = "pair" => (CompatImpl(w, h) = Compatible(w, h))
\* algebra of the relation (stated on the implementation layer, so that a wrong variant is refuted)
Reflexive == kind = "pair" => CompatImpl(w, w) /\ Compatible(w, w)
MajorStrict == kind = "pair" => (w[1] # h[1] => ~CompatImpl(w, h) /\ ~Compatible(w, h))
MonotoneHaveMinor == kind = "pair" =>
    \A m \in h[2]..MaxV : (CompatImpl(w, h) => CompatImpl(w, <<h[1], m, h[3]>>))
                          /\ (Compatible(w, h) => Compatible(w, <<h[1], m, h[3]>>))
AntitoneWantMinor == kind = "pair" =>
    \A m \in 0..w[2] : (CompatImpl(w, h) => CompatImpl(<<w[1], m, w[3]>>, h))
                       /\ (Compatible(w, h) => Compatible(<<w[1], m, w[3]>>, h))
PatchIgnored == kind = "pair" =>
    \A p \in 0..MaxV, q \in 0..MaxV :
        /\ CompatImpl(<<w[1], w[2], p>>, <<h[1], h[2], q>>) = CompatImpl(w, h)
        /\ Compatible(<<w[1], w[2], p>>, <<h[1], h[2], q>>) = Compatible(w, h)
Transitive == kind = "pair" =>
    \A g \in Triples : (CompatImpl(w, h) /\ CompatImpl(h, g) => CompatImpl(w, g))
                       /\ (Compatible(w, h) /\ Compatible(h, g) => Compatible(w, g))
\* a well-formed triple, with or without suffix, round-trips through both parsers
RoundTrip == kind = "pair" =>
    /\ Parse(Render(w)) = [kind |-> "ok", v |-> w]
    /\ Parse(Render(w) \o <<"-", "r", "c", "1">>) = [kind |-> "ok", v |-> w]
    /\ ParseImpl(Render(w)) = [ok |-> TRUE, v |-> w]
    /\ RequireVerdict(Render(w), h) = (IF Compatible(w, h) THEN "accept" ELSE "reject")
    /\ RequireImpl(Render(w), h) = RequireVerdict(Render(w), h)

\* version_parse refines the three-valued Parse
ParseRefines == IsStr =>
    LET p == Parse(s)
        q == ParseImpl(s)
    IN CASE p.kind = "ok" -> q.ok /\ q.v = p.v
         [] p.kind = "malformed" -> ~q.ok
         [] OTHER -> (q.ok => q.v = p.v)
StrictInLenient == IsStr => (Strict(s) # none => Lenient(s) = Strict(s))
\* whatever follows "-" after a well-formed version is ignored
SuffixIgnored == IsStr /\ Len(s) < 60 =>
    LET p == Parse(s) IN
    p.kind = "ok" => Parse(s \o <<"-", "a">>) = p /\ ParseImpl(s \o <<"-", "a">>).v = p.v
\* a parsed triple never contains a negative number
NonNegative == IsStr => LET p == Parse(s) IN p.kind # "malformed" => \A i \in 1..3 : p.v[i] >= 0
\* the verdict of the code-shaped layer is allowed by the property layer, for every provider
RequireRefines == IsStr =>
    LET p == Parse(s)
        q == ParseImpl(s)
    IN \A c \in HaveCodes :
        LET rv == VerdictOf(p, Decode(c)) IN
        rv # "unspecified" => ImplVerdictOf(q, Decode(c)) = rv

\* model enabling
ModelRefines == kind = "model" =>
    LET tv == TraceVerdict(evm, req, all) IN tv # "unspecified" => TraceImpl(evm, req, all) = tv
EnabledExactly == kind = "model" =>
    \A m \in Models : LET se == ShouldEnable(m, req, all) IN
        /\ se = "yes" => EnabledImpl(m, req, all)
        /\ se = "no" => ~EnabledImpl(m, req, all)
ForcedAll == kind = "model" /\ all => TraceVerdict(evm, req, all) = "accept" /\ TraceImpl(evm, req, all) = "accept"
RequireMoreIsSafe == kind = "model" =>
    \A m \in Models : TraceVerdict(evm, req, all) = "accept" => TraceVerdict(evm, req \cup {m}, all) = "accept"
UnrequiredRejected == kind = "model" /\ ~all =>
    ((evm \ (req \cup {CoreModel})) # {} => TraceVerdict(evm, req, all) = "reject" /\ TraceImpl(evm, req, all) = "reject")

-----------------------------------------------------------------------------
(* Export of every case with the verdict of the property layer *)

ExportStr(t, tag) ==
    LET p == Parse(t) IN
    PrintT(<<"TR", ToJson([k |-> tag, s |-> Join(t), p |-> p.kind, v |-> p.v,
                           pk |-> ParseVerdict(t), exact |-> Exact(t),
                           acc |-> {c \in HaveCodes : VerdictOf(p, Decode(c)) = "accept"},
                           uns |-> {c \in HaveCodes : VerdictOf(p, Decode(c)) = "unspecified"}])>>)

Export ==
    CASE kind' = "pair" ->
           PrintT(<<"TR", ToJson([k |-> "pair", w |-> w', h |-> h', c |-> Compatible(w', h'),
                                  rv |-> RequireVerdict(Render(w'), h')])>>)
      [] kind' = "str" -> ExportStr(s', "str")
      [] kind' = "extra" -> ExportStr(s', "extra")
      [] kind' = "model" /\ CoreModel \in evm' ->      \* only traces with core events can be built
           PrintT(<<"TR", ToJson([k |-> "model", req |-> req', ev |-> evm',
                                  all |-> all', tv |-> TraceVerdict(evm', req', all'),
                                  en |-> [m \in Models |-> ShouldEnable(m, req', all')]])>>)
      [] OTHER -> TRUE
=============================================================================
