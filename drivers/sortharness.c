/* C20: replay of TLC-generated input histories on the real sort module of
 * the emulator (src/emu/sort.c, linked from libemu.a).
 *
 * Commands on stdin, one per line; one answer line per command on stdout:
 *
 *   R n a0 .. a(n-1) old new    call sort_replace(arr, n, old, new) on a copy
 *                               of the array (guard cells around it)
 *        -> "R a0' .. a(n-1)' [G]"   (G: a guard cell was overwritten)
 *   M n                         new sort module with n inputs on a fresh bay
 *        -> "M"
 *   S i x                       set input i to x (x = -1: NULL), propagate
 *        -> "O o0 .. o(n-1) W w.."   outputs after the propagation (-1 = NULL)
 *                                    and the outputs written during it
 *
 * The driver computes nothing: it applies the inputs and prints what the
 * module holds.  Expected arrays come from TLC (spec/SortMod.tla).
 */
#include <inttypes.h>
#include <stdint.h>
#include <stdio.h>
#include <stdlib.h>
#include <string.h>
#include "common.h"
#include "emu/bay.h"
#include "emu/chan.h"
#include "emu/sort.h"
#include "emu/value.h"

#define MAXN 64
#define GUARD 8

static struct bay *bay;
static struct sort *sort;
static struct chan *inputs;
static int64_t modn;
static int wrote[MAXN];

static int
cb_emit(struct chan *chan, void *ptr)
{
	(void) chan;
	wrote[(intptr_t) ptr] = 1;
	return 0;
}

static void
new_module(int64_t n)
{
	/* the old module is leaked on purpose: sort.c has no destructor */
	bay = calloc(1, sizeof(*bay));
	sort = calloc(1, sizeof(*sort));
	inputs = calloc((size_t) n, sizeof(struct chan));
	if (!bay || !sort || !inputs)
		die("calloc failed");
	modn = n;
	bay_init(bay);
	for (int64_t i = 0; i < n; i++) {
		chan_init(&inputs[i], CHAN_SINGLE, "in.%" PRIi64, i);
		if (bay_register(bay, &inputs[i]) != 0)
			die("bay_register failed");
	}
	if (sort_init(sort, bay, n, "verif.sort") != 0)
		die("sort_init failed");
	for (int64_t i = 0; i < n; i++) {
		if (sort_set_input(sort, i, &inputs[i]) != 0)
			die("sort_set_input failed");
		struct chan *out = sort_get_output(sort, i);
		if (bay_add_cb(bay, BAY_CB_EMIT, out, cb_emit, (void *) (intptr_t) i, 1) == NULL)
			die("bay_add_cb failed");
	}
}

static void
set_input(int64_t i, int64_t x)
{
	if (i < 0 || i >= modn)
		die("bad input index");
	memset(wrote, 0, sizeof(wrote));
	struct value v = (x == -1) ? value_null() : value_int64(x);
	if (chan_set(&inputs[i], v) != 0) {
		printf("E chan_set\n");
		return;
	}
	if (bay_propagate(bay) != 0) {
		printf("E bay_propagate\n");
		return;
	}
	printf("O");
	for (int64_t k = 0; k < modn; k++) {
		struct value o;
		if (chan_read(sort_get_output(sort, k), &o) != 0)
			die("chan_read failed");
		if (o.type == VALUE_NULL)
			printf(" -1");
		else if (o.type == VALUE_INT64)
			printf(" %" PRIi64, o.i);
		else
			printf(" ?");
	}
	printf(" W");
	for (int64_t k = 0; k < modn; k++)
		if (wrote[k])
			printf(" %" PRIi64, k);
	printf("\n");
}

static void
replace(char *args)
{
	int64_t buf[GUARD + MAXN + GUARD];
	char *save = NULL;
	char *tok = strtok_r(args, " \n", &save);
	int64_t n = tok ? atoll(tok) : 0;
	if (n < 1 || n > MAXN)
		die("bad n");
	for (int k = 0; k < GUARD; k++) {
		buf[k] = INT64_MIN + 7;
		buf[GUARD + n + k] = INT64_MAX - 7;
	}
	for (int64_t k = 0; k < n; k++) {
		tok = strtok_r(NULL, " \n", &save);
		if (!tok)
			die("short array");
		buf[GUARD + k] = atoll(tok);
	}
	tok = strtok_r(NULL, " \n", &save);
	if (!tok)
		die("missing old");
	int64_t old = atoll(tok);
	tok = strtok_r(NULL, " \n", &save);
	if (!tok)
		die("missing new");
	int64_t new = atoll(tok);

	sort_replace(&buf[GUARD], n, old, new);

	printf("R");
	for (int64_t k = 0; k < n; k++)
		printf(" %" PRIi64, buf[GUARD + k]);
	int bad = 0;
	for (int k = 0; k < GUARD; k++)
		if (buf[k] != INT64_MIN + 7 || buf[GUARD + n + k] != INT64_MAX - 7)
			bad = 1;
	if (bad)
		printf(" G");
	printf("\n");
}

int
main(void)
{
	char *line = NULL;
	size_t cap = 0;
	progname_set("sortharness");
	while (getline(&line, &cap, stdin) > 0) {
		if (line[0] == 'R') {
			replace(line + 1);
		} else if (line[0] == 'M') {
			int64_t n = atoll(line + 1);
			if (n < 1 || n > MAXN)
				die("bad n");
			new_module(n);
			printf("M\n");
		} else if (line[0] == 'S') {
			long long i, x;
			if (sscanf(line + 1, "%lld %lld", &i, &x) != 2)
				die("bad S command");
			if (sort == NULL)
				die("no module");
			set_input(i, x);
		} else if (line[0] != '\n' && line[0] != '#') {
			die("unknown command");
		}
	}
	fflush(stdout);
	return 0;
}
