SPECIFICATION MCSpec
CONSTANTS
  System <- SysC08V
  Alphabet <- AlphaC08V
  MaxLen = 7
  Lint = TRUE
VIEW MCView
INVARIANT Inv
ACTION_CONSTRAINT Export
CHECK_DEADLOCK FALSE
