"""Materialise abstract emulator histories as real trace directories, run
ovniemu on them and project the Paraver output to per-event views.

A *system* is {"threads":[{"tid","pid","app","loom"}], "cpus":[{"loom","idx","phy","virt"}]}
with looms numbered 1..L (directory name loom.node<l>.x), matching
sys in spec/EmuCore.tla.  A *history* is a list of events
{"th": thread id (1-based), "m": "OHx", "a": [ints]} optionally with
"payload": bytes-hex overriding the default payload encoding, or "jumbo": hex.
"""
import json
import os
import shutil
import struct

from . import core, obs, emu

# payload encodings of the events whose arguments the model interprets;
# (format, number of args).  Other events: no payload unless given.
ENC = {
    "OHx": "<iiQ", "OAs": "<i", "OAr": "<ii", "OHC": "<iQ",
    "OM[": "<qi", "OM]": "<qi", "OM=": "<qi",
}


def loom_name(l):
    return "node%d.x" % l


def default_system(nthreads=2, nprocs=1, nlooms=1, ncpus=2):
    """threads spread over procs/looms; each loom has ncpus physical CPUs + vcpu"""
    threads = []
    tid = 100
    for l in range(1, nlooms + 1):
        for p in range(nprocs):
            for k in range(nthreads):
                tid += 1
                threads.append({"tid": tid, "pid": 1000 * l + p + 1, "app": 1 + p + (l - 1) * nprocs, "loom": l})
    cpus = []
    for l in range(1, nlooms + 1):
        for i in range(ncpus):
            cpus.append({"loom": l, "idx": i, "phy": 10 * l + i, "virt": False})
        cpus.append({"loom": l, "idx": -1, "phy": -1, "virt": True})
    return {"threads": threads, "cpus": cpus}


def encode_payload(e):
    if "payload" in e:
        return bytes.fromhex(e["payload"])
    a = e.get("a", [])
    fmt = ENC.get(e["m"])
    if fmt is None or not a:
        if a:
            # generic: i32 args
            return b"".join(struct.pack("<i", x) for x in a)
        return b""
    n = len(fmt) - 1
    vals = list(a) + [0] * (n - len(a))
    if len(a) < n:
        # shorter payload than the handler expects: truncate to the given args
        sizes = {"i": 4, "I": 4, "q": 8, "Q": 8}
        raw = struct.pack(fmt, *vals)
        cut = sum(sizes[c] for c in fmt[1:1 + len(a)])
        raw = raw[:cut]
        return raw if len(raw) != 1 else raw + b"\0"
    return struct.pack(fmt, *vals[:n])


def materialise(root, system, history, models=None, t0=1000, dt=10, meta_extra=None,
                finished=True, clocks=None):
    """Write the trace; returns list of event clocks (one per history entry)."""
    nth = len(system["threads"])
    per = [[] for _ in range(nth)]
    clks = []
    for i, e in enumerate(history):
        c = clocks[i] if clocks else t0 + i * dt
        clks.append(c)
        if e.get("jumbo") is not None:
            b = obs.ev(e["m"], c, jumbo=bytes.fromhex(e["jumbo"]))
        else:
            b = obs.ev(e["m"], c, encode_payload(e))
        per[e["th"] - 1].append(b)
    req = {"ovni": "1.1.0"}
    if models:
        req.update(models)
    # loom CPUs are declared by the first thread of each loom
    declared = set()
    for k, th in enumerate(system["threads"]):
        cpus = None
        if th["loom"] not in declared:
            declared.add(th["loom"])
            cpus = [(c["idx"], c["phy"]) for c in system["cpus"]
                    if c["loom"] == th["loom"] and not c["virt"]]
        meta = obs.thread_meta(th["tid"], th["pid"], loom_name(th["loom"]), app_id=th["app"],
                               cpus=cpus, require=req, finished=finished,
                               extra=(meta_extra or {}).get(k + 1))
        obs.write_stream(root, loom_name(th["loom"]), th["pid"], th["tid"], meta, b"".join(per[k]))
    return clks


def row_maps(tracedir, system):
    """Map PRV rows to model entities through the names in the .row files:
    thread row 'TH <app>.<tid>', cpu row ' CPU <loomrank>.<phy>' / 'vCPU <loomrank>.*'."""
    tmap, cmap = {}, {}
    tr = emu.Row(os.path.join(tracedir, "thread.row")).thread_rows["names"]
    key = {("TH %d.%d" % (t["app"], t["tid"])): i + 1 for i, t in enumerate(system["threads"])}
    for r, name in enumerate(tr):
        if name in key:
            tmap[r + 1] = key[name]
    looms = system.get("loom_order") or sorted(set(c["loom"] for c in system["cpus"]), key=lambda l: loom_name(l))
    lrank = {l: k for k, l in enumerate(looms)}
    ckey = {}
    for j, c in enumerate(system["cpus"]):
        if c["virt"]:
            ckey["vCPU %d.*" % lrank[c["loom"]]] = j + 1
        else:
            ckey[" CPU %d.%d" % (lrank[c["loom"]], c["phy"])] = j + 1
    cr = emu.Row(os.path.join(tracedir, "cpu.row")).thread_rows["names"]
    for r, name in enumerate(cr):
        if name in ckey:
            cmap[r + 1] = ckey[name]
    return tmap, cmap, len(tr), len(cr)


def views(tracedir, system, clocks, first_clock=None):
    """Per event: sorted list of cells [file, entity, type, value] (value != 0).
    Type-6 values of the thread file (cpu row numbers) are translated to cpu ids."""
    tmap, cmap, ntr, ncr = row_maps(tracedir, system)
    base = first_clock if first_clock is not None else (min(clocks) if clocks else 0)
    times = [c - base for c in clocks]
    tp = emu.Prv(os.path.join(tracedir, "thread.prv"))
    cp = emu.Prv(os.path.join(tracedir, "cpu.prv"))
    order = sorted(range(len(times)), key=lambda i: times[i])
    tv = tp.view_at([times[i] for i in order])
    cv = cp.view_at([times[i] for i in order])
    out = [None] * len(times)
    for k, i in enumerate(order):
        cells = []
        for (row, ty), v in tv[k].items():
            if v == 0:
                continue
            ent = tmap.get(row, -row)
            if ty == 6:
                v = cmap.get(v, -v)
            cells.append(["t", ent, ty, v])
        for (row, ty), v in cv[k].items():
            if v == 0:
                continue
            cells.append(["c", cmap.get(row, -row), ty, v])
        cells.sort()
        out[i] = cells
    return out, {"thread_prv": tp, "cpu_prv": cp}


def run_history(bdir, system, history, models=None, args=("-l",), want_views=True,
                keep=None, meta_extra=None, timeout=60):
    """Materialise, run ovniemu, project. Returns dict(verdict, views, emu)."""
    d = core.mkscratch("hist")
    try:
        td = os.path.join(d, "ovni")
        clocks = materialise(td, system, history, models=models, meta_extra=meta_extra)
        r = emu.ovniemu(bdir, td, args, timeout=timeout)
        vs = None
        err = None
        if want_views and os.path.exists(os.path.join(td, "thread.prv")) \
                and os.path.exists(os.path.join(td, "thread.row")):
            try:
                vs, _ = views(td, system, clocks)
            except Exception as ex:  # projection failure is reported, not hidden
                err = "projection failed: %r" % (ex,)
        if keep:
            shutil.copytree(d, keep, dirs_exist_ok=True)
        return {"verdict": r.verdict, "views": vs, "emu": r, "proj_error": err}
    finally:
        shutil.rmtree(d, ignore_errors=True)


def sys_record(system, models=""):
    return {"e": "sys",
            "threads": [{"tid": t["tid"], "pid": t["pid"], "app": t["app"], "loom": t["loom"],
                         "rank": t.get("rank", -1)}
                        for t in system["threads"]],
            "cpus": [{"loom": c["loom"], "idx": c["idx"], "phy": c["phy"], "virt": c["virt"]}
                     for c in system["cpus"]],
            "models": models}
