SPECIFICATION TSpec
POSTCONDITION Report
CHECK_DEADLOCK FALSE
