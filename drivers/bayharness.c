/* bayharness: replays TLC-generated event sequences (spec/Bay.tla) on the
 * real channels, patch bay and mux of the emulator (libemu.a).
 *
 * usage: bayharness <file>
 * each line:  <N> <def> ; ev ; ev ; ...   with ev = space separated "<chan>=<v>" writes
 *             chan: s (select) | i<k> (input k, 1-based); v: 0 = null
 *             select value k >= 1 selects input k (written as int64 k-1)
 * output per line: "ok <out>" (out 0 = null) after the last propagate, or "fail"
 */
#include <stdio.h>
#include <stdlib.h>
#include <string.h>
#include "emu/bay.h"
#include "emu/chan.h"
#include "emu/mux.h"
#include "emu/value.h"
#include "common.h"

#define MAXN 8

static int run_line(char *line)
{
	int n, def;
	char *p = line;
	if (sscanf(p, "%d %d", &n, &def) != 2 || n > MAXN)
		return -2;
	struct bay bay;
	struct chan sel, out, in[MAXN];
	struct mux mux;
	bay_init(&bay);
	chan_init(&sel, CHAN_SINGLE, "sel");
	chan_init(&out, CHAN_SINGLE, "out");
	if (bay_register(&bay, &sel) != 0 || bay_register(&bay, &out) != 0)
		return -2;
	for (int i = 0; i < n; i++) {
		chan_init(&in[i], CHAN_SINGLE, "in%d", i + 1);
		if (bay_register(&bay, &in[i]) != 0)
			return -2;
	}
	if (mux_init(&mux, &bay, &sel, &out, NULL, n) != 0)
		return -2;
	for (int i = 0; i < n; i++)
		if (mux_set_input(&mux, i, &in[i]) != 0)
			return -2;
	mux_set_default(&mux, value_int64(def));

	p = strchr(p, ';');
	while (p) {
		p++;
		char *end = strchr(p, ';');
		if (end)
			*end = 0;
		int any = 0;
		char *tok = strtok(p, " \n");
		while (tok) {
			int v = 0, k = 0;
			struct chan *c = NULL;
			struct value val;
			if (tok[0] == 's' && sscanf(tok, "s=%d", &v) == 1) {
				c = &sel;
				val = v == 0 ? value_null() : value_int64(v - 1);
			} else if (tok[0] == 'i' && sscanf(tok, "i%d=%d", &k, &v) == 2 && k >= 1 && k <= n) {
				c = &in[k - 1];
				val = v == 0 ? value_null() : value_int64(v);
			} else {
				return -2;
			}
			any = 1;
			if (chan_set(c, val) != 0)
				return -1;
			tok = strtok(NULL, " \n");
		}
		if (any && bay_propagate(&bay) != 0)
			return -1;
		p = end;
	}
	struct value o;
	if (chan_read(&out, &o) != 0)
		return -1;
	if (o.type == VALUE_NULL)
		return 0;
	return (int) o.i + 1000;
}

int main(int argc, char *argv[])
{
	if (argc < 2)
		return 2;
	FILE *f = fopen(argv[1], "r");
	if (!f)
		return 2;
	/* silence the library's diagnostics */
	if (!freopen("/dev/null", "w", stderr))
		return 2;
	char *line = NULL;
	size_t cap = 0;
	while (getline(&line, &cap, f) > 0) {
		int r = run_line(line);
		if (r == -2)
			printf("bad\n");
		else if (r == -1)
			printf("fail\n");
		else if (r == 0)
			printf("ok 0\n");
		else
			printf("ok %d\n", r - 1000);
	}
	return 0;
}
