SPECIFICATION Spec
CONSTANTS
  MaxLen = 4
  MaxClock = 2
  Rings <- MCRings
  MaxB = 2
  MaxJ = 1
  Strict = FALSE
  JumboInside = FALSE
  ExportUnspecLen = 4
  Variant = "nofinalcheck"
INVARIANTS Refinement

CHECK_DEADLOCK FALSE
