SPECIFICATION MCSpec
CONSTANTS
  System <- SysC06
  Alphabet <- AlphaC06
  MaxLen = 8
  Lint = TRUE
VIEW MCView
INVARIANT Inv
ACTION_CONSTRAINT Export
CHECK_DEADLOCK FALSE
