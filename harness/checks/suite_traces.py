"""Recorded executions from the repository's own emu-* tests, validated by TLC.

The test programs of /repo/test/emu (built from the working tree in the
`tests` build variant) are run as the suite's driver runs them; the traces
they leave are decoded with the independent decoder, replayed by the fresh
ovniemu, and the decoded event history with the view observed after every
event (thread.prv / cpu.prv) and the final verdict is validated by
EmuTrace.tla.  This is what catches changes the suite already exercises but
does not assert on (the tests only check that the emulator does not fail).
Tests that are expected to fail at load time (metadata problems) are left to
C12/C15; tests with custom drivers are skipped.
"""
import json
import os
import re
import shutil
import struct
import subprocess

from vlib import core, obs, emu, synth, emuhist, tv

SIG_RE = re.compile(r"(u8|u16|u32|u64|i8|i16|i32|i64|str)\s+(\w+)")
FMT = {"u8": "B", "u16": "H", "u32": "I", "u64": "Q", "i8": "b", "i16": "h", "i32": "i", "i64": "q"}
INTERPRETED = {"OHx", "OAs", "OAr", "OM[", "OM]", "OM=", "VTc", "VTC", "VTx", "VTe", "VTp", "VTr",
               "6Tc", "6Tx", "6Te", "6Tp", "6Tr", "VYc", "6Yc"}


def list_tests(bdir):
    r = subprocess.run(["ctest", "--test-dir", bdir, "--show-only=json-v1"], stdout=subprocess.PIPE,
                       stderr=subprocess.PIPE, text=True)
    out = []
    try:
        j = json.loads(r.stdout)
    except ValueError:
        return out
    for t in j.get("tests", []):
        name = t["name"]
        if not name.startswith("emu-"):
            continue
        props = {p["name"]: p["value"] for p in t.get("properties", [])}
        env = {}
        for e in props.get("ENVIRONMENT", []):
            k, _, v = e.partition("=")
            env[k] = v
        if props.get("DISABLED"):
            continue
        out.append({"name": name, "env": env, "will_fail": bool(props.get("WILL_FAIL")),
                    "regex": props.get("PASS_REGULAR_EXPRESSION") or props.get("FAIL_REGULAR_EXPRESSION")})
    return out


def decode_args(mcv, payload, jumbo, jdata, sigs, labels):
    """event record fields a, j for EmuTrace"""
    if mcv not in INTERPRETED:
        return [], bool(jumbo)
    if mcv in ("VYc", "6Yc"):
        if not jumbo or len(jdata) < 5:
            return [int.from_bytes(payload[:4].ljust(4, b"\0"), "little")], bool(jumbo)
        tid = struct.unpack("<I", jdata[:4])[0]
        lab = jdata[4:].split(b"\0")[0].decode("latin1")
        if lab == "":
            lab = "(unlabeled task type %d)" % tid
        code = labels.setdefault(lab, len(labels) + 1)
        return [tid, code], True
    sig = sigs.get(mcv, "")
    args = []
    off = 0
    for ty, name in SIG_RE.findall(sig):
        if ty == "str":
            break
        n = struct.calcsize("<" + FMT[ty])
        if off + n > len(payload):
            break
        v = struct.unpack("<" + FMT[ty], payload[off:off + n])[0]
        off += n
        if abs(v) >= 2 ** 31:
            v = 1 + (v % 1000000007)
        args.append(v)
    if mcv == "OHx":
        args = args[:1] + [0, 0][:max(0, len(args) - 1)]
    return args, bool(jumbo)


def build_case(bdir_emu, td):
    """decode the trace directory -> (system, events sorted by clock, clocks) or None"""
    sds = obs.find_streams(td)
    if not sds:
        return None
    tab = emuhist.model_table()
    sigs = {}
    for m in tab.values():
        for k, e in m["events"].items():
            sigs[k] = e.get("sig", "")
    threads = []
    loomnames = []
    metas = []
    for sd in sds:
        try:
            meta, data = obs.read_stream(sd)
            evs = obs.decode(data)
        except Exception:
            return None
        ov = meta.get("ovni", {})
        if ov.get("part") != "thread":
            continue
        metas.append((ov, evs, meta))
        if ov.get("loom") not in loomnames:
            loomnames.append(ov.get("loom"))
    if not metas:
        return None
    loomnames.sort()
    lidx = {n: i + 1 for i, n in enumerate(loomnames)}
    procinfo = {}
    for ov, evs, meta in metas:
        key = (ov.get("loom"), ov.get("pid"))
        pi = procinfo.setdefault(key, {"app": 0, "rank": -1})
        if ov.get("app_id"):
            pi["app"] = ov["app_id"]
        if "rank" in ov:
            pi["rank"] = ov["rank"]
    cpus = []
    seen = set()
    models = set(["O"])
    marks = {}
    for ov, evs, meta in metas:
        for c in ov.get("loom_cpus", []) or []:
            k = (ov.get("loom"), c["phyid"])
            if k not in seen:
                seen.add(k)
                cpus.append({"loom": lidx[ov["loom"]], "idx": c["index"], "phy": c["phyid"], "virt": False})
        for name in (ov.get("require") or {}):
            if name in tab:
                models.add(tab[name]["char"])
        for ty, md in (ov.get("mark") or {}).items():
            marks[int(ty)] = (md.get("chan_type") == "stack")
    for l in sorted(set(c["loom"] for c in cpus) | set(lidx.values())):
        cpus.append({"loom": l, "idx": -1, "phy": -1, "virt": True})
    nranks = 0
    events = []
    labels = {}
    for ti, (ov, evs, meta) in enumerate(metas, start=1):
        pi = procinfo[(ov.get("loom"), ov.get("pid"))]
        threads.append({"tid": ov.get("tid"), "pid": ov.get("pid"), "app": pi["app"], "loom": lidx[ov["loom"]],
                        "rank": pi["rank"]})
        for e in evs:
            events.append((e["clock"], ti, e))
    events.sort(key=lambda x: (x[0], x[1]))
    recs = []
    clocks = []
    for clk, ti, e in events:
        a, j = decode_args(e["mcv"], e["payload"], e["jumbo"], e["jdata"], sigs, labels)
        recs.append({"th": ti, "m": e["mcv"], "mc": e["mcv"][0], "a": a, "j": j})
        clocks.append(clk)
    # order of the looms in the CPU rows: by minimum rank when every loom has ranks, else by name
    lranks = {}
    for (lname, pid), pi in procinfo.items():
        lranks.setdefault(lidx[lname], []).append(pi["rank"])
    if all(any(r >= 0 for r in rs) for rs in lranks.values()):
        order = sorted(lranks, key=lambda l: min(r for r in lranks[l] if r >= 0))
    else:
        order = sorted(lranks)
    system = {"threads": threads, "cpus": cpus, "models": sorted(models), "loom_order": order,
              "marks": [{"type": t, "stack": s} for t, s in sorted(marks.items())]}
    return system, recs, clocks, labels


def pcf_label_codes(td, labels):
    out = {}
    p = os.path.join(td, "thread.pcf")
    if os.path.exists(p):
        pcf = emu.Pcf(p)
        for ty in (11, 36):
            if ty in pcf.types:
                for v, lab in pcf.types[ty][1].items():
                    if lab in labels:
                        out[(ty, v)] = labels[lab]
    return out


def calibrate_labels(tbdir, models, labels):
    """the emulator writes the task-type PCF values only when the emulation finishes: for runs that
    fail, learn gid -> label code from a small accepted trace that defines the same labels"""
    out = {}
    for mc, ty in (("V", 11), ("6", 36)):
        if mc not in models:
            continue
        d = core.mkscratch("cal")
        try:
            td = os.path.join(d, "ovni")
            system = {"threads": [{"tid": 101, "pid": 1001, "app": 1, "loom": 1, "rank": -1}],
                      "cpus": [{"loom": 1, "idx": 0, "phy": 10, "virt": False},
                               {"loom": 1, "idx": -1, "phy": -1, "virt": True}], "marks": [], "models": ["O", mc]}
            evs = [{"th": 1, "m": "OHx", "a": [0, 101, 7]}]
            for k, lab in enumerate(sorted(labels)):
                evs.append({"th": 1, "m": mc + "Yc",
                            "jumbo": (struct.pack("<I", k + 1) + lab.encode("latin1") + b"\0").hex()})
            evs.append({"th": 1, "m": "OHe", "a": []})
            synth.materialise(td, system, evs, models=emuhist.require_for({"O", mc}))
            r = emu.ovniemu(tbdir, td, ("-l",))
            if r.accepted:
                out.update(pcf_label_codes(td, labels))
        finally:
            shutil.rmtree(d, ignore_errors=True)
    return out


def run_test(tbdir, t):
    """run one suite test program the way test/ovni-driver.sh does, emulate, project"""
    d = core.mkscratch("suite")
    try:
        exe = None
        for root, dn, fn in os.walk(os.path.join(tbdir, "test", "emu")):
            if t["name"] in fn:
                exe = os.path.join(root, t["name"])
                break
        if exe is None:
            return {"skip": "no binary"}
        env = dict(t["env"])
        if env.get("OVNI_DRIVER"):
            return {"skip": "custom driver"}
        nprocs = int(env.get("OVNI_NPROCS", "1"))
        base = {"OVNI_CONFIG_DIR": emu.empty_cfg(), "PATH": os.path.join(tbdir, "src", "emu") + ":" + os.environ["PATH"]}
        procs = []
        for i in range(nprocs):
            e = dict(os.environ)
            e.update(base)
            if nprocs > 1:
                e.update({"OVNI_RANK": str(i), "OVNI_NRANKS": str(nprocs)})
            e["OVNI_TEST_BIN"] = exe
            procs.append(subprocess.Popen([exe], cwd=d, env=e, stdout=subprocess.DEVNULL, stderr=subprocess.DEVNULL))
        for p in procs:
            try:
                p.wait(timeout=60)
            except subprocess.TimeoutExpired:
                p.kill()
                return {"skip": "test program timed out"}
        td = os.path.join(d, "ovni")
        if not os.path.isdir(td):
            return {"skip": "no trace produced"}
        if env.get("OVNI_DO_SORT"):
            emu.runtool(tbdir, "ovnisort", [td])
        case = build_case(tbdir, td)
        if case is None:
            return {"skip": "trace not decodable (load-time failure test)"}
        system, recs, clocks, labels = case
        args = ["-l"] + (env.get("OVNI_EMU_ARGS", "").split())
        r = emu.ovniemu(tbdir, td, args, timeout=120)
        if "emulation starts" not in r.text:
            return {"skip": "emulator refused the trace at load time (C12/C15 territory)", "verdict": r.verdict}
        vs = None
        if os.path.exists(os.path.join(td, "thread.prv")) and os.path.exists(os.path.join(td, "thread.row")):
            try:
                vs, _ = synth.views(td, system, clocks)
                tl = pcf_label_codes(td, labels)
                if not tl and labels:
                    tl = calibrate_labels(tbdir, system["models"], labels)
                for cells in vs:
                    for c in cells:
                        if c[2] in (11, 36):
                            c[3] = tl.get((c[2], c[3]), -(1 + abs(c[3]) % 1000000007))
                        elif abs(c[3]) >= 2 ** 31:
                            c[3] = 1 + (c[3] % 1000000007)
            except Exception as ex:
                return {"skip": "projection failed: %r" % (ex,)}
        out = [dict(synth.sys_record(system), lint=True, marks=system["marks"], models=system["models"])]
        for i, rec in enumerate(recs):
            # the view can only be attributed to the last event of a group sharing the same clock
            last_of_group = (i + 1 == len(recs)) or clocks[i + 1] != clocks[i]
            out.append(dict(rec, e="ev", hasview=bool(vs is not None and last_of_group),
                            view=vs[i] if (vs is not None and last_of_group) else []))
        out.append({"e": "end", "verdict": r.verdict})
        return {"exec": out, "verdict": r.verdict, "events": len(recs)}
    finally:
        shutil.rmtree(d, ignore_errors=True)


def run(ck, tier):
    tb = core.build("tests")
    tests = list_tests(tb)
    if not tests:
        raise core.MachineryError("no emu-* tests found in the tests build")
    res = core.pmap(lambda t: run_test(tb, t), tests, workers=8)
    execs, owners, skipped = [], [], {}
    for t, r in zip(tests, res):
        if "skip" in r:
            skipped[t["name"]] = r["skip"]
            continue
        execs.append(r["exec"])
        owners.append((t, r))
    tvr = tv.validate("EmuTrace", "EmuTrace.cfg", execs, None, chunk=max(4, len(execs) // 8 + 1), parallel=8)
    ck.cov["traces_validated_against_impl"] += len(tvr.accepted)
    ck.cov["states"] += tvr.states
    ck.cov["transitions"] += tvr.generated
    for (t, r) in owners:
        ck.case("suite:" + t["name"], nontrivial=r["events"] >= 4)
    ck.notes["suite_traces"] = {"tests": len(tests), "validated": len(execs), "accepted_by_spec": len(tvr.accepted),
                                "rejected_by_spec": len(tvr.rejected), "skipped": skipped}
    for (i, line, rec, tail, violated) in tvr.rejected:
        t, r = owners[i]
        ck.violation("trace of the repository's own test %s: emulator behaviour not explained by the specification at "
                     "record #%d\nrecord: %s\nemulator verdict: %s"
                     % (t["name"], line, json.dumps(rec)[:1500], r["verdict"]),
                     {"execution.ndjson": "\n".join(json.dumps(x) for x in execs[i])[:3000000], "tlc_tail.txt": tail},
                     sig="suite:%s:%s" % (t["name"], rec.get("m") or rec.get("e")))
    return tvr
