------------------------------- MODULE EmuMC -------------------------------
(* Bounded model of the emulator for TLC: a fixed system, a finite alphabet
   of events, every history up to MaxLen.  Used to (1) check the invariants
   of the property layer, (2) export every transition, from which the
   harness builds one implementation test per model transition.          *)
EXTENDS EmuFull, Json

CONSTANTS System,     \* the sys record
          Alphabet,   \* set of event records [th, m, mc, a, j]
          MaxLen,
          Lint

VARIABLES n,          \* events replayed so far
          last        \* ghost: last event

mcVars == <<allVars, n, last>>

NoEv == [th |-> 0, m |-> "", mc |-> "", a |-> <<>>, j |-> FALSE]
MCInit == InitAll(System, Lint) /\ n = 0 /\ last = NoEv

MCNext == /\ ~failed /\ ~unspec /\ n < MaxLen
          /\ \E e \in Alphabet : StepAll(e) /\ last' = e
          /\ n' = n + 1
MCSpec == MCInit /\ [][MCNext]_mcVars

\* the state without ghosts: histories reaching the same emulator state merge
MCView == <<allVars>>

\* State identity for the exported graph
Compact(f) == [k \in {x \in DOMAIN f : f[x] # <<>>} |-> f[k]]
\* (records are flattened to tuples: TLC does not print record fields in a canonical order)
Ident == <<thState, thCpu, ooc, [t \in DOMAIN ch |-> Compact(ch[t])],
           {<<x.m, x.l, x.p, x.id, x.label, x.flags>> : x \in ttasks},
           {<<x.m, x.l, x.p, x.id, x.label>> : x \in ttypes},
           [k \in DOMAIN tbodies |-> <<tbodies[k].st, tbodies[k].it>>],
           Compact(tstack), [t \in DOMAIN mk |-> Compact(mk[t])], failed, unspec>>

ASSUME PrintT(<<"SYS", ToJson([threads |-> System.threads, cpus |-> System.cpus,
                                marks |-> System.marks, models |-> System.models])>>)

\* thread-local context of the event's thread in the source state (used by the
\* harness to stratify its sample of the transitions)
BodySt(m, t) == [i \in 1..Len(tstack[<<m, t>>]) |->
                   tbodies[BKey(m, t, tstack[<<m, t>>][i][1], tstack[<<m, t>>][i][2])].st]
Ctx(t) == IF t = 0 THEN <<>>
          ELSE <<thState[t], thCpu[t] # 0, ooc[t],
                 [k \in {x \in DOMAIN ch[t] : ch[t][x] # <<>>} |-> <<Len(ch[t][k]), Top(ch[t][k])>>],
                 BodySt("V", t), BodySt("6", t),
                 [y \in {x \in DOMAIN mk[t] : mk[t][x] # <<>>} |-> Len(mk[t][y])],
                 {u \in Threads : thCpu[u] = thCpu[t] /\ thState[u] = "running"} # {}>>

Export == PrintT(<<"TR", ToJson([src |-> ToString(Ident), ev |-> last', first |-> (n = 0),
                                  ctx |-> ToString(Ctx(last'.th)),
                                  ok |-> ~failed', un |-> unspec',
                                  dst |-> ToString(Ident'), fin |-> VerdictAll'])>>)

\* C04/C05 invariants of the layer + C07 invariants
Inv == /\ NoPhysOversubscription /\ CpuIffStarted /\ TidShownIffActive /\ CpuMirrorsThreads
       /\ BodyRunsOnAtMostOneThread /\ OnlyTopRuns /\ TaskChansMirrorBodies /\ ParallelNeverPaused

(* ---- bounded instances ---- *)
Th(tid, pid, app, loom) == [tid |-> tid, pid |-> pid, app |-> app, loom |-> loom, rank |-> -1]
Cpu(loom, idx, phy, virt) == [loom |-> loom, idx |-> idx, phy |-> phy, virt |-> virt]
E(th, m, a) == [th |-> th, m |-> m, mc |-> "O", a |-> a, j |-> FALSE]

\* C04: thread life-cycle. 2 threads of one process, 2 physical CPUs + virtual CPU
SysC04 == [threads |-> <<Th(101, 1001, 1, 1), Th(102, 1001, 1, 1)>>,
           cpus |-> <<Cpu(1, 0, 11, FALSE), Cpu(1, 1, 10, FALSE), Cpu(1, -1, -1, TRUE)>>,
           marks |-> <<>>, models |-> {"O"}]
AlphaC04 == {E(t, m, <<>>) : t \in {1, 2}, m \in {"OHp", "OHr", "OHc", "OHw", "OHe"}}
            \cup {E(t, "OHx", <<c, 101, 7>>) : t \in {1, 2}, c \in {0, -1, 5}}
            \cup {E(1, "OHx", <<>>)}

\* C05: occupancy and affinity. 3 threads (two processes), second loom with one thread
SysC05 == [threads |-> <<Th(101, 1001, 1, 1), Th(102, 1001, 1, 1), Th(103, 1002, 2, 1), Th(201, 2001, 3, 2)>>,
           cpus |-> <<Cpu(1, 0, 11, FALSE), Cpu(1, 1, 10, FALSE), Cpu(1, -1, -1, TRUE),
                      Cpu(2, 0, 20, FALSE), Cpu(2, -1, -1, TRUE)>>,
           marks |-> <<>>, models |-> {"O"}]
AlphaC05 == {E(t, m, <<>>) : t \in {1, 2, 3}, m \in {"OHp", "OHr", "OHe"}}
            \cup {E(t, m, <<>>) : t \in {1, 2}, m \in {"OHc", "OHw"}}
            \cup {E(t, "OHx", <<c, 101, 7>>) : t \in {1, 2, 3}, c \in {0, 1, -1}}
            \cup {E(4, "OHx", <<0, 201, 7>>), E(4, "OHe", <<>>)}
            \cup {E(t, "OAs", <<c>>) : t \in {1, 3}, c \in {0, 1, -1, 7}}
            \cup {E(1, "OAs", <<>>), E(1, "OAr", <<0>>)}
            \cup {E(t, "OAr", <<c, tid>>) : t \in {1, 3}, c \in {0, -1}, tid \in {101, 102, 103, 201, 999}}

\* C05, thread ids that repeat across looms: TIDs are unique inside a loom (one kernel) only; the remote
\* affinity event names its target by TID and means the thread of the EMITTING thread's loom
SysC05X == [threads |-> <<Th(101, 1001, 1, 1), Th(102, 1001, 1, 1), Th(101, 2001, 2, 2), Th(102, 2001, 2, 2)>>,
            cpus |-> <<Cpu(1, 0, 11, FALSE), Cpu(1, 1, 10, FALSE), Cpu(1, -1, -1, TRUE),
                       Cpu(2, 0, 21, FALSE), Cpu(2, 1, 20, FALSE), Cpu(2, -1, -1, TRUE)>>,
            marks |-> <<>>, models |-> {"O"}]
AlphaC05X == {E(t, "OHe", <<>>) : t \in {1, 2, 3, 4}}
             \cup {E(t, m, <<>>) : t \in {2, 4}, m \in {"OHp", "OHr"}}
             \cup {E(t, "OHx", <<c, 101, 7>>) : t \in {1, 2, 3, 4}, c \in {0, 1}}
             \cup {E(t, "OAr", <<c, tid>>) : t \in {1, 3}, c \in {0, 1}, tid \in {101, 102}}
             \cup {E(t, "OAs", <<c>>) : t \in {2, 4}, c \in {0, 1}}

(* ---- C06: view consistency. 2 threads, 2 CPUs + vCPU; one value-changing
   event pair per tracking mode: ovni flush (ANY), kernel context switch
   (ANY, stack), MPI function (RUN), NODES subsystem (ACT) ---- *)
G(th, mc, m) == [th |-> th, m |-> m, mc |-> mc, a |-> <<>>, j |-> FALSE]
\* C04/C05 with the kernel model: a thread that the kernel has switched out (KCO .. KCI) is still RUNNING for
\* the thread state machine and still occupies its CPU (the properties know nothing of kernel preemption)
SysCK == [threads |-> <<Th(101, 1001, 1, 1), Th(102, 1001, 1, 1)>>,
          cpus |-> <<Cpu(1, 0, 11, FALSE), Cpu(1, 1, 10, FALSE), Cpu(1, -1, -1, TRUE)>>,
          marks |-> <<>>, models |-> {"O", "K"}]
AlphaCK == {E(t, m, <<>>) : t \in {1, 2}, m \in {"OHp", "OHr", "OHe"}}
           \cup {E(t, "OHx", <<c, 101, 7>>) : t \in {1, 2}, c \in {0, 1}}
           \cup {G(t, "K", m) : t \in {1, 2}, m \in {"KCO", "KCI"}}
           \cup {E(1, "OAr", <<c, 102>>) : c \in {0, 1}} \cup {E(2, "OAs", <<c>>) : c \in {0, 1}}

SysC06 == [threads |-> <<Th(101, 1001, 1, 1), Th(102, 1001, 1, 1)>>,
           cpus |-> <<Cpu(1, 0, 11, FALSE), Cpu(1, 1, 10, FALSE), Cpu(1, -1, -1, TRUE)>>,
           marks |-> <<>>, models |-> {"O", "K", "M", "D"}]
ThreadEvs(T) == {E(t, m, <<>>) : t \in T, m \in {"OHp", "OHr", "OHc", "OHw", "OHe"}}
AlphaC06 == ThreadEvs({1, 2})
            \cup {E(1, "OHx", <<0, 101, 7>>), E(2, "OHx", <<1, 101, 7>>), E(2, "OHx", <<0, 101, 7>>)}
            \cup {E(1, "OHx", <<-1, 101, 7>>), E(2, "OHx", <<-1, 101, 7>>)}      \* the virtual CPU may hold several running threads
            \cup {E(t, "OAs", <<c>>) : t \in {1, 2}, c \in {0, 1, -1}}
            \cup {E(1, "OAr", <<1, 102>>), E(2, "OAr", <<0, 101>>)}
            \cup {G(t, "O", m) : t \in {1, 2}, m \in {"OF[", "OF]"}}
            \cup {G(t, "M", m) : t \in {1, 2}, m \in {"MUi", "MUI"}}
            \cup {G(t, "D", m) : t \in {1, 2}, m \in {"DR[", "DR]"}}
            \cup {G(1, "K", m) : m \in {"KCO", "KCI"}}

(* ---- C08: nesting. 1 thread + a bystander, three region kinds of a model;
   the bystander checks that stacks are per thread ---- *)
SysC08(models) == [threads |-> <<Th(101, 1001, 1, 1), Th(102, 1001, 1, 1)>>,
                   cpus |-> <<Cpu(1, 0, 11, FALSE), Cpu(1, 1, 10, FALSE), Cpu(1, -1, -1, TRUE)>>,
                   marks |-> <<>>, models |-> models]
Base08 == {E(1, "OHx", <<0, 101, 7>>), E(2, "OHx", <<1, 101, 7>>), E(1, "OHp", <<>>), E(1, "OHr", <<>>),
           E(1, "OHc", <<>>), E(1, "OHw", <<>>), E(1, "OHe", <<>>), E(2, "OHe", <<>>)}
Regions(mc, T, evs) == {G(t, mc, m) : t \in T, m \in evs}
SysC08D == SysC08({"O", "D"})
AlphaC08D == Base08 \cup Regions("D", {1}, {"DR[", "DR]", "DU[", "DU]", "DW[", "DW]"}) \cup Regions("D", {2}, {"DR[", "DR]"})
SysC08M == SysC08({"O", "M"})
AlphaC08M == Base08 \cup Regions("M", {1}, {"MUi", "MUI", "MS[", "MS]", "MAg", "MAG"}) \cup Regions("M", {2}, {"MUi", "MUI"})
SysC08T == SysC08({"O", "T"})
AlphaC08T == Base08 \cup Regions("T", {1}, {"TCi", "TCI", "TGc", "TGC", "TQa", "TQA"}) \cup Regions("T", {2}, {"TCi", "TCI"})
SysC08P == SysC08({"O", "P"})
AlphaC08P == Base08 \cup Regions("P", {1}, {"PBb", "PBB", "PWs", "PWS", "PCf", "PCF"}) \cup Regions("P", {2}, {"PBb", "PBB"})
SysC08V == SysC08({"O", "V"})
AlphaC08V == Base08 \cup Regions("V", {1}, {"VSh", "VSf", "VAc", "VAC", "VMa", "VMA"}) \cup Regions("V", {2}, {"VSh", "VSf"})
SysC086 == SysC08({"O", "6"})
\* ... plus two tasks: executing a task is a region of the subsystem stack too (also nested over a running task)
AlphaC086 == Base08 \cup Regions("6", {1}, {"6C[", "6C]", "6U[", "6U]", "6Hw", "6HW"}) \cup Regions("6", {2}, {"6C[", "6C]"})
             \cup {[th |-> 1, m |-> "6Yc", mc |-> "6", a |-> <<1, 5>>, j |-> TRUE],
                   [th |-> 1, m |-> "6Tc", mc |-> "6", a |-> <<1, 1>>, j |-> FALSE],
                   [th |-> 1, m |-> "6Tc", mc |-> "6", a |-> <<2, 1>>, j |-> FALSE]}
             \cup {[th |-> 1, m |-> m, mc |-> "6", a |-> <<k>>, j |-> FALSE] : m \in {"6Tx", "6Te"}, k \in {1, 2}}
SysC08K == SysC08({"O", "K"})
AlphaC08K == Base08 \cup Regions("K", {1, 2}, {"KCO", "KCI"}) \cup Regions("O", {1}, {"OF[", "OF]"})

(* ---- C07: task life-cycle ---- *)
A(th, mc, m, a) == [th |-> th, m |-> m, mc |-> mc, a |-> a, j |-> FALSE]
J(th, mc, m, a) == [th |-> th, m |-> m, mc |-> mc, a |-> a, j |-> TRUE]
ThR(tid, pid, app, loom, rank) == [tid |-> tid, pid |-> pid, app |-> app, loom |-> loom, rank |-> rank]
\* nOS-V: 2 threads of one process (rank 2), tasks: 1 normal, 2 parallel (bodies 1,2), type 1
SysC07V == [threads |-> <<ThR(101, 1001, 1, 1, 2), ThR(102, 1001, 1, 1, 2)>>,
            cpus |-> <<Cpu(1, 0, 11, FALSE), Cpu(1, 1, 10, FALSE), Cpu(1, -1, -1, TRUE)>>,
            marks |-> <<>>, models |-> {"O", "V"}, nranks |-> 4]
AlphaC07V == {E(1, "OHx", <<0, 101, 7>>), E(2, "OHx", <<1, 101, 7>>), E(1, "OHe", <<>>), E(2, "OHe", <<>>),
              E(1, "OHp", <<>>), E(1, "OHr", <<>>)}
             \cup {J(1, "V", "VYc", <<1, 5>>), A(1, "V", "VTc", <<1, 1>>), A(1, "V", "VTC", <<2, 1>>),
                    A(1, "V", "VTc", <<3, 1>>)}
             \cup {A(t, "V", m, <<1, 0>>) : t \in {1, 2}, m \in {"VTx", "VTe", "VTp", "VTr"}}
             \cup {A(t, "V", m, <<2, b>>) : t \in {1, 2}, m \in {"VTx", "VTe"}, b \in {1, 2}}
             \cup {A(1, "V", "VTp", <<2, 1>>), A(1, "V", "VTx", <<2, 0>>), A(1, "V", "VTx", <<1, 1>>)}
             \cup {A(1, "V", m, <<3, 0>>) : m \in {"VTx", "VTe"}}
             \cup {A(1, "V", "VTx", <<9, 0>>), A(1, "V", "VTc", <<4, 9>>), A(1, "V", "VTx", <<1>>)}
\* Nanos6: relaxed nesting, no parallel tasks, body id always 1
SysC076 == [threads |-> <<ThR(101, 1001, 1, 1, 2), ThR(102, 1001, 1, 1, 2)>>,
            cpus |-> <<Cpu(1, 0, 11, FALSE), Cpu(1, 1, 10, FALSE), Cpu(1, -1, -1, TRUE)>>,
            marks |-> <<>>, models |-> {"O", "6"}, nranks |-> 4]
AlphaC076 == {E(1, "OHx", <<0, 101, 7>>), E(2, "OHx", <<1, 101, 7>>), E(1, "OHe", <<>>), E(2, "OHe", <<>>),
              E(1, "OHp", <<>>), E(1, "OHr", <<>>)}
             \cup {J(1, "6", "6Yc", <<1, 5>>), J(1, "6", "6Yc", <<2, 6>>), A(1, "6", "6Tc", <<1, 1>>),
                    A(1, "6", "6Tc", <<2, 2>>), A(1, "6", "6Tc", <<3, 1>>)}
             \cup {A(t, "6", m, <<k>>) : t \in {1, 2}, m \in {"6Tx", "6Te", "6Tp", "6Tr"}, k \in {1, 2}}
             \cup {A(1, "6", m, <<3>>) : m \in {"6Tx", "6Te"}}
             \cup {G(1, "6", "6C["), G(1, "6", "6C]")}
             \cup {A(1, "6", "6Tx", <<9>>), A(1, "6", "6Tc", <<4, 9>>), A(1, "6", "6Tc", <<5, 1, 0>>), A(1, "6", "6Yc", <<3, 7>>)}

(* ---- C17: marks (emulator side). type 1 = stack, type 2 = single ---- *)
SysC17 == [threads |-> <<Th(101, 1001, 1, 1), Th(102, 1001, 1, 1)>>,
           cpus |-> <<Cpu(1, 0, 11, FALSE), Cpu(1, 1, 10, FALSE), Cpu(1, -1, -1, TRUE)>>,
           marks |-> <<[type |-> 1, stack |-> TRUE], [type |-> 2, stack |-> FALSE]>>, models |-> {"O"}]
AlphaC17 == {E(1, "OHx", <<0, 101, 7>>), E(2, "OHx", <<1, 101, 7>>), E(2, "OHx", <<0, 101, 7>>),
             E(1, "OHe", <<>>), E(2, "OHe", <<>>), E(1, "OHp", <<>>), E(1, "OHr", <<>>), E(1, "OHc", <<>>),
             E(1, "OAs", <<1>>)}
            \cup {E(t, m, <<v, 1>>) : t \in {1, 2}, m \in {"OM[", "OM]"}, v \in {1, 2}}
            \cup {E(t, "OM=", <<v, 2>>) : t \in {1, 2}, v \in {1, 2}}
            \cup {E(1, "OM=", <<1, 1>>), E(1, "OM[", <<1, 2>>), E(1, "OM]", <<1, 2>>), E(1, "OM[", <<0, 1>>),
                   E(1, "OM=", <<0, 2>>), E(1, "OM[", <<1, 3>>), E(1, "OM[", <<1>>)}
=============================================================================
