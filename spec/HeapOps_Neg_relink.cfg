SPECIFICATION Spec
CONSTANTS
  MaxNodes = 5
  Keys = {0,1,2}
  MaxOps = 0
  HVariant = "relink"
  Grammar = "any"
INVARIANTS WellFormed SizeIsCount
PROPERTIES PopIsMin
CHECK_DEADLOCK FALSE
