------------------------------- MODULE RtAttr -------------------------------
(* Runtime side of the thread attribute API: src/rt/ovni.c (ovni_attr_has,
   ovni_attr_set_double / _boolean / _str / _json, ovni_attr_get_double /
   _boolean / _str / _json, ovni_attr_flush, thread_metadata_store,
   ovni_thread_init / ovni_thread_require / ovni_thread_free) on top of the
   bundled parson (src/parson.c: json_object_dotset_value,
   json_object_dotget_value).

   The metadata of a thread is a *tree*: a function from paths (sequences of
   names, <<>> is the root object) to nodes <<kind, value>>,

      <<"obj","">>  <<"num",tok>>  <<"bool","T"|"F">>  <<"str",tok>>
      <<"null","">> <<"arr",tok>>

   prefix closed, children only below objects.  Values are tokens: the model
   only says *which* value comes back, the harness encodes a token as a
   concrete double / string / array and decodes what it observes.  The value
   "?" is a value the model leaves open (library version, commit, metadata
   version): any value of that kind is accepted.

   A key "a.b.c" is the path <<"a","b","c">> (dotset / dotget split at every
   dot; a key without dots is a plain name).  A set

      - fails, and the library dies, when a strict prefix of the key exists
        and is not an object (parson.c:2260);
      - creates the missing intermediate objects;
      - replaces whatever subtree was at the key by the value (a scalar, or
        the tree of a JSON text for ovni_attr_set_json).

   The state of a thread is its phase, the tree in memory and `disk`, the
   tree last written to thread.<tid>/stream.json (NoFile before
   ovni_thread_init).  thread_metadata_store runs in ovni_thread_init (before
   the implicit ovni_thread_require("ovni")), in ovni_attr_flush and in
   ovni_thread_free (after ovni.finished = 1).  A call that fails dies: the
   process is gone, nothing happens afterwards and the file keeps the content
   of the last store.

   `hist` is a ghost: the calls of each thread with their outcome and the
   value they returned.  The invariants TreeIsLastWrites / DiskIsSnapshot
   state declaratively, from `hist` alone, what the tree and the file must be
   (the last write at a prefix wins); the action properties P_* are
   history-free and are evaluated on every transition.

   Export: one line per transition (ExportT, transition cover of the state
   graph: the representative history of the source state + the call) or one
   line per finished behaviour (ExportEnd, -simulate), with the expected
   outcome of every call and the expected content of every thread's
   stream.json (ExpectedFile).                                              *)
EXTENDS Integers, Sequences, FiniteSets, TLC, Json, IOUtils

CONSTANTS NT,           \* number of threads of the process
          Calls(_),     \* thread -> set of calls [op, key, arg]
          MaxOps,       \* bound on the number of calls of a thread
          MinDie,       \* a call that does not succeed is only made after this many calls
          Ending,       \* "any" | "free" | "die": how the behaviours end (shapes -simulate walks)
          ProcAtStart,  \* TRUE: ovni_proc_init / _fini are made by the driver around the threads
          Variant       \* "faithful" | "neg_scalar_mid" | "neg_keep_subtree" | "neg_get_type" | "neg_lazy_flush"

VARIABLES proc,    \* "none" | "ready" | "gone"
          phase,   \* [thread -> "none" | "ready" | "freed" | "dead" | "open"]
          tree,    \* [thread -> tree] metadata in memory
          disk,    \* [thread -> tree | NoFile] content of stream.json
          hist     \* ghost: [thread -> sequence of [op, key, arg, out, ret]]

vars == <<proc, phase, tree, disk, hist>>
Threads == 1..NT

-----------------------------------------------------------------------------
(* paths, nodes, value trees *)
OBJ    == <<"obj", "">>
ABSENT == <<"absent", "">>
NoFile == <<>>                      \* no tree: every tree has the root in its domain
Nil    == <<>>                      \* no argument / nothing returned
S(n)   == (<<>> :> n)               \* value tree of a scalar
Root   == S(OBJ)
Num(t)  == S(<<"num", t>>)
Str(t)  == S(<<"str", t>>)
Bool(b) == S(<<"bool", IF b THEN "T" ELSE "F">>)

IsPrefix(p, q) == Len(p) <= Len(q) /\ SubSeq(q, 1, Len(p)) = p
Drop(p, n)     == SubSeq(p, n + 1, Len(p))
StrictPrefixes(k) == {SubSeq(k, 1, i) : i \in 0..(Len(k) - 1)}
NodeAt(t, p)   == IF p \in DOMAIN t THEN t[p] ELSE ABSENT
Sub(t, k)      == [r \in {Drop(p, Len(k)) : p \in {q \in DOMAIN t : IsPrefix(k, q)}} |-> t[k \o r]]
Flat(t)        == {<<p, t[p][1], t[p][2]>> : p \in DOMAIN t}

WellFormed(t) ==
   /\ <<>> \in DOMAIN t /\ t[<<>>] = OBJ
   /\ \A p \in DOMAIN t : p # <<>> =>
         LET par == SubSeq(p, 1, Len(p) - 1) IN par \in DOMAIN t /\ t[par] = OBJ

-----------------------------------------------------------------------------
(* json_object_dotset_value on the flat tree *)
Blocked(t, k) ==
   /\ Variant # "neg_scalar_mid"
   /\ \E p \in StrictPrefixes(k) : p \in DOMAIN t /\ t[p] # OBJ

Graft(t, k, vt) ==
   LET keep == IF Variant = "neg_keep_subtree"
               THEN {p \in DOMAIN t : p # k}
               ELSE {p \in DOMAIN t : ~IsPrefix(k, p)}
       mids == StrictPrefixes(k)
       new  == {k \o r : r \in DOMAIN vt}
   IN [p \in keep \cup mids \cup new |->
         IF p \in new THEN vt[Drop(p, Len(k))]
         ELSE IF p \in mids THEN OBJ
         ELSE t[p]]

RECURSIVE ApplyAll(_, _, _)
ApplyAll(t, ws, i) == IF i > Len(ws) THEN t ELSE ApplyAll(Graft(t, ws[i][1], ws[i][2]), ws, i + 1)

-----------------------------------------------------------------------------
(* the library's own keys *)
ProcArgs == (<<"app">> :> <<"num", "1">>) @@ (<<"loom">> :> <<"str", "nodeA">>) @@ (<<"pid">> :> <<"num", "77">>)
TidTok(th) == ToString(1000 * th)
NUMQ == <<"num", "?">>
STRQ == <<"str", "?">>
ReqKey(model) == <<"ovni", "require", model>>
FinKey == <<"ovni", "finished">>
\* thread_metadata_populate, in order
LibInit(th) ==
   << <<<<"version">>, S(NUMQ)>>,
      <<<<"ovni", "lib", "version">>, S(STRQ)>>,
      <<<<"ovni", "lib", "commit">>, S(STRQ)>>,
      <<<<"ovni", "part">>, Str("thread")>>,
      <<<<"ovni", "tid">>, Num(TidTok(th))>>,
      <<<<"ovni", "pid">>, S(ProcArgs[<<"pid">>])>>,
      <<<<"ovni", "loom">>, S(ProcArgs[<<"loom">>])>>,
      <<<<"ovni", "app_id">>, S(ProcArgs[<<"app">>])>> >>
\* ovni_thread_init: populate, store, then ovni_thread_require("ovni", version)
InitReq == <<ReqKey("ovni"), S(STRQ)>>
FinWrite == <<FinKey, Num("1")>>

-----------------------------------------------------------------------------
(* calls *)
Getters == {"get_double", "get_boolean", "get_str"}
Setters == {"set_double", "set_boolean", "set_str", "set_json"}
Readers == Getters \cup {"has", "get_json"}
AttrOps == Readers \cup Setters \cup {"flush"}
KindOf(op) == CASE op = "get_double" -> "num" [] op = "get_boolean" -> "bool" [] op = "get_str" -> "str"
Scalars == {"num", "bool", "str"}

C(op, key, arg) == [op |-> op, key |-> key, arg |-> arg]

Res(out, ret, t, d, ph) == [out |-> out, ret |-> ret, tree |-> t, disk |-> d, phase |-> ph]

\* outcome of call c made by thread th in the current state: "ok" | "dies" | "unspec"
Out(th, c) ==
   LET t == tree[th]
       k == c.key
   IN
   IF c.op \in {"proc_init", "fini", "thread_init"} THEN "ok"
   ELSE IF phase[th] # "ready" THEN "dies"          \* not initialised, or already finished
   ELSE IF c.op = "has" THEN "ok"
   ELSE IF c.op \in Getters THEN
      LET n == NodeAt(t, k) IN
      IF n[1] = KindOf(c.op) \/ (Variant = "neg_get_type" /\ n[1] \in Scalars) THEN "ok" ELSE "dies"
   ELSE IF c.op = "get_json" THEN (IF k \in DOMAIN t THEN "ok" ELSE "dies")
   ELSE IF c.op \in Setters THEN
      IF c.arg[<<>>][1] = "bad" THEN "dies"                      \* ovni_attr_set_json: text that is not JSON
      ELSE IF c.arg[<<>>] = <<"num", "nan">> THEN "unspec"       \* not said (parson refuses NaN)
      ELSE IF Blocked(t, k) THEN "dies" ELSE "ok"
   ELSE IF c.op = "require" THEN (IF Blocked(t, ReqKey(k[1])) THEN "dies" ELSE "ok")
   ELSE IF c.op = "flush" THEN "ok"
   ELSE IF c.op = "free" THEN (IF Blocked(t, FinKey) THEN "dies" ELSE "ok")
   ELSE "dies"

\* outcome, returned value and next state of the thread
Eval(th, c) ==
   LET t == tree[th]
       d == disk[th]
       k == c.key
       o == Out(th, c)
       Ok(ret) == Res("ok", ret, t, d, phase[th])
   IN
   IF o = "dies" THEN Res("dies", Nil, t, d, "dead")
   ELSE IF o = "unspec" THEN Res("unspec", Nil, t, d, "open")
   ELSE IF c.op = "thread_init" THEN
      LET t1 == ApplyAll(Root, LibInit(th), 1) IN
      Res("ok", Nil, Graft(t1, InitReq[1], InitReq[2]), t1, "ready")
   ELSE IF c.op = "has" THEN Ok(Bool(k \in DOMAIN t))
   ELSE IF c.op \in Getters THEN Ok(S(NodeAt(t, k)))
   ELSE IF c.op = "get_json" THEN Ok(Sub(t, k))
   ELSE IF c.op \in Setters THEN Res("ok", Nil, Graft(t, k, c.arg), d, "ready")
   ELSE IF c.op = "require" THEN Res("ok", Nil, Graft(t, ReqKey(k[1]), c.arg), d, "ready")
   ELSE IF c.op = "flush" THEN
      Res("ok", Nil, t, IF Variant = "neg_lazy_flush" /\ DOMAIN d = DOMAIN t THEN d ELSE t, "ready")
   ELSE IF c.op = "free" THEN
      LET t1 == Graft(t, FinWrite[1], FinWrite[2]) IN Res("ok", Nil, t1, t1, "freed")
   ELSE Ok(Nil)                                                  \* proc_init, fini

Halted == \E th \in Threads : phase[th] \in {"dead", "open"}     \* die() = abort(): the process is gone

\* which calls are made (legal life cycle; Ending / MinDie shape the random walks)
En(th, c) ==
   LET n == Len(hist[th]) IN
   /\ ~Halted
   /\ n < MaxOps
   /\ CASE c.op = "proc_init"   -> th = 1 /\ proc = "none"
        [] c.op = "thread_init" -> proc = "ready" /\ phase[th] = "none"
        [] c.op = "free"        -> phase[th] = "ready" /\ (Ending = "free" => n >= MaxOps - 2) /\ Ending # "die"
        [] c.op = "fini"        -> /\ th = 1 /\ proc = "ready" /\ ~ProcAtStart
                                   /\ \A u \in Threads : phase[u] \in {"none", "freed"}
                                   /\ \E u \in Threads : phase[u] = "freed"
        [] OTHER -> TRUE
   /\ Out(th, c) # "ok" => (NT = 1 /\ (n >= MinDie \/ (Ending = "free" /\ c.op = "free")))
   /\ CASE Ending = "free" -> (n >= MaxOps - 2 /\ phase[th] = "ready") => c.op = "free"
        [] Ending = "die"  -> (n = MaxOps - 1) => Out(th, c) = "dies"
        [] OTHER -> TRUE

Do(th, c) ==
   /\ En(th, c)
   /\ LET e == Eval(th, c) IN
      /\ proc' = (CASE c.op = "proc_init" -> "ready" [] c.op = "fini" -> "gone" [] OTHER -> proc)
      /\ phase' = [phase EXCEPT ![th] = e.phase]
      /\ tree' = [tree EXCEPT ![th] = e.tree]
      /\ disk' = [disk EXCEPT ![th] = e.disk]
      /\ hist' = [hist EXCEPT ![th] = Append(@, [op |-> c.op, key |-> c.key, arg |-> c.arg,
                                                  out |-> e.out, ret |-> e.ret])]

Init == /\ proc = IF ProcAtStart THEN "ready" ELSE "none"
        /\ phase = [th \in Threads |-> "none"]
        /\ tree = [th \in Threads |-> Root]
        /\ disk = [th \in Threads |-> NoFile]
        /\ hist = [th \in Threads |-> <<>>]

Next == \E th \in Threads : \E c \in Calls(th) : Do(th, c)
Spec == Init /\ [][Next]_vars

\* a thread that has nothing left to do (cheap form of "no call is enabled",
\* compared with the definition by TerminalIsStuck in the exhaustive configurations)
Done(th) ==
   \/ Len(hist[th]) >= MaxOps
   \/ /\ phase[th] = "freed" /\ (ProcAtStart \/ proc = "gone")
      /\ (NT > 1 \/ Len(hist[th]) < MinDie \/ Ending = "free")
Terminal == Halted \/ \A th \in Threads : Done(th)

\* random walks (-simulate): a thread that can move, then a class of calls,
\* then a call of that class, each drawn uniformly; three candidates are drawn
\* per class and the enabled ones kept (all calls are scanned only when no
\* candidate is enabled)
Class(c) == IF c.op \in Getters THEN "get"
            ELSE IF c.op \in Setters /\ c.arg[<<>>][1] = "bad" THEN "bad"
            ELSE IF c.op \in Setters /\ c.arg[<<>>][2] = "nan" THEN "nan"
            ELSE IF c.op \in {"set_double", "set_boolean", "set_str"} THEN "set" ELSE c.op
Classes == {"proc_init", "thread_init", "fini", "free", "flush", "require", "has", "get", "get_json", "set", "set_json",
            "bad", "nan"}
ByClass == [th \in Threads |-> [k \in Classes |-> {c \in Calls(th) : Class(c) = k}]]
Draw(th) == UNION {{RandomElement(ByClass[th][k]) : i \in 1..3} : k \in {x \in Classes : ByClass[th][x] # {}}}
Enabled(th) == {c \in Calls(th) : En(th, c)}
NextSim ==
   LET ths == {th \in Threads : ~Done(th)} IN
   /\ ~Terminal
   /\ \E th \in {RandomElement(ths)} :
         \E D \in {Draw(th)} :
            LET some == {c \in D : En(th, c)}
                en == IF some # {} THEN some ELSE Enabled(th)
            IN /\ en # {}
               /\ \E k \in {RandomElement({Class(c) : c \in en})} :
                     \E c \in {RandomElement({x \in en : Class(x) = k})} : Do(th, c)
SpecSim == Init /\ [][NextSim]_vars

View == <<proc, phase, tree, disk>>

-----------------------------------------------------------------------------
(* Declarative layer: what the tree is, from the history of writes alone.
   A write <<k, vt>> covers the paths below k and makes every strict prefix
   of k an object.  The node at p is decided by the last write that covers p
   or lies below p. *)
OpWrites(th, e) ==
   IF e.out # "ok" THEN <<>>
   ELSE IF e.op \in Setters THEN << <<e.key, e.arg>> >>
   ELSE IF e.op = "require" THEN << <<ReqKey(e.key[1]), e.arg>> >>
   ELSE IF e.op = "thread_init" THEN Append(LibInit(th), InitReq)
   ELSE IF e.op = "free" THEN << FinWrite >>
   ELSE <<>>

RECURSIVE WritesOf(_, _, _)
WritesOf(th, h, n) == IF n = 0 THEN <<>> ELSE WritesOf(th, h, n - 1) \o OpWrites(th, h[n])

Max(X) == CHOOSE x \in X : \A y \in X : y <= x
DeclNode(W, p) ==
   LET cov == {i \in 1..Len(W) : IsPrefix(W[i][1], p)}
       bel == {i \in 1..Len(W) : IsPrefix(p, W[i][1]) /\ p # W[i][1]}
       c == IF cov = {} THEN 0 ELSE Max(cov)
       b == IF bel = {} THEN 0 ELSE Max(bel)
   IN IF p = <<>> \/ b > c THEN OBJ
      ELSE IF c = 0 THEN ABSENT
      ELSE LET r == Drop(p, Len(W[c][1])) IN NodeAt(W[c][2], r)

DeclPaths(W) == {<<>>} \cup UNION {StrictPrefixes(W[i][1]) \cup {W[i][1] \o r : r \in DOMAIN W[i][2]} : i \in 1..Len(W)}
DeclTree(W) == LET P == {p \in DeclPaths(W) : DeclNode(W, p) # ABSENT} IN [p \in P |-> DeclNode(W, p)]

\* "get returns the last value set at that path that has not been overwritten
\* or removed by a set on a prefix" (+ has(key) <=> path present, through P_Reads)
TreeIsLastWrites ==
   \A th \in Threads : tree[th] = DeclTree(WritesOf(th, hist[th], Len(hist[th])))

\* the file is the tree as it was at the last store (thread_init before the
\* implicit require, flush, free); no file before ovni_thread_init
Stores(th) == {i \in 1..Len(hist[th]) : hist[th][i].out = "ok" /\ hist[th][i].op \in {"thread_init", "flush", "free"}}
DiskDecl(th) ==
   IF Stores(th) = {} THEN NoFile
   ELSE LET s == Max(Stores(th))
            W == WritesOf(th, hist[th], s)
        IN DeclTree(IF hist[th][s].op = "thread_init" THEN SubSeq(W, 1, Len(W) - 1) ELSE W)
DiskIsSnapshot == \A th \in Threads : disk[th] = DiskDecl(th)

TreesWellFormed == \A th \in Threads : WellFormed(tree[th]) /\ (disk[th] # NoFile => WellFormed(disk[th]))

\* every call of the history that returned a value returned the declared one
\* (checked on the representative history of every state)
ReturnsAreDeclared ==
   \A th \in Threads : \A i \in 1..Len(hist[th]) :
      LET e == hist[th][i]
          T == DeclTree(WritesOf(th, hist[th], i - 1))
      IN (e.out = "ok" /\ e.op \in Readers) =>
            CASE e.op = "has" -> e.ret = Bool(e.key \in DOMAIN T)
              [] e.op = "get_json" -> e.key \in DOMAIN T /\ e.ret = Sub(T, e.key)
              [] OTHER -> e.ret = S(NodeAt(T, e.key)) /\ NodeAt(T, e.key)[1] = KindOf(e.op)

\* a call that does not succeed is the last one of the process
FailureIsLast ==
   \A th \in Threads : \A i \in 1..Len(hist[th]) :
      hist[th][i].out # "ok" => (i = Len(hist[th]) /\ NT = 1)

\* the phase is what the history says
PhaseIsHistory ==
   \A th \in Threads :
      LET h == hist[th]
          ok(op) == \E i \in 1..Len(h) : h[i].op = op /\ h[i].out = "ok"
          bad(o) == \E i \in 1..Len(h) : h[i].out = o
      IN phase[th] = (IF bad("dies") THEN "dead" ELSE IF bad("unspec") THEN "open"
                      ELSE IF ok("free") THEN "freed" ELSE IF ok("thread_init") THEN "ready" ELSE "none")

\* Terminal is "no call is enabled"
TerminalIsStuck == Terminal <=> \A th \in Threads : \A c \in Calls(th) : ~En(th, c)

Inv == /\ TreesWellFormed /\ TreeIsLastWrites /\ DiskIsSnapshot
       /\ ReturnsAreDeclared /\ FailureIsLast /\ PhaseIsHistory

-----------------------------------------------------------------------------
(* Action properties (history-free: the call of the step is the last element
   of hist') *)
Stepped(th) == hist'[th] # hist[th]
Last(th)    == hist'[th][Len(hist'[th])]
OnStep(P(_, _)) == \A th \in Threads : Stepped(th) => P(th, Last(th))

\* a successful set changes exactly: the subtree at the key is the value, the
\* strict prefixes are objects (and were objects or absent), the rest is untouched
SetFrame(th, e) ==
   (e.op \in Setters /\ e.out = "ok") =>
      LET k == e.key  t == tree[th]  u == tree'[th] IN
      /\ \A r \in DOMAIN e.arg : (k \o r) \in DOMAIN u
      /\ \A p \in DOMAIN t \cup DOMAIN u :
            IF IsPrefix(k, p)
            THEN (p \in DOMAIN u) = (Drop(p, Len(k)) \in DOMAIN e.arg)
                 /\ (p \in DOMAIN u => u[p] = e.arg[Drop(p, Len(k))])
            ELSE IF IsPrefix(p, k)
            THEN NodeAt(u, p) = OBJ /\ NodeAt(t, p) \in {OBJ, ABSENT}
            ELSE NodeAt(u, p) = NodeAt(t, p)
P_SetFrame == [][OnStep(SetFrame)]_vars

\* a write through an intermediate that exists and is not an object dies
ScalarMid(th, e) ==
   LET k == CASE e.op \in Setters -> e.key [] e.op = "require" -> ReqKey(e.key[1]) [] e.op = "free" -> FinKey [] OTHER -> <<>> IN
   (phase[th] = "ready" /\ \E p \in StrictPrefixes(k) : NodeAt(tree[th], p) \notin {OBJ, ABSENT}) => e.out = "dies"
P_ScalarMidDies == [][OnStep(ScalarMid)]_vars

\* reads: has(key) <=> path present; a typed get returns the node iff it has
\* that type, dies otherwise; get_json returns the subtree; nothing changes
Reads(th, e) ==
   (e.op \in Readers /\ phase[th] = "ready") =>
      LET n == NodeAt(tree[th], e.key) IN
      /\ e.op = "has" => e.out = "ok" /\ e.ret = Bool(n # ABSENT)
      /\ e.op \in Getters => IF n[1] = KindOf(e.op) THEN e.out = "ok" /\ e.ret = S(n) ELSE e.out = "dies"
      /\ e.op = "get_json" => IF n # ABSENT THEN e.out = "ok" /\ e.ret = Sub(tree[th], e.key) ELSE e.out = "dies"
      /\ tree'[th] = tree[th] /\ disk'[th] = disk[th]
P_Reads == [][OnStep(Reads)]_vars

\* flush writes the tree and changes nothing else; it is idempotent
Flush(th, e) ==
   (e.op = "flush" /\ phase[th] = "ready") =>
      /\ e.out = "ok" /\ tree'[th] = tree[th] /\ disk'[th] = tree[th]
      /\ disk[th] = tree[th] => disk'[th] = disk[th]
P_Flush == [][OnStep(Flush)]_vars

\* the attribute API dies before ovni_thread_init and after ovni_thread_free
NotReady(th, e) == (phase[th] # "ready" /\ e.op \in AttrOps \cup {"require"}) => e.out = "dies"
P_NotReadyDies == [][OnStep(NotReady)]_vars

\* a call that dies leaves the file as it was; once the process is dead nothing happens
DiesKeepsFile(th, e) == e.out # "ok" => (disk'[th] = disk[th] /\ tree'[th] = tree[th] /\ Halted')
P_DiesKeepsFile == [][OnStep(DiesKeepsFile)]_vars
P_DeadIsFinal == [][~Halted]_vars

\* the calls of a thread do not touch the other threads
Isolated(th, e) == \A u \in Threads \ {th} : tree'[u] = tree[u] /\ disk'[u] = disk[u] /\ phase'[u] = phase[u]
P_Isolation == [][OnStep(Isolated)]_vars

-----------------------------------------------------------------------------
(* Export *)
FlatOp(e) == [op |-> e.op, key |-> e.key, arg |-> Flat(e.arg), out |-> e.out, ret |-> Flat(e.ret)]
\* what stream.json of the thread must contain
ExpectedFile(d) == IF d = NoFile THEN [file |-> FALSE, nodes |-> {}] ELSE [file |-> TRUE, nodes |-> Flat(d)]
Line(h, d, ph) ==
   ToJson([nt |-> NT,
           pas |-> ProcAtStart,
           proc |-> Flat(ProcArgs),
           tids |-> [th \in Threads |-> TidTok(th)],
           hist |-> [th \in Threads |-> [i \in 1..Len(h[th]) |-> FlatOp(h[th][i])]],
           phase |-> ph,
           files |-> [th \in Threads |-> ExpectedFile(d[th])]])

\* transition cover (model checking mode): every transition
ExportT == PrintT(<<"TR", Line(hist', disk', phase')>>)

\* one line per finished behaviour (simulation mode)
ExportEnd == (Terminal' /\ ~Terminal) => PrintT(<<"TR", Line(hist', disk', phase')>>)

-----------------------------------------------------------------------------
(* ---- bounded instances ---- *)
Paths1(N) == {<<x>> : x \in N}
Paths2(N) == {<<x, y>> : x \in N, y \in N}
Paths3(N) == {<<x, y, z>> : x \in N, y \in N, z \in N}

ReadCalls(K, ops) == {C(o, k, Nil) : o \in ops, k \in K}
AllReads == Readers
SetOpOf(v) == CASE v[<<>>][1] = "num" -> "set_double" [] v[<<>>][1] = "bool" -> "set_boolean" [] v[<<>>][1] = "str" -> "set_str"
SetCalls(K, V) == {C(SetOpOf(v), k, v) : k \in K, v \in V}
JsonCalls(K, J) == {C("set_json", k, j) : k \in K, j \in J}
Life == {C("proc_init", <<>>, ProcArgs), C("fini", <<>>, Nil), C("free", <<>>, Nil), C("flush", <<>>, Nil)}
TInit(th) == C("thread_init", <<>>, (<<"tid">> :> <<"num", TidTok(th)>>))
LifeNoFlush == Life \ {C("flush", <<>>, Nil)}
Require(m) == C("require", <<m>>, Str("1.0.0"))

\* JSON texts (the harness renders the tree as text)
JEmpty  == Root
JObjB   == Root @@ (<<"b">> :> <<"num", "2">>)
JNested == Root @@ (<<"a">> :> OBJ) @@ (<<"a", "b">> :> <<"str", "y">>) @@ (<<"c">> :> <<"bool", "F">>)
JNull   == S(<<"null", "">>)
JArr    == S(<<"arr", "A1">>)
JBad    == S(<<"bad", "">>)
JMixed  == Root @@ (<<"a">> :> <<"arr", "A2">>) @@ (<<"b">> :> <<"null", "">>)

(* Main (exhaustive): every tree over the names a, b down to depth 2 with a
   number and a string, an empty and a non-empty JSON object at depth 1, and the
   collision with the library's namespace ("ovni" overwritten by a scalar or an
   empty object, a user key inside "ovni"); no flush: the file is the one
   written by ovni_thread_init, then by ovni_thread_free. *)
KMain == Paths1({"a", "b"}) \cup Paths2({"a", "b"})
KOvni == {<<"ovni">>, <<"ovni", "a">>}
CallsMain(th) == LifeNoFlush \cup {TInit(th)}
                 \cup ReadCalls(KMain \cup KOvni, AllReads)
                 \cup SetCalls(KMain \cup {<<"ovni", "a">>}, {Num("1"), Str("x")}) \cup SetCalls({<<"ovni">>}, {Num("1")})
                 \cup JsonCalls(Paths1({"a", "b"}), {JEmpty, JObjB}) \cup JsonCalls({<<"ovni">>}, {JEmpty})
                 \cup JsonCalls({<<"a">>}, {JBad})

(* Main, thorough tier: a boolean too, JSON objects at every key *)
VDeep == {Num("1"), Str("x"), Bool(TRUE)}
CallsDeep(th) == LifeNoFlush \cup {TInit(th)}
                 \cup ReadCalls(KMain \cup KOvni, AllReads)
                 \cup SetCalls(KMain \cup KOvni, VDeep)
                 \cup JsonCalls(KMain \cup {<<"ovni">>}, {JEmpty, JObjB}) \cup JsonCalls({<<"a">>}, {JBad})

(* Flush (exhaustive): a smaller alphabet with flush and require, so that the
   file lags behind the tree: names a, b (b only at depth 1), depth 3 below a.a *)
KFlush == {<<"a">>, <<"b">>, <<"a", "a">>, <<"a", "a", "a">>, <<"ovni">>}
CallsFlush(th) == Life \cup {TInit(th), Require("nosv")}
                  \cup ReadCalls(KFlush, {"has", "get_double", "get_json"})
                  \cup SetCalls(KFlush \ {<<"ovni">>}, {Num("1"), Str("x")}) \cup SetCalls({<<"ovni">>}, {Num("1")})
                  \cup JsonCalls({<<"a">>, <<"ovni">>}, {JEmpty})

(* Cover: transition covers that are replayed on the library.
   CoverA: no flush; names a, b, depth 3 below a.b, a number and a string, a
   boolean at two keys, JSON values, "ovni" overwritten by a boolean.
   CoverF: with flush and require, three keys.
   CoverD (thorough): CoverA with more keys. *)
KCoverA == {<<"a">>, <<"b">>, <<"a", "b">>, <<"b", "a">>, <<"a", "b", "a">>}
CallsCoverA(th) == LifeNoFlush \cup {TInit(th)}
                   \cup ReadCalls(KCoverA \cup {<<"ovni">>}, AllReads)
                   \cup SetCalls(KCoverA, {Num("0.5"), Str("x")}) \cup SetCalls({<<"a">>, <<"ovni">>}, {Bool(FALSE)})
                   \cup JsonCalls({<<"a">>, <<"b", "a">>}, {JObjB}) \cup JsonCalls({<<"a">>}, {JEmpty, JBad})
KCoverF == {<<"a">>, <<"a", "a">>, <<"ovni", "a">>}
CallsCoverF(th) == Life \cup {TInit(th), Require("nosv")}
                   \cup ReadCalls(KCoverF \cup {<<"ovni", "require", "nosv">>}, {"has", "get_str", "get_json"})
                   \cup SetCalls(KCoverF, {Str("y")}) \cup SetCalls({<<"a">>, <<"ovni">>}, {Num("3")})
                   \cup JsonCalls({<<"a">>}, {JEmpty})
KCoverD == KCoverA \cup {<<"a", "a">>}
CallsCoverD(th) == LifeNoFlush \cup {TInit(th)}
                   \cup ReadCalls(KCoverD \cup {<<"ovni">>}, AllReads)
                   \cup SetCalls(KCoverD, {Num("0.5"), Str("x")}) \cup SetCalls({<<"a">>, <<"ovni">>}, {Bool(FALSE)})
                   \cup JsonCalls({<<"a">>, <<"b", "a">>}, {JObjB}) \cup JsonCalls({<<"a">>}, {JEmpty, JBad})

(* MT (exhaustive): two threads, their own values, overlapping keys; nobody dies *)
KMT(th) == IF th = 1 THEN {<<"a">>, <<"b">>} ELSE {<<"b">>, <<"b", "a">>}
VMT(th) == IF th = 1 THEN {Num("1")} ELSE {Num("2"), Str("y")}
CallsMT(th) == {C("free", <<>>, Nil), C("flush", <<>>, Nil), TInit(th)}
               \cup ReadCalls(KMT(th), {"has", "get_json"}) \cup SetCalls(KMT(th), VMT(th))

(* Sim: random walks over a larger alphabet (names a, b, c down to depth 3,
   the library namespace, every kind of JSON value) *)
KSim == Paths1({"a", "b", "c"}) \cup Paths2({"a", "b", "c"}) \cup Paths3({"a", "b"}) \cup {<<"a", "b", "c">>, <<"c", "c", "c">>}
KLib == {<<"ovni">>, <<"ovni", "a">>, <<"ovni", "finished">>, <<"ovni", "require">>, <<"ovni", "part">>,
         <<"ovni", "tid">>, <<"ovni", "require", "nosv">>, <<"version">>, <<"ovni", "lib">>}
VSim == {Num("0"), Num("1"), Num("-2.5"), Num("0.1"), Num("1e300"), Num("123456789012"),
         Str("x"), Str("y"), Str("$empty"), Str("$nasty"), Str("$dots"), Bool(TRUE), Bool(FALSE)}
JSim == {JEmpty, JObjB, JNested, JNull, JArr, JMixed, Num("7"), Str("y"), Bool(TRUE)}
CallsSim(th) == Life \cup {TInit(th), Require("nosv"), Require("ab")}
                \cup ReadCalls(KSim \cup KLib, AllReads)
                \cup SetCalls(KSim \cup {<<"ovni">>, <<"ovni", "a">>, <<"ovni", "finished">>, <<"ovni", "require">>, <<"version">>}, VSim)
                \cup JsonCalls(KSim \cup {<<"ovni">>, <<"ovni", "a">>}, JSim)
                \cup JsonCalls({<<"a">>, <<"a", "b">>}, {JBad}) \cup SetCalls({<<"a">>, <<"a", "b">>}, {Num("nan")})

(* SimMT: threads with their own values over overlapping keys, long walks *)
KSimMT(th) == Paths1({"a", "b", "c"}) \cup Paths2({"a", "b"}) \cup {<<"a", "b", "c">>, <<"ovni", "a">>}
VSimMT(th) == {Num(ToString(th)), Num(ToString(10 + th)), Str("t" \o ToString(th)), Str("u" \o ToString(th)), Bool(th % 2 = 0)}
JSimMT(th) == {JEmpty, Root @@ (<<"b">> :> <<"num", ToString(20 + th)>>),
               Root @@ (<<"a">> :> OBJ) @@ (<<"a", "b">> :> <<"str", "v" \o ToString(th)>>)}
CallsSimMT(th) == {C("free", <<>>, Nil), C("flush", <<>>, Nil), TInit(th)}
                  \cup ReadCalls(KSimMT(th), AllReads) \cup SetCalls(KSimMT(th), VSimMT(th))
                  \cup JsonCalls(KSimMT(th), JSimMT(th))

\* parameters of the walks come from the environment
EnvMaxOps == IF "RTATTR_MAXOPS" \in DOMAIN IOEnv THEN atoi(IOEnv.RTATTR_MAXOPS) ELSE 12
EnvMinDie == IF "RTATTR_MINDIE" \in DOMAIN IOEnv THEN atoi(IOEnv.RTATTR_MINDIE) ELSE 12
EnvTail   == IF "RTATTR_TAIL" \in DOMAIN IOEnv THEN IOEnv.RTATTR_TAIL ELSE "free"
EnvNT     == IF "RTATTR_NT" \in DOMAIN IOEnv THEN atoi(IOEnv.RTATTR_NT) ELSE 2

\* invariants at the end of a walk only (they read the whole history)
SimInv == Terminal => (TreesWellFormed /\ TreeIsLastWrites /\ DiskIsSnapshot /\ FailureIsLast /\ PhaseIsHistory)
=============================================================================
