SPECIFICATION SpecFault
CONSTANTS
  JsonLast = TRUE
  CheckCopy = TRUE
  Small = TRUE
INVARIANTS C10a2 C10b2 C10c2 C09b2
CHECK_DEADLOCK FALSE
