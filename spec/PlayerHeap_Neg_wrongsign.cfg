SPECIFICATION HSpec
CONSTANTS
  NS = 3
  MaxEv = 3
  Clocks = {0,1,2,3}
  Offsets <- OffsetsStd
  NL = 2
  Base = 2
  PVariant = "wrongsign"
  MPick = "min"
  HVariant = "ok"
INVARIANTS HeapStructure HeapHoldsPending RefinesMerge HNonDecreasing HPerStreamOrder HNoDuplicate HCorrectedClock HOutputTime HNoError HExactlyOnce HTerminates
CHECK_DEADLOCK FALSE
