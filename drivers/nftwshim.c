/* C03: LD_PRELOAD shim that makes the file system enumerate directory
 * entries in another order.  trace_load (src/emu/trace.c) finds the streams
 * with nftw(3); glibc's nftw reads the directories internally, so nftw itself
 * is interposed by a plain pre-order walk that visits the entries of every
 * directory in the order selected by VERIF_NFTW_ORDER:
 *    "rev"        reverse alphabetical
 *    "seed:<n>"   pseudo-random permutation of the alphabetical order
 *    anything else / unset: alphabetical
 * Only what trace.c uses is provided: the callback receives the path, the
 * stat buffer, FTW_F for regular files and FTW_D for directories. */
#define _GNU_SOURCE
#include <dirent.h>
#include <ftw.h>
#include <limits.h>
#include <stdio.h>
#include <stdlib.h>
#include <string.h>
#include <sys/stat.h>

typedef int (*cb_t)(const char *, const struct stat *, int, struct FTW *);

static unsigned long long rng;

static unsigned
next_rand(void)
{
	rng = rng * 6364136223846793005ULL + 1442695040888963407ULL;
	return (unsigned) (rng >> 33);
}

static int
cmp_name(const void *a, const void *b)
{
	return strcmp(*(char *const *) a, *(char *const *) b);
}

static int walk_flags = 0;

static int
walk(const char *path, cb_t fn, int level)
{
	struct stat st;
	/* like nftw(): symbolic links are followed unless FTW_PHYS was given */
	if (walk_flags & FTW_PHYS) {
		if (lstat(path, &st) != 0)
			return 0;
	} else if (stat(path, &st) != 0) {
		if (lstat(path, &st) != 0)
			return 0;
	}

	struct FTW ftw = { .base = 0, .level = level };
	const char *slash = strrchr(path, '/');
	ftw.base = slash ? (int) (slash - path) + 1 : 0;

	if (!S_ISDIR(st.st_mode))
		return fn(path, &st, FTW_F, &ftw);

	int ret = fn(path, &st, FTW_D, &ftw);
	if (ret != 0)
		return ret;

	DIR *d = opendir(path);
	if (d == NULL)
		return 0;

	char **names = NULL;
	int n = 0;
	struct dirent *de;
	while ((de = readdir(d)) != NULL) {
		if (strcmp(de->d_name, ".") == 0 || strcmp(de->d_name, "..") == 0)
			continue;
		names = realloc(names, sizeof(char *) * (size_t) (n + 1));
		names[n++] = strdup(de->d_name);
	}
	closedir(d);

	qsort(names, (size_t) n, sizeof(char *), cmp_name);

	const char *order = getenv("VERIF_NFTW_ORDER");
	if (order && strcmp(order, "rev") == 0) {
		for (int i = 0; i < n / 2; i++) {
			char *t = names[i];
			names[i] = names[n - 1 - i];
			names[n - 1 - i] = t;
		}
	} else if (order && strncmp(order, "seed:", 5) == 0) {
		for (int i = n - 1; i > 0; i--) {
			int j = (int) (next_rand() % (unsigned) (i + 1));
			char *t = names[i];
			names[i] = names[j];
			names[j] = t;
		}
	}

	for (int i = 0; i < n && ret == 0; i++) {
		char sub[PATH_MAX];
		if (snprintf(sub, sizeof(sub), "%s/%s", path, names[i]) < (int) sizeof(sub))
			ret = walk(sub, fn, level + 1);
	}

	for (int i = 0; i < n; i++)
		free(names[i]);
	free(names);

	return ret;
}

static int
do_nftw(const char *path, cb_t fn, int flags)
{
	walk_flags = flags;
	const char *order = getenv("VERIF_NFTW_ORDER");
	rng = 88172645463325252ULL;
	if (order && strncmp(order, "seed:", 5) == 0)
		rng ^= strtoull(order + 5, NULL, 10) * 0x9E3779B97F4A7C15ULL;
	const char *mark = getenv("VERIF_NFTW_MARK");
	if (mark) {
		FILE *f = fopen(mark, "a");
		if (f) {
			fprintf(f, "%s\n", order ? order : "");
			fclose(f);
		}
	}
	return walk(path, fn, 0);
}

int
nftw(const char *path, cb_t fn, int nopenfd, int flags)
{
	(void) nopenfd;
	return do_nftw(path, fn, flags);
}

int
nftw64(const char *path, int (*fn)(const char *, const struct stat64 *, int, struct FTW *),
		int nopenfd, int flags)
{
	(void) nopenfd;
	/* struct stat and struct stat64 are the same on LP64 */
	return do_nftw(path, (cb_t) fn, flags);
}
