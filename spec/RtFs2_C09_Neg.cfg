SPECIFICATION SpecCrash
CONSTANTS
  JsonLast = FALSE
  CheckCopy = TRUE
  Small = TRUE
INVARIANTS C09a2 C09b2
CHECK_DEADLOCK FALSE
