SPECIFICATION Spec
CONSTANTS
  Threads = {1, 2, 3}
  Programs <- Progs
  AtomicCas = FALSE
INVARIANTS InitOnce FiniOnce RecordStableWhileRead NoOpBeforeReady Isolation
PROPERTY StMonotone
CHECK_DEADLOCK FALSE
