SPECIFICATION XSpec
CONSTANTS
  NS = 3
  MaxEv = 2
  Clocks = {0,1,2}
  Offsets <- OffsetsStd
  NL = 2
  Base = 2
  PVariant = "ok"
  MPick = "min"
  HVariant = "ok"
INVARIANTS XRefinesMerge IndependentOfEnumeration
CHECK_DEADLOCK FALSE
