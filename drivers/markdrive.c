/* markdrive: rtdrive restricted to what the mark programs of C17 need, with
 * string arguments that may be empty or NULL (rtdrive reads titles with
 * sscanf("%[^\n]"), which cannot produce an empty string).
 *
 * usage: markdrive <script> <log>
 *
 * Script lines (one op each, '#' comments):
 *   proc_init <app> <loom> <pid>
 *   thread_init <tid>
 *   cpu <index> <phyid>
 *   emitraw <mcv> <hexpayload|->       clock = ovni_clock_now()
 *   flush | free | fini
 *   mark_type <type> <flags> <title>   title/label: the rest of the line;
 *   mark_label <type> <value> <label>  the token "" is the empty string, NULL is NULL
 *   mark_push|mark_pop|mark_set <type> <value>
 *
 * Log (same as rtdrive): {"i":n,"op":".."} after each call that returned; a
 * die() inside the library calls abort(), interposed here: the log gets
 * {"i":n,"op":..,"aborted":true} and the process exits with status 3.
 */
#include <inttypes.h>
#include <stdint.h>
#include <stdio.h>
#include <stdlib.h>
#include <string.h>
#include <unistd.h>

#include "ovni.h"

static FILE *logf;
static int cur_i = -1;
static char cur_op[64];

void abort(void)
{
	if (logf) {
		fprintf(logf, "{\"i\":%d,\"op\":\"%s\",\"aborted\":true}\n", cur_i, cur_op);
		fflush(logf);
	}
	_exit(3);
}

static int hexval(int c)
{
	if (c >= '0' && c <= '9') return c - '0';
	if (c >= 'a' && c <= 'f') return c - 'a' + 10;
	if (c >= 'A' && c <= 'F') return c - 'A' + 10;
	return -1;
}

/* string argument starting at s */
static const char *strarg(char *s)
{
	while (*s == ' ') s++;
	if (!strcmp(s, "NULL"))
		return NULL;
	if (!strcmp(s, "\"\""))
		return "";
	return s;
}

int main(int argc, char *argv[])
{
	if (argc < 3) {
		fprintf(stderr, "usage: markdrive script log\n");
		return 2;
	}
	FILE *f = fopen(argv[1], "r");
	logf = fopen(argv[2], "w");
	if (!f || !logf) {
		perror("open");
		return 2;
	}
	char *line = NULL;
	size_t cap = 0;
	char loom[512];
	int n = 0;
	while (getline(&line, &cap, f) > 0) {
		char *nl = strchr(line, '\n');
		if (nl) *nl = 0;
		if (line[0] == 0 || line[0] == '#')
			continue;
		char op[64] = "";
		int off = 0;
		sscanf(line, "%63s%n", op, &off);
		char *rest = line + off;
		while (*rest == ' ') rest++;
		cur_i = n;
		snprintf(cur_op, sizeof(cur_op), "%s", op);
		if (!strcmp(op, "proc_init")) {
			int app, pid;
			sscanf(rest, "%d %511s %d", &app, loom, &pid);
			ovni_proc_init(app, loom, pid);
		} else if (!strcmp(op, "thread_init")) {
			int tid;
			sscanf(rest, "%d", &tid);
			ovni_thread_init(tid);
		} else if (!strcmp(op, "cpu")) {
			int a, b;
			sscanf(rest, "%d %d", &a, &b);
			ovni_add_cpu(a, b);
		} else if (!strcmp(op, "emitraw")) {
			char mcv[8], hex[64] = "";
			sscanf(rest, "%7s %63s", mcv, hex);
			struct ovni_ev ev = {0};
			ovni_ev_set_clock(&ev, ovni_clock_now());
			ovni_ev_set_mcv(&ev, mcv);
			uint8_t p[32];
			int ps = 0;
			for (size_t i = 0; hex[i] && hex[i + 1] && hex[0] != '-'; i += 2)
				p[ps++] = (uint8_t) (hexval(hex[i]) * 16 + hexval(hex[i + 1]));
			if (ps > 0)
				ovni_payload_add(&ev, p, ps);
			ovni_ev_emit(&ev);
		} else if (!strcmp(op, "flush")) {
			ovni_flush();
		} else if (!strcmp(op, "mark_type")) {
			int t, k = 0;
			long fl;
			sscanf(rest, "%d %ld%n", &t, &fl, &k);
			ovni_mark_type(t, fl, strarg(rest + k));
		} else if (!strcmp(op, "mark_label")) {
			int t, k = 0;
			long long v;
			sscanf(rest, "%d %lld%n", &t, &v, &k);
			ovni_mark_label(t, v, strarg(rest + k));
		} else if (!strcmp(op, "mark_push") || !strcmp(op, "mark_pop") || !strcmp(op, "mark_set")) {
			int t;
			long long v;
			sscanf(rest, "%d %lld", &t, &v);
			if (op[5] == 'p' && op[6] == 'u')
				ovni_mark_push(t, v);
			else if (op[5] == 'p')
				ovni_mark_pop(t, v);
			else
				ovni_mark_set(t, v);
		} else if (!strcmp(op, "free")) {
			ovni_thread_free();
		} else if (!strcmp(op, "fini")) {
			ovni_proc_fini();
		} else {
			fprintf(stderr, "markdrive: unknown op '%s'\n", op);
			return 2;
		}
		fprintf(logf, "{\"i\":%d,\"op\":\"%s\"}\n", n, op);
		fflush(logf);
		n++;
	}
	fclose(logf);
	return 0;
}
