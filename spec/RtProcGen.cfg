SPECIFICATION GSpec
CONSTANTS
  Threads = {1, 2, 3}
  Programs <- Progs
  AtomicCas = TRUE
CONSTRAINT Export
CHECK_DEADLOCK FALSE
