"""ChanPrv family: stack channels (chan.c), the Paraver writer (pv/prv.c) and the
thread/CPU tracking wiring (track.c) - spec/ChanPrv.tla.

Sibling of emu_models.bay_layer (Bay.tla covers one multiplexer over single
channels).  Here the specification is written call by call like the C code
(chan_set/push/pop/flush, bay_propagate with its dirty, emit and flush phases,
prv_register/emit/prv_advance/prv_close, the track muxes); TLC

  * checks the property layer exhaustively on small constants (Filter,
    TimesSorted, StackDiscipline, TrackView, HeaderIsLastAdvance and the step
    properties of ChanPrv.tla),
  * must refute seven deliberately wrong variants (negative configurations),
  * exports complete call sequences together with the outcome of every call
    (0 / -1), the channel contents after every call, and the expected .prv file
    (header duration and body lines); a fill-to-the-limit family runs with the
    real MAX_CHAN_STACK.

The exported sequences are replayed in process on the real struct chan / bay /
prv / track by drivers/chanprvharness.c and its answers are compared with what
TLC said.  This module only encodes inputs and compares strings: every
expected value comes from TLC.

    run(ck, tier, bdir)   adds TLC runs, cases, violations, notes to a core.Check
    main(pid, tier)       standalone development wrapper (not registered)
"""
import json
import os
import shutil
import subprocess
from concurrent.futures import ThreadPoolExecutor

from vlib import core

MODULE = "ChanPrv"
NULL = -9                      # Null of ChanPrv.tla
ALLTR = ("any", "run", "act", "cpu")

# (cfg, expected violated property names): a negative configuration must be refuted by one of them
NEGATIVES = [
    ("ChanPrv_NegSkipdupChanLast.cfg", ("Filter", "StepProps")),
    ("ChanPrv_NegPopNoCheck.cfg", ("StepProps",)),
    ("ChanPrv_NegNextNull.cfg", ("Filter", "StepProps")),
    ("ChanPrv_NegAdvanceBack.cfg", ("TimesSorted", "StepProps")),
    ("ChanPrv_NegLimitOff.cfg", ("TypeOK",)),
    ("ChanPrv_NegHeaderStale.cfg", ("HeaderIsLastAdvance", "LogHeader")),
    ("ChanPrv_NegTrackSwap.cfg", ("TrackView",)),
]

# exhaustive checking (VIEW) / history invariants (no VIEW)
CHECKS = {
    "quick": [("ChanPrv_Quick.cfg", "chan+prv, 3 events x 2 calls, 22 setups", 6),
              ("ChanPrv_TrackQuick.cfg", "track any/run/act + cpu mux, 3 x 2", 2)],
    "thorough": [("ChanPrv.cfg", "chan+prv, 4 events x 3 calls, 72 setups", 8),
                 ("ChanPrv_Track.cfg", "track any/run/act + cpu mux, 4 x 3", 4),
                 ("ChanPrv_Hist.cfg", "full histories (Filter, LogHeader), 2 x 2", 4)],
}
# exports: (cfg, what, workers, simulate, depth)
EXPORTS = {
    "quick": [("ChanPrv_ExportQuick.cfg", "chan.c and prv.c families", 3, None, None),
              ("ChanPrv_ExportTrackQuick.cfg", "track.c families", 2, None, None),
              ("ChanPrv_ExportLimit.cfg", "stack filled to MAX_CHAN_STACK", 1, None, None),
              ("ChanPrv_Sim.cfg", "random walks, all props x all flags", 2, 100, 80),
              ("ChanPrv_SimTrack.cfg", "random walks with tracks", 2, 60, 80)],
    "thorough": [("ChanPrv_Export.cfg", "chan.c and prv.c families", 6, None, None),
                 ("ChanPrv_ExportTrack.cfg", "track.c families", 6, None, None),
                 ("ChanPrv_ExportLimit.cfg", "stack filled to MAX_CHAN_STACK", 1, None, None),
                 ("ChanPrv_Sim.cfg", "random walks, all props x all flags", 4, 4000, 80),
                 ("ChanPrv_SimTrack.cfg", "random walks with tracks", 4, 3000, 80)],
}


# --------------------------------------------------------------------------
# encoding (no semantics: TLC's JSON <-> the harness's text)

def _v(x):
    return "n" if x == NULL else str(x)


def _rc(ok):
    return "0" if ok else "-1"


def _obs(o):
    return "%s=%s,%s,%d,%d" % (o[0], _v(o[1]), _v(o[2]), o[3], o[4])


_OPS = {"set": "s", "push": "u", "pop": "o"}


def encode(case):
    """-> (input line for chanprvharness, the answer line TLC expects)"""
    tr = "".join({"any": "a", "run": "r", "act": "c", "cpu": "u"}[t] for t in ALLTR if t in case["tracks"]) or "-"
    pr = case["props"]
    head = "%s %s %s %d |" % (tr, "".join("1" if b else "0" for b in pr["st"]),
                              "".join("1" if b else "0" for b in pr["sg"]), case["nrows"])
    toks, want = [], []
    for c in case["calls"]:
        op = c[0]
        if op == "R":
            toks.append("R:%s:%d:%d:%d" % (c[1], c[2], c[3], c[4]))
            want.append("R" + _rc(c[5]))
        elif op in _OPS:
            toks.append("%s:%s:%s" % (_OPS[op], c[1], _v(c[2])))
            want.append("%s[%s]" % (_rc(c[3]), ";".join(_obs(o) for o in c[4])))
        elif op == "flush":
            toks.append("f:%s" % c[1])
            want.append("%s[%s]" % (_rc(c[3]), ";".join(_obs(o) for o in c[4])))
        elif op == "P":
            toks.append("P")
            want.append("%s[%s]" % (_rc(c[3]), ";".join(_obs(o) for o in c[4])))
        elif op == "A":
            toks.append("A:%d" % c[1])
            want.append("A" + _rc(c[2]))
        elif op == "C":
            toks.append("C")
            want.append("C0")
        else:
            raise core.MachineryError("unknown call in the export: %r" % (c,))
    exp = " ".join(want) + " | H %d %d |" % (case["header"], case["nrows"]) + \
          "".join(" %d:%d:%d:%d" % tuple(l) for l in case["lines"])
    return head + " " + " ".join(toks), exp


def _classify(case, got, want):
    """signature and a short description of the first disagreement"""
    if got.startswith("CRASH"):
        return "chanprv:crash", "the code died (%s)" % got
    if got.startswith("SETUP"):
        return "chanprv:setup", "the code refused a wiring call the model takes for granted (%s)" % got
    g, w = [x.strip() for x in got.split("|")], [x.strip() for x in want.split("|")]
    if len(g) != 3:
        return "chanprv:output", "unparseable answer"
    ga, wa = g[0].split(" "), w[0].split(" ")
    for k, (a, b) in enumerate(zip(ga, wa)):
        if a != b:
            c = case["calls"][k]
            what = "call %d %s: the code answered %s, the model says %s" % (k + 1, json.dumps(c[:3]), a, b)
            kind = "outcome" if a.split("[")[0].lstrip("RAC") != b.split("[")[0].lstrip("RAC") else "contents"
            return "chanprv:%s:%s" % (c[0], kind), what
    if len(ga) != len(wa):
        return "chanprv:output", "%d answers for %d calls" % (len(ga), len(wa))
    if g[1] != w[1]:
        return "chanprv:header", "header of the file: the code wrote '%s', the model says '%s'" % (g[1], w[1])
    return "chanprv:lines", "body of the file: the code wrote [%s], the model says [%s]" % (g[2], w[2])


def _replay_chunk(args):
    drv, path = args
    p = subprocess.run([drv, path], stdout=subprocess.PIPE, stderr=subprocess.PIPE, text=True, timeout=1800)
    return p.returncode, p.stdout.splitlines(), p.stderr[-2000:]


def replay(ck, bdir, cases, label):
    """runs the exported cases on the real code and compares; returns the number of agreeing cases"""
    drv = core.cc_driver(bdir, "chanprvharness.c", emu=True)
    enc = [encode(c) for c in cases]
    d = core.mkscratch("chanprv")
    try:
        n = max(1, min(core.NCPU, len(enc) // 200))
        chunks = [list(range(i, len(enc), n)) for i in range(n)]
        jobs = []
        for i, idx in enumerate(chunks):
            path = os.path.join(d, "in%d" % i)
            with open(path, "w") as f:
                f.write("".join(enc[j][0] + "\n" for j in idx))
            jobs.append((drv, path))
        res = core.pmap(_replay_chunk, jobs, threads=True)
    finally:
        shutil.rmtree(d, ignore_errors=True)
    agree = 0
    for idx, (rc, outs, errtxt) in zip(chunks, res):
        if rc != 0 or len(outs) != len(idx):
            raise core.MachineryError("chanprvharness failed (rc=%s, %d of %d answers) on %s: %s"
                                      % (rc, len(outs), len(idx), label, errtxt))
        for j, got in zip(idx, outs):
            case = cases[j]
            want = enc[j][1]
            ck.case("chanprv:" + enc[j][0], nontrivial=len(case["calls"]) >= 4)
            if got.startswith("BAD"):
                raise core.MachineryError("chanprvharness could not set up a sequence (%s): %s" % (got, enc[j][0]))
            if got == want:
                agree += 1
                continue
            sig, what = _classify(case, got, want)
            ck.violation("real chan/bay/prv/track disagree with ChanPrv.tla (%s): %s\n"
                         "sequence (tracks props nrows | calls): %s\ncode : %s\nmodel: %s"
                         % (label, what, enc[j][0], got, want),
                         {"case.json": case, "input.txt": enc[j][0] + "\n", "got.txt": got + "\n",
                          "want.txt": want + "\n"}, sig=sig)
    return agree


# --------------------------------------------------------------------------

def run(ck, tier, bdir):
    tier = "thorough" if tier == "thorough" else "quick"
    jobs = []
    for cfg, what, w in CHECKS[tier]:
        jobs.append(("check", cfg, what, dict(workers=w, timeout=7200)))
    for cfg, names in NEGATIVES:
        jobs.append(("neg", cfg, names, dict(workers=1, timeout=900)))
    for cfg, what, w, sim, depth in EXPORTS[tier]:
        kw = dict(workers=w, timeout=7200)
        if sim:
            kw.update(simulate=sim, depth=depth, seed_=core.seed())
        jobs.append(("export", cfg, what, kw))

    def one(j):
        return core.tlc(MODULE, j[1], **j[3])

    with ThreadPoolExecutor(max_workers=len(jobs)) as ex:
        results = list(ex.map(one, jobs))

    exports = []
    for (kind, cfg, what, kw), r in zip(jobs, results):
        if kind == "neg":
            ck.add_tlc(r, "ChanPrv/%s (must fail)" % cfg)
            if not r.violated:
                raise core.MachineryError("negative configuration %s is no longer refuted\n%s" % (cfg, r.out[-1500:]))
            if not any(n in r.violated for n in what):
                raise core.MachineryError("negative configuration %s fails on %r, expected one of %r"
                                          % (cfg, r.violated, what))
            continue
        core.tlc_expect_ok(r, "ChanPrv/" + cfg)
        ck.add_tlc(r, "ChanPrv/%s (%s)" % (cfg, what))
        if r.violated:
            ck.violation("ChanPrv model (chan.c/prv.c/track.c as written) violates %s in %s" % (r.violated, cfg),
                         {"tlc.out": r.out[-20000:]}, sig="chanprv:model")
        if kind == "check" and r.states == 0:
            raise core.MachineryError("ChanPrv/%s explored nothing" % cfg)
        if kind == "export":
            cases = [o for tg, o in r.lines if tg == "TR" and isinstance(o, dict)]
            if not cases:
                raise core.MachineryError("ChanPrv export %s is empty\n%s" % (cfg, r.out[-1500:]))
            exports.append((cfg, cases))
    ck.phase("chanprv_tlc")

    note = {}
    total = agree = 0
    seen = set()
    for cfg, cases in exports:
        uniq = []
        for c in cases:                 # simulation prints a sequence once per candidate successor
            k = json.dumps(c, sort_keys=True)
            if k not in seen:
                seen.add(k)
                uniq.append(c)
        a = replay(ck, bdir, uniq, cfg) if uniq else 0
        note[cfg] = {"sequences": len(uniq), "agree": a,
                     "calls": sum(len(c["calls"]) for c in uniq),
                     "failed_propagates": sum(1 for c in uniq if c["failed"]),
                     "lines": sum(len(c["lines"]) for c in uniq)}
        total += len(uniq)
        agree += a
    if total == 0:
        raise core.MachineryError("ChanPrv: nothing to replay")
    ck.cov["traces_validated_against_impl"] += agree
    ck.notes["chanprv"] = {"sequences_replayed_on_real_code": total, "agree": agree, "per_export": note}
    ck.phase("chanprv_replay")
    ck.assumptions += [
        "ChanPrv: a direct chan_flush of a channel that is on the bay's dirty list, prv_register after the first "
        "channel write, rows >= nrows and writes to a mux output from outside are caller errors and not modelled",
        "ChanPrv: after a failed bay_propagate only prv_close is exercised (the emulator exits)",
    ]
    return agree, total


def main(pid="CHANPRV", tier="quick"):
    ck = core.Check(pid, "model_checking", tier)
    bdir = core.build("hooks")
    run(ck, tier, bdir)
    return ck.finish(rule="every call sequence exported by TLC from ChanPrv.tla (exhaustive small families, the "
                          "fill-to-limit family, random walks) replayed on the real chan/bay/prv/track: per-call "
                          "outcome, channel contents and the .prv file must be what TLC says; 7 negative "
                          "configurations must be refuted")
