----------------------------- MODULE Breakdown -----------------------------
(* C20: the breakdown view of the task-based models (ovniemu -b;
   src/emu/nosv/breakdown.c, src/emu/nanos6/breakdown.c) on top of the
   reference semantics of the emulator (EmuFull).

   Property layer.  Every physical CPU has a breakdown value, a function of
   the channels of the thread running on it:

       tri = IF idle # Progressing THEN idle
             ELSE IF ss = TaskBody /\ tasktype # null THEN tasktype
             ELSE IF ss # null THEN ss ELSE UnknownSS

   and the rows of the breakdown trace are the sorted multiset of the
   per-CPU values (one row per physical CPU).

   Left open by the property (Unspecified, either outcome accepted):
     * a CPU without a (single) running thread is "not progressing": it
       contributes its idle state, which C06 allows to be empty (0) or the
       idle default of the quantity (Resting);
     * the task/subsystem selection of the code is a mux (mux.c) that is
       re-evaluated only when the CPU's subsystem channel is written, so a
       task type that appears or disappears while the subsystem stays
       TaskBody (task pause/resume without a subsystem change) leaves the
       previous selection in place.  With AllowStale the value of that
       stale selection is accepted next to the value of the formula; the
       harness reports how often it is needed (see breakdown.py).

   Task type values are opaque tokens: sys.gids[k] is the value the
   emulator uses for the type labelled "T<k>".                            *)
EXTENDS EmuFull, SortOps

VARIABLE sel    \* [cpu -> "unset" | "none" | "ss" | "tt"]: input selected by the CPU's task/subsystem mux

bdVars == <<allVars, sel>>

Progressing == 100
Resting     == 101      \* idle default of a CPU (cpudef of the idle channel)
UnknownSS   == 2        \* ST_UNKNOWN_SS, default output of the task/subsystem mux

BM == IF "V" \in sys.models THEN "V" ELSE "6"      \* the model whose breakdown is observed
BTaskBody == TaskBodyValue(BM)
SSK == K(BM, "subsystem")
TTK == K(BM, "task_type")
IDK == K(BM, "idle")

Gid(k) == IF k \in 1..Len(sys.gids) THEN sys.gids[k] ELSE k     \* unknown labels stay as they are

PhysCpus == {c \in Cpus : ~sys.cpus[c].virt}

\* the single running thread of a CPU, 0 if there is none
Run(c) == IF NRun(c, thState, thCpu) = 1 THEN TheRunning(c) ELSE 0

ThSS(t)   == Top(ch[t][SSK])
ThTT(t)   == LET k == Top(ch[t][TTK]) IN IF k = 0 THEN 0 ELSE Gid(k)
ThIdle(t) == Top(ch[t][IDK])

-----------------------------------------------------------------------------
(* the breakdown value *)
PureTr(ss, tt) == IF ss = BTaskBody /\ tt # 0 THEN tt
                  ELSE IF ss # 0 THEN ss ELSE UnknownSS
Tri(idle, tr)  == IF idle # Progressing THEN idle ELSE tr

\* what the mux shows for a remembered selection
MuxTr(s, ss, tt) == CASE s = "tt" -> tt
                      [] s = "ss" -> ss
                      [] s = "none" -> UnknownSS
                      [] OTHER -> 0
SelOf(ss, tt) == IF ss = BTaskBody /\ tt # 0 THEN "tt"
                 ELSE IF ss # 0 THEN "ss" ELSE "none"

PureVal(c) == LET t == Run(c) IN Tri(ThIdle(t), PureTr(ThSS(t), ThTT(t)))
MuxVal(c)  == LET t == Run(c) IN Tri(ThIdle(t), MuxTr(sel[c], ThSS(t), ThTT(t)))

\* property layer: the values a physical CPU may contribute
Cand(c, stale) ==
   IF Run(c) = 0 THEN {0, Resting}
   ELSE {PureVal(c)} \cup (IF stale THEN {MuxVal(c)} ELSE {})

\* implementation layer: the value the code computes (mux with memory; the
\* CPU idle channel is NULL until the CPU's running thread changes once)
ImplVal(c) ==
   IF Run(c) = 0 THEN (IF sel[c] = "unset" THEN 0 ELSE Resting)
   ELSE MuxVal(c)

\* rows are a sorted arrangement of one candidate per physical CPU
Choices(C(_)) ==
   LET P == PhysCpus
       U == UNION {C(c) : c \in P}
   IN  {f \in [P -> U] : \A c \in P : f[c] \in C(c)}
RowsOf(f) == SortAsc(SeqOfFun(f, PhysCpus))

-----------------------------------------------------------------------------
(* mux selection memory.  The CPU's subsystem channel is written (and the
   selection re-evaluated from the values after the event) when
     - the CPU's running thread changes (the tracking muxes of the CPU are
       re-selected: cpu.c cpu_update, track.c), or
     - the running thread pushes/pops its subsystem stack (incl. the
       TaskBody push/pop of task execute/end).                            *)
SSWrite(e) ==
   \/ e.m \in TableEvents /\ EvInfo[e.m].k = SSK /\ EvInfo[e.m].act \in {"push", "pop"}
   \/ e.m \in {"VTx", "VTe", "6Tx", "6Te"} /\ e.mc = BM

CurSel(c) == IF Run(c) = 0 THEN "none" ELSE SelOf(ThSS(Run(c)), ThTT(Run(c)))

SelStep(e) ==
   IF failed \/ unspec \/ failed' \/ unspec' THEN sel' = sel
   ELSE sel' = [c \in DOMAIN sel |->
                  IF Run(c) # Run(c)' \/ (Run(c) = e.th /\ SSWrite(e))
                  THEN CurSel(c)' ELSE sel[c]]

InitSel(s) == sel = [c \in 1..Len(s.cpus) |-> "unset"]
ResetSel(s) == sel' = [c \in 1..Len(s.cpus) |-> "unset"]

\* Impl => Property for the per-CPU value (checked by TLC on the bounded model)
ImplValuesAllowed(stale) == ~failed => \A c \in PhysCpus : ImplVal(c) \in Cand(c, stale)
=============================================================================
