SPECIFICATION Spec
CONSTANTS
  StackMax = 512
  NRows = 2
  Variant = "code"
  Tracks = {}
  Record = TRUE
  Setups <- SetupsLimit
INVARIANTS TypeOK StackDiscipline
ACTION_CONSTRAINT Export
CHECK_DEADLOCK FALSE
