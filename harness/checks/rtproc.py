"""C11 (concurrent threads isolated; process init/fini exactly once) - RtProc.

Design: TLC explores every interleaving of 3 threads running any of 7
programs (343 program assignments) at the granularity of the library's
linearization points, with InitOnce, FiniOnce, RecordStableWhileRead,
NoOpBeforeReady, Isolation and StMonotone; a non-atomic "CAS" is the
negative configuration that must be refuted.

Binding (A): TLC -simulate behaviours are replayed step by step on the real
library by drivers/mtdrive (threads are held at the hook points
ovni_verif_point 1-4 and before every API call, so the interleaving is the
model's); every step's outcome (hook reached / returned / refused with
which diagnostic) and the streams found on disk are validated by
RtProcTrace.  (B): the same plans run free (no gates, barrier start) under
the ThreadSanitizer build: no data race report, and the per-thread streams
must hold exactly each thread's own events.
"""
import json
import os
import random
import re
import shutil
import struct

from vlib import core, obs, tv

CLASSES = [(r"already being initialized", "being-initialized"),
           (r"already initialized", "already-initialized"),
           (r"has finished, cannot init again", "XX"),
           (r"process not ready", "process-not-ready"),
           (r"thread already finished", "thread-finished"),
           (r"thread \d+ has finished", "thread-finished"),
           (r"thread is not initialized|thread not initialized|thread not yet initialized", "thread-not-initialized")]


def classify(msg, op):
    if re.search(r"pid \d+ has finished, cannot init again", msg):
        return "finished"
    for pat, c in CLASSES:
        if c != "XX" and re.search(pat, msg):
            return c
    return "unknown"


def decode_streams(td, nthreads, base=100):
    out = []
    for t in range(1, nthreads + 1):
        p = os.path.join(td, "loom.node0", "proc.1000", "thread.%d" % (base + t), "stream.obs")
        evs = []
        if os.path.exists(p):
            try:
                for e in obs.decode(open(p, "rb").read()):
                    if e["mcv"] == "OB." and len(e["payload"]) == 8:
                        a, b = struct.unpack("<II", e["payload"])
                        evs.append([a, b])
                    elif e["mcv"] in ("OF[", "OF]"):
                        continue
                    else:
                        evs.append([-1, -1])
            except obs.DecodeError:
                evs.append([-2, -2])
        out.append(evs)
    return out


def replay(drv, plan):
    d = core.mkscratch("mt")
    try:
        progs = plan["progs"]
        lines = [str(len(progs))] + [" ".join(p) for p in progs] + [" ".join(str(x) for x in plan["sched"])]
        open(os.path.join(d, "plan"), "w").write("\n".join(lines) + "\n")
        td = os.path.join(d, "ovni")
        rc, out, err = core.run([drv, os.path.join(d, "plan"), os.path.join(d, "log")],
                                env={"OVNI_TRACEDIR": td}, cwd=d, timeout=60)
        recs = [{"e": "plan", "progs": progs}]
        bad = None
        if rc != 0:
            bad = "mtdrive exit status %s: %s" % (rc, err[-300:])
        if os.path.exists(os.path.join(d, "log")):
            for ln in open(os.path.join(d, "log")):
                try:
                    j = json.loads(ln)
                except ValueError:
                    bad = "unparsable log line %r" % ln
                    continue
                if j.get("skip"):
                    recs.append({"e": "step", "t": j["t"], "op": "skipped", "phase": 0, "res": "skip", "cls": ""})
                    continue
                recs.append({"e": "step", "t": j["t"], "op": j["op"], "phase": j["phase"], "res": j["res"],
                             "cls": classify(j.get("msg", ""), j["op"]) if j["res"] == "refused" else ""})
        recs.append({"e": "final", "disk": decode_streams(td, len(progs))})
        return recs, bad
    finally:
        shutil.rmtree(d, ignore_errors=True)


def free_run(drv, plan, env_extra=None, want_outs=False):
    d = core.mkscratch("mtf")
    try:
        progs = plan["progs"]
        lines = [str(len(progs))] + [" ".join(p) for p in progs] + [""]
        open(os.path.join(d, "plan"), "w").write("\n".join(lines) + "\n")
        td = os.path.join(d, "ovni")
        env = {"OVNI_TRACEDIR": td, "TSAN_OPTIONS": "halt_on_error=0 exitcode=0"}
        if env_extra:
            env.update(env_extra)
            if "OVNI_TMPDIR" in env_extra:
                env["OVNI_TMPDIR"] = os.path.join(d, "tmp")
        rc, out, err = core.run([drv, "-free", os.path.join(d, "plan"), os.path.join(d, "log")],
                                env=env, cwd=d, timeout=120)
        errtxt = ""
        ep = os.path.join(d, "log.stderr")
        if os.path.exists(ep):
            errtxt = open(ep, errors="replace").read()
        outs = []
        lp = os.path.join(d, "log")
        if want_outs and os.path.exists(lp):
            for ln in open(lp):
                try:
                    outs.append(json.loads(ln).get("outs", []))
                except ValueError:
                    outs.append([])
        return {"rc": rc, "stderr": err.decode("latin1", "replace") + errtxt,
                "disk": decode_streams(td, len(progs), int(env.get("VERIF_TID_BASE", 100))), "progs": progs, "outs": outs}
    finally:
        shutil.rmtree(d, ignore_errors=True)


RACE_PLANS = [
    # all three threads enter ovni_proc_fini together (the window of a non-atomic check-then-store spans the
    # rmdir calls when OVNI_TMPDIR is set)
    [["proc_init", "sync", "proc_fini"], ["await", "sync", "proc_fini"], ["await", "sync", "proc_fini"]],
    # all three race for ovni_proc_init
    [["sync", "proc_init"], ["sync", "proc_init"], ["sync", "proc_init"]],
    # full sessions ending in a fini race
    [["proc_init", "thread_init", "emit", "flush", "free", "sync", "proc_fini"],
     ["await", "thread_init", "emit", "flush", "free", "sync", "proc_fini"],
     ["await", "sync", "proc_fini", "proc_init"]],
]


def race_runs(ck, drv, tier):
    """free-running executions built to make the threads meet in proc_init / proc_fini; the recorded
    per-call outcomes are validated by RtProcFree.tla: TLC must find an interleaving of RtProc that
    explains them (e.g. two successful proc_fini calls have no explanation)."""
    reps = 300 if tier == "quick" else 3000
    jobs = [(k, pl) for pl in RACE_PLANS for k in range(reps)]
    res = core.pmap(lambda j: free_run(drv, {"progs": j[1]}, {"OVNI_TMPDIR": "1"}, want_outs=True), jobs, workers=4)
    recs = []
    for (k, pl), x in zip(jobs, res):
        progs, outs = [], []
        for t, p in enumerate(pl):
            o = x["outs"][t] if t < len(x["outs"]) else []
            keep = [i for i, op in enumerate(p) if op not in ("await", "sync")]
            progs.append([p[i] for i in keep])
            outs.append([("ok" if o[i] == 1 else "refused") for i in keep if i < len(o)])
        recs.append({"progs": progs, "outs": outs})
        ck.case("race:%s" % json.dumps(outs), nontrivial=True)
    # distinct outcome vectors only (TLC explores every interleaving for each)
    uniq = []
    seen = set()
    for r_ in recs:
        key = json.dumps(r_, sort_keys=True)
        if key not in seen:
            seen.add(key)
            uniq.append(r_)
    d = core.mkscratch("free")
    try:
        path = os.path.join(d, "free.ndjson")
        open(path, "w").write("\n".join(json.dumps(r_) for r_ in uniq) + "\n")
        r = core.tlc("RtProcFree", "RtProcFree.cfg", workers=1, env={"TRACE": path}, tags=(), timeout=1200)
    finally:
        shutil.rmtree(d, ignore_errors=True)
    ck.add_tlc(r, "RtProcFree (an interleaving must explain each recorded outcome vector)")
    m = re.search(r'<<"UNEXPLAINED", \{(.*?)\}>>', r.out)
    if m is None:
        raise core.MachineryError("RtProcFree did not report: %s" % r.out[-1500:])
    bad = [int(x) for x in m.group(1).split(",") if x.strip()]
    ck.cov["traces_validated_against_impl"] += len(recs) if not bad else 0
    ck.notes["race_outcomes"] = {"executions": len(recs), "distinct_outcome_vectors": len(uniq), "unexplained": len(bad),
                                 "vectors": [u["outs"] for u in uniq][:12]}
    for i in bad:
        u = uniq[i - 1]
        ck.violation("free-running threads produced call outcomes that no interleaving of the specification explains "
                     "(process init/fini must take effect exactly once, losers refused)\nprograms: %s\noutcomes: %s"
                     % (json.dumps(u["progs"]), json.dumps(u["outs"])), {"execution.json": u},
                     sig="race:" + json.dumps(u["outs"]))


def init_race_runs(ck, drv, tier):
    """threads that START together after another thread of the process has already finished: whatever the
    library keeps from a finished thread for the next one to start must go to exactly one of them.  Seven
    racing threads, each emits 20 events carrying (thread, sequence number); every stream must hold exactly
    its own thread's events.  (Free-running: the interleaving inside ovni_thread_init is not forced.)"""
    first = ["proc_init", "thread_init", "emit", "flush", "free", "sync"]
    racer = ["await", "sync", "thread_init"] + ["emit"] * 20 + ["flush", "free"]
    plan = {"progs": [first] + [racer] * 7}
    reps = 150 if tier == "quick" else 2500
    # (every third run with ten-digit thread ids that differ in the last digit only)
    def envof(k):
        e = {"OVNI_TMPDIR": "1"} if k % 2 else {}
        if k % 3 == 2:
            e["VERIF_TID_BASE"] = "2147483630"
        return e or None
    res = core.pmap(lambda k: free_run(drv, plan, envof(k), want_outs=True), list(range(reps)), workers=2)
    bad = 0
    for k, x in enumerate(res):
        ck.case("init-race:%d" % k, nontrivial=True)
        for t, d in enumerate(x["disk"], start=1):
            want = 1 if t == 1 else 20
            if any(e[0] != t for e in d) or [e[1] for e in d] != list(range(1, want + 1)):
                bad += 1
                ck.violation("threads started together after a thread of the process had finished: the stream of "
                             "thread %d does not hold exactly the %d events it emitted (foreign, missing, duplicated "
                             "or reordered events): %s\nprograms: %s\n%s"
                             % (t, want, d[:12], json.dumps(plan["progs"]), x["stderr"][-400:]),
                             {"plan.json": plan}, sig="isolation-init-race")
                break
    ck.notes["init_race"] = {"executions": reps, "threads_starting_together": 7, "bad": bad}


def main(pid, tier):
    ck = core.Check(pid, "model_checking", tier)
    bdir = core.build("hooks")
    drv = core.cc_driver(bdir, "mtdrive.c")
    r = core.tlc("RtProc", "RtProc.cfg", timeout=3000)
    core.tlc_expect_ok(r, "RtProc")
    ck.add_tlc(r, "RtProc (3 threads x 7 programs, all interleavings)")
    if r.violated:
        ck.violation("RtProc model violates %s" % r.violated, {"tlc.out": r.out[-20000:]})
    rn = core.tlc("RtProc", "RtProc_Neg.cfg", timeout=600)
    ck.add_tlc(rn, "RtProc_Neg (load+store instead of CAS; must fail)")
    if not rn.violated:
        raise core.MachineryError("negative configuration RtProc_Neg no longer fails")
    ck.phase("tlc")
    n = 6000 if tier == "quick" else 40000
    g = core.tlc("RtProcGen", "RtProcGen.cfg", workers=4, simulate=max(1, n // 4), depth=80,
                 seed_=core.seed(), timeout=1200)
    plans = [o for tg, o in g.lines if tg == "TR"]
    # second generator: programs that make the threads meet in proc_init / proc_fini
    g2 = core.tlc("RtProcGen", "RtProcGen_Race.cfg", workers=4, simulate=max(1, n // 8), depth=80,
                  seed_=core.seed() + 1, timeout=1200)
    plans = [o for tg, o in g2.lines if tg == "TR"] + plans
    if len(plans) < 10:
        raise core.MachineryError("schedule generation produced %d plans\n%s" % (len(plans), g.out[-1500:]))
    # dedupe
    seen = set()
    uniq = []
    for p in plans:
        k = json.dumps(p, sort_keys=True)
        if k not in seen:
            seen.add(k)
            uniq.append(p)
    plans = uniq[:n + n // 2]
    ck.phase("generate")
    res = core.pmap(lambda p: replay(drv, p), plans)
    execs = [x[0] for x in res]
    for p, (recs, bad) in zip(plans, res):
        nproc = sum(1 for pr in p["progs"] if "proc_init" in pr)
        ck.case(json.dumps(p, sort_keys=True), nontrivial=nproc >= 2 or len(p["sched"]) >= 8)
        if bad:
            ck.violation("schedule replay failed: %s\nplan: %s" % (bad, json.dumps(p)), {"plan.json": p},
                         sig="mtdrive")
    tvr = tv.validate("RtProcTrace", "RtProcTrace.cfg", execs, None, chunk=max(20, len(execs) // 8 + 1), parallel=8)
    ck.cov["traces_validated_against_impl"] = len(tvr.accepted)
    ck.cov["states"] += tvr.states
    ck.cov["transitions"] += tvr.generated
    ck.notes["schedules"] = {"replayed": len(plans), "accepted": len(tvr.accepted), "rejected": len(tvr.rejected)}
    for (i, line, rec, tail, violated) in tvr.rejected:
        ck.violation("libovni under schedule not explained by RtProc at record #%d%s\nrecord: %s\nplan: %s\nsteps: %s"
                     % (line, (" (invariant %s)" % violated) if violated else "", json.dumps(rec),
                        json.dumps(plans[i]), json.dumps(execs[i][1:line + 1])[:1500]),
                     {"plan.json": plans[i], "execution.ndjson": "\n".join(json.dumps(x) for x in execs[i]),
                      "tlc_tail.txt": tail}, sig="rtproc:%s:%s" % (rec.get("op"), rec.get("res")))
    for p in plans[:2]:
        ck.sample(p)
    ck.phase("replay")
    # ---- free-running under ThreadSanitizer
    try:
        tb = core.build("tsan")
        tdrv = core.cc_driver(tb, "mtdrive.c", variant="tsan")
    except core.MachineryError as ex:
        tb = None
        ck.notes["tsan"] = "tsan build unavailable: %s" % str(ex)[:200]
    if tb:
        rng = random.Random(core.seed())
        sel = [p for p in plans if sum(1 for pr in p["progs"] if "thread_init" in pr) >= 2]
        rng.shuffle(sel)
        sel = sel[:(500 if tier == "quick" else 4000)]
        # every other run relocates the streams through OVNI_TMPDIR (threads then copy files in thread_free)
        fr = core.pmap(lambda kp: free_run(tdrv, kp[1], {"OVNI_TMPDIR": "1"} if kp[0] % 2 else None),
                       list(enumerate(sel)), workers=8)
        races = 0
        for p, x in zip(sel, fr):
            ck.case("free:" + json.dumps(p["progs"]), nontrivial=True)
            if "ThreadSanitizer: data race" in x["stderr"]:
                races += 1
                m = re.search(r"WARNING: ThreadSanitizer: data race.*?(?:\n\n|\Z)", x["stderr"], re.S)
                top = re.findall(r"#0 (\S+)", m.group(0) if m else "")[:2]
                ck.violation("data race inside the library under free-running threads: %s\nprograms: %s\n%s"
                             % (top, json.dumps(p["progs"]), (m.group(0) if m else "")[:1500]),
                             {"plan.json": p, "tsan.txt": x["stderr"][-6000:]}, sig="tsan:" + ",".join(top))
            for t, d in enumerate(x["disk"], start=1):
                if any(e[0] != t for e in d) or [e[1] for e in d] != list(range(1, len(d) + 1)):
                    ck.violation("stream of thread %d holds foreign, duplicated or reordered events: %s\nprograms: %s"
                                 % (t, d[:10], json.dumps(p["progs"])), {"plan.json": p}, sig="isolation")
        ck.notes["tsan"] = {"free_runs": len(sel), "race_reports": races}
        ck.phase("tsan")
    race_runs(ck, drv, tier)
    ck.phase("race_outcomes")
    init_race_runs(ck, drv, tier)
    ck.phase("init_race")
    # "each thread's ... metadata contain exactly what that thread ... set": the attribute API
    # (spec/RtAttr.tla), single- and multi-threaded call sequences replayed on libovni
    from checks import rtattr
    rtattr.run(ck, tier, bdir)
    ck.phase("attributes")
    ck.assumptions += ["interleavings are forced at API-call and hook-point granularity; finer interleavings inside a "
                       "step are only exercised by the free-running TSan runs",
                       "a CAS replaced by separate atomic load and store is not flagged by TSan and cannot be forced "
                       "by the hooks: caught by the model (negative cfg) and only probabilistically on the code"]
    return ck.finish(rule="cases = TLC -simulate behaviours of RtProc replayed step by step on libovni (gated) + "
                          "free-running executions under TSan; non-trivial = at least two threads race for "
                          "proc_init or the schedule has >= 8 steps; distinct by (programs, schedule)")
