SPECIFICATION CSpec
CONSTANTS
  Variant = "dropign"
  MaxLen = 8
  MaxOpen = 1
VIEW CView
INVARIANT ProbeConsistent
ACTION_CONSTRAINT Export
POSTCONDITION Post
CHECK_DEADLOCK FALSE
