--------------------------------- MODULE Bay ---------------------------------
(* Implementation layer of C06: channels, the patch bay and a multiplexer as
   written in src/emu/chan.c, bay.c, mux.c.

   One mux with a select channel, N input channels and an output channel
   (CHAN_DIRTY_WRITE + CHAN_ALLOW_DUP), a default value, and the default
   selection function (input index = select value, anything else selects
   nothing) - the wiring used for CPU tracking; thread tracking is the same
   with one input.  An *event* is a sequence of chan_set calls on the select
   and input channels followed by bay_propagate():
     dirty phase : callbacks of the dirty channels in the order they became
                   dirty (callbacks may dirty further channels);
                   cb_select disables the old input callback, selects, enables
                   the new one, writes the default or the input's CURRENT value;
                   cb_input (enabled only for the selected input) forwards;
     flush phase : last_value := value, dirty := FALSE.
   Property layer (the "View" of C06): after every propagate
     out = IF select names an input THEN that input's value ELSE default
   for every order of the writes of an event.  Refused writes (a channel
   written twice in one event, a duplicate on a channel that does not allow
   it) make the event fail as in the code.                                *)
EXTENDS Naturals, Integers, Sequences, FiniteSets, TLC, Json

CONSTANTS N,        \* number of inputs
          Vals,     \* values written to inputs (0 = null)
          Def,      \* mux default
          MaxEvents, MaxWrites,   \* bounds: events per behaviour, chan_set calls per event
          Variant   \* "code" | "no_disable" | "read_before" | "stale_select" (negative configurations)

Inputs == 1..N
In(i) == "in" \o ToString(i)
Chans == {"sel", "out"} \cup {In(i) : i \in Inputs}
InputOf(c) == CHOOSE i \in Inputs : In(i) = c

VARIABLES selw,      \* ghost: the select channel has been propagated at least once
          val,       \* [Chans -> value]     current value (0 = null)
          lastv,     \* [Chans -> value]     value at the last flush
          dirty,     \* sequence of channels, in the order they became dirty
          selected,  \* 0 or the input whose callback is enabled
          failed,    \* a chan_set or a propagate failed
          ev,        \* ghost: writes of the current event, in order
          log        \* ghost: the events so far (for export)

vars == <<selw, val, lastv, dirty, selected, failed, ev, log>>

IsDirty(d, c) == \E i \in 1..Len(d) : d[i] = c
AllowDup(c) == c = "out"
DirtyWrite(c) == c = "out"

\* chan_set(c, v) on a state record s = [val, dirty, ok, sel]
ChanSet(s, c, v) ==
   IF ~s.ok THEN s
   ELSE IF IsDirty(s.dirty, c) /\ ~DirtyWrite(c) THEN [s EXCEPT !.ok = FALSE]        \* cannot modify dirty channel
   ELSE IF ~AllowDup(c) /\ lastv[c] = v THEN [s EXCEPT !.ok = FALSE]                 \* same value as last_value
   ELSE [s EXCEPT !.val = [s.val EXCEPT ![c] = v],
                  !.dirty = IF IsDirty(s.dirty, c) THEN s.dirty ELSE Append(s.dirty, c)]

SelectOf(v) == IF v \in Inputs THEN v ELSE 0

\* cb_select: disable the old input callback, select, enable the new one,
\* write the default or the CURRENT value of the new input
CbSelect(s) ==
   LET new == SelectOf(s.val["sel"])
       sel1 == IF Variant = "no_disable" /\ new = 0 THEN s.sel ELSE new    \* negative: old callback left enabled
       outv == IF new = 0 THEN Def
               ELSE IF Variant = "read_before" THEN lastv[In(new)]   \* negative: value before this event
               ELSE s.val[In(new)]
   IN  [ChanSet(s, "out", outv) EXCEPT !.sel = sel1]

\* cb_input for input i (its callback is enabled only while it is selected)
CbInput(s, i) == IF s.sel = i THEN ChanSet(s, "out", s.val[In(i)]) ELSE s

RECURSIVE DirtyPhase(_, _)
DirtyPhase(s, k) ==
   IF k > Len(s.dirty) \/ ~s.ok THEN s
   ELSE LET c == s.dirty[k] IN
        IF c = "sel"
        THEN DirtyPhase(IF Variant = "stale_select" /\ s.sel # 0 /\ SelectOf(s.val["sel"]) # 0
                        THEN s ELSE CbSelect(s), k + 1)     \* negative: re-selection skipped between two inputs
        ELSE IF c = "out" THEN DirtyPhase(s, k + 1)
        ELSE DirtyPhase(CbInput(s, InputOf(c)), k + 1)

-----------------------------------------------------------------------------
Init == /\ val = [c \in Chans |-> 0] /\ lastv = [c \in Chans |-> 0]
        /\ dirty = <<>> /\ selected = 0 /\ failed = FALSE /\ ev = <<>> /\ log = <<>> /\ selw = FALSE

\* a write of the current event
Write(c, v) ==
   /\ ~failed /\ Len(ev) < MaxWrites
   /\ LET s == ChanSet([val |-> val, dirty |-> dirty, ok |-> TRUE, sel |-> selected], c, v) IN
      /\ val' = s.val /\ dirty' = s.dirty /\ failed' = ~s.ok
   /\ ev' = Append(ev, <<c, v>>)
   /\ UNCHANGED <<lastv, selected, log, selw>>

Propagate ==
   /\ ~failed /\ ev # <<>>
   /\ LET s == DirtyPhase([val |-> val, dirty |-> dirty, ok |-> TRUE, sel |-> selected], 1) IN
      /\ failed' = ~s.ok
      /\ val' = s.val /\ selected' = s.sel
      /\ lastv' = IF s.ok THEN [c \in Chans |-> IF IsDirty(s.dirty, c) THEN s.val[c] ELSE lastv[c]] ELSE lastv
      /\ dirty' = <<>>
      /\ selw' = (selw \/ (s.ok /\ IsDirty(s.dirty, "sel")))
   /\ log' = Append(log, ev) /\ ev' = <<>>

Next == \/ \E v \in 0..N : Write("sel", v)      \* 0 = null (selects nothing), i = input i
        \/ \E i \in Inputs, v \in Vals : Write(In(i), v)
        \/ Propagate
Spec == Init /\ [][Next]_vars

Quiescent == ev = <<>> /\ ~failed
\* C06 View at every quiescent point: the value of the input the select names,
\* otherwise the default (nothing at all before the select was ever written)
Expected == IF SelectOf(val["sel"]) # 0 THEN val[In(SelectOf(val["sel"]))]
            ELSE IF selw THEN Def ELSE 0
View == Quiescent => val["out"] = Expected
\* only the input the select names has its callback enabled
NoStaleCallback == Quiescent => selected = SelectOf(val["sel"])
DirtyListDrains == Quiescent => dirty = <<>>

\* export of complete event sequences with the expected output after each event
Bound == Len(log) <= MaxEvents
\* the histories are ghosts: states with the same channel contents behave alike
MCView == <<selw, val, lastv, dirty, selected, failed, Len(ev), Len(log)>>
Export == (((Quiescent /\ Len(log) = MaxEvents) \/ failed)) =>
             PrintT(<<"TR", ToJson([events |-> IF ev = <<>> THEN log ELSE Append(log, ev),
                                    out |-> val["out"], failed |-> failed])>>)
=============================================================================
