------------------------------ MODULE EmuFull ------------------------------
(* Emu extended with the task life-cycle of the task-based models (C07:
   src/emu/task.c, body.c, nosv/event.c, nanos6/event.c) and the mark API
   (C17: src/emu/ovni/mark.c).

   Tasks, task types and bodies live per (model, process); body stacks per
   (model, thread).  The task channels (task id, type, body id, app id,
   rank) are ordinary model channels in `ch`, written on the transitions
   x/r (running), e/p (stopped), X/E (nested switch) exactly as the code
   does; the property "the thread shows the task exactly while a body runs"
   is the invariant TaskChansMirrorBodies.                                *)
EXTENDS Emu

VARIABLES ttypes,   \* set of [m, l, p, id, label]          task types (label = integer code k of label "T<k>")
          ttasks,   \* set of [m, l, p, id, label, flags]   tasks; flags \subseteq {"par","res","pause","relax"}
          tbodies,  \* function <<m,l,p,task,body>> -> [st, it]   st \in created|running|paused|dead
          tstack,   \* [<<m, thread>> -> sequence of <<task, body>>], top = last
          mk        \* [thread -> [mark type -> sequence of values]]

taskVars == <<ttypes, ttasks, tbodies, tstack, mk>>
allVars == <<emuVars, taskVars>>

TaskModels == {"V", "6"}
Loom(t) == sys.threads[t].loom
Pid(t)  == sys.threads[t].pid
Rank(t) == sys.threads[t].rank
App(t)  == sys.threads[t].app

TypeOf(m, t, id) == {x \in ttypes : x.m = m /\ x.l = Loom(t) /\ x.p = Pid(t) /\ x.id = id}
TaskOf(m, t, id) == {x \in ttasks : x.m = m /\ x.l = Loom(t) /\ x.p = Pid(t) /\ x.id = id}
BKey(m, t, task, body) == <<m, Loom(t), Pid(t), task, body>>
BodyExists(k) == k \in DOMAIN tbodies
Stack(m, t) == tstack[<<m, t>>]
TopRunning(m, t) ==    \* task_get_running: top body if it is running, else <<>>
   LET s == Stack(m, t) IN
   IF s = <<>> THEN <<>>
   ELSE LET b == s[Len(s)] IN
        IF tbodies[BKey(m, t, b[1], b[2])].st = "running" THEN b ELSE <<>>

\* channel keys of the task channels of each model
K(m, name) == IF m = "V" THEN "nosv." \o name ELSE "nanos6." \o name
TaskChanNames(m) == IF m = "V" THEN {"bodyid", "taskid", "task_type", "appid", "rank"}
                    ELSE {"taskid", "task_type", "rank"}
SS(m) == K(m, "subsystem")
TaskBodyValue(m) == IF m = "V" THEN NosvTaskBody ELSE Nanos6TaskBody   \* ST_TASK_BODY of each model

\* value shown for a running body b = <<task, body>> of thread t
Shown(m, t, b, name) ==
   LET task == CHOOSE x \in TaskOf(m, t, b[1]) : TRUE IN
   CASE name = "taskid" -> b[1]
     [] name = "bodyid" -> b[2]
     [] name = "task_type" -> task.label
     [] name = "appid"  -> App(t)
     [] name = "rank"   -> IF Rank(t) >= 0 THEN Rank(t) + 1 ELSE 0

\* chan_set of a single channel: refused when it repeats the value the
\* channel had before this event and the channel does not allow duplicates
SetOk(c, k, v) == ChanInfo[k].dup \/ Top(c[k]) # v
SetTo(c, k, v) == [c EXCEPT ![k] = IF v = 0 THEN <<>> ELSE <<v>>]

\* set every task channel of model m to F[name]; the rank channel is only
\* touched when the process has a rank.  Returns [ok, c].
Touched(m, t, n) == ~(n = "rank" /\ Rank(t) < 0)
SetAll(m, t, c, F) ==
   LET names == {n \in TaskChanNames(m) : Touched(m, t, n)}
       keys == {K(m, n) : n \in names}
       NameOf(k) == CHOOSE n \in names : K(m, n) = k
   IN  [ok |-> \A n \in names : SetOk(c, K(m, n), F[n]),
        c  |-> [k \in DOMAIN c |-> IF k \in keys
                                    THEN (IF F[NameOf(k)] = 0 THEN <<>> ELSE <<F[NameOf(k)]>>)
                                    ELSE c[k]]]

-----------------------------------------------------------------------------
TOut(ok, un, ty, ta, bo, st, c) ==
   [ok |-> ok, un |-> un, ty |-> ty, ta |-> ta, bo |-> bo, st |-> st, c |-> c]
TReject == TOut(FALSE, FALSE, ttypes, ttasks, tbodies, tstack, <<>>)
TUndef  == TOut(FALSE, TRUE, ttypes, ttasks, tbodies, tstack, <<>>)

\* <m>Yc: create a task type (jumbo: u32 id, label)
TypeCreate(m, e) ==
   LET t == e.th IN
   IF ~e.j \/ Len(e.a) < 2 THEN TReject
   ELSE IF e.a[1] = 0 \/ TypeOf(m, t, e.a[1]) # {} THEN TReject
   ELSE TOut(TRUE, FALSE,
             ttypes \cup {[m |-> m, l |-> Loom(t), p |-> Pid(t), id |-> e.a[1], label |-> e.a[2]]},
             ttasks, tbodies, tstack, ch[t])

\* <m>Tc / VTC: create a task
TaskCreate(m, e, flags) ==
   LET t == e.th IN
   IF Len(e.a) < 2 \/ (m = "6" /\ Len(e.a) # 2) THEN TReject
   ELSE IF TaskOf(m, t, e.a[1]) # {} \/ TypeOf(m, t, e.a[2]) = {} THEN TReject
   ELSE LET ty == CHOOSE x \in TypeOf(m, t, e.a[2]) : TRUE IN
        TOut(TRUE, FALSE, ttypes,
             ttasks \cup {[m |-> m, l |-> Loom(t), p |-> Pid(t), id |-> e.a[1],
                           label |-> ty.label, flags |-> flags]},
             tbodies, tstack, ch[t])

\* the body-level state machine (body.c); returns [ok, bo, st]
BOut(ok, bo, st) == [ok |-> ok, bo |-> bo, st |-> st]
BodyStep(m, t, task, bid, v) ==
   LET k == BKey(m, t, task.id, bid)
       s == Stack(m, t)
       onTop == s # <<>> /\ s[Len(s)] = <<task.id, bid>>
       mine == \E i \in 1..Len(s) : s[i] = <<task.id, bid>>
       bad == BOut(FALSE, tbodies, tstack)
   IN
   CASE v = "x" ->
          LET exists == BodyExists(k)
              \* create_body: one body only for non-parallel tasks
              nb == Cardinality({kk \in DOMAIN tbodies : kk[1] = m /\ kk[2] = Loom(t) /\ kk[3] = Pid(t) /\ kk[4] = task.id})
              b0 == IF exists THEN tbodies[k] ELSE [st |-> "created", it |-> 0]
              b1 == IF b0.st = "dead" /\ "res" \in task.flags
                    THEN [st |-> "created", it |-> b0.it + 1] ELSE b0
              top == TopRunning(m, t)
              topRelax == top # <<>> /\
                          "relax" \in (CHOOSE x \in TaskOf(m, t, top[1]) : TRUE).flags
          IN
          IF bid = 0 THEN bad
          ELSE IF ~exists /\ "par" \notin task.flags /\ nb > 0 THEN bad
          ELSE IF b1.st # "created" THEN bad            \* dead without resurrect, paused, running
          ELSE IF top # <<>> /\ ~topRelax THEN bad      \* nesting over a running body
          ELSE BOut(TRUE, (k :> [st |-> "running", it |-> b1.it]) @@ tbodies,
                    [tstack EXCEPT ![<<m, t>>] = Append(s, <<task.id, bid>>)])
     [] v = "p" ->
          IF ~BodyExists(k) \/ "pause" \notin task.flags THEN bad
          ELSE IF tbodies[k].st # "running" \/ ~mine \/ ~onTop THEN bad
          ELSE BOut(TRUE, [tbodies EXCEPT ![k].st = "paused"], tstack)
     [] v = "r" ->
          IF ~BodyExists(k) THEN bad
          ELSE IF tbodies[k].st # "paused" \/ ~mine \/ ~onTop THEN bad
          ELSE BOut(TRUE, [tbodies EXCEPT ![k].st = "running"], tstack)
     [] v = "e" ->
          IF ~BodyExists(k) THEN bad
          ELSE IF tbodies[k].st # "running" \/ ~mine \/ ~onTop THEN bad
          ELSE BOut(TRUE, [tbodies EXCEPT ![k].st = "dead"],
                    [tstack EXCEPT ![<<m, t>>] = SubSeq(s, 1, Len(s) - 1)])

\* <m>T{x,e,p,r}: update_task
TaskUpdate(m, e, v) ==
   LET t == e.th IN
   IF Len(e.a) < 1 \/ (m = "V" /\ Len(e.a) < 2) THEN TReject
   ELSE IF TaskOf(m, t, e.a[1]) = {} THEN TReject
   ELSE
   LET task == CHOOSE x \in TaskOf(m, t, e.a[1]) : TRUE
       par == "par" \in task.flags
       rawbid == IF m = "V" THEN e.a[2] ELSE 0
       bid == IF m = "6" THEN 1 ELSE IF par THEN rawbid ELSE 1
   IN
   IF m = "V" /\ ((par /\ rawbid = 0) \/ (~par /\ rawbid # 0)) THEN TReject
   ELSE
   LET prev == TopRunning(m, t)
       b == BodyStep(m, t, task, bid, v)
   IN
   IF ~b.ok THEN TReject
   ELSE
   LET next == LET s == b.st[<<m, t>>] IN
               IF s = <<>> THEN <<>>
               ELSE IF b.bo[BKey(m, t, s[Len(s)][1], s[Len(s)][2])].st = "running"
                    THEN s[Len(s)] ELSE <<>>
       c0 == ch[t]
       ss == c0[SS(m)]
       tb == TaskBodyValue(m)
       \* update_task_ss_channel: x pushes, e pops ST_TASK_BODY
       ssPushDup == v = "x" /\ Top(ss) = tb /\ ~ChanInfo[SS(m)].dup
       ssOk == CASE v = "x" -> Len(ss) < MaxStack /\ ~ssPushDup
                 [] v = "e" -> ss # <<>> /\ Top(ss) = tb
                 [] OTHER -> TRUE
       c1 == CASE v = "x" -> [c0 EXCEPT ![SS(m)] = Append(ss, tb)]
               [] v = "e" -> [c0 EXCEPT ![SS(m)] = SubSeq(ss, 1, Len(ss) - 1)]
               [] OTHER -> c0
       \* x/r: running(next); e/p: stopped; X/E: switch(prev -> next)
       F == [n \in TaskChanNames(m) |-> IF next = <<>> THEN 0 ELSE Shown(m, t, next, n)]
       r == SetAll(m, t, c1, F)
   IN
   IF ssPushDup THEN TUndef            \* task started directly over TASK_BODY: where C07 and C08 meet
   ELSE IF ~ssOk THEN TReject
   ELSE IF ~r.ok THEN TReject
   ELSE TOut(TRUE, FALSE, ttypes, ttasks, b.bo, b.st, r.c)

IsTaskEvent(mcv) == mcv \in {"VYc", "VTc", "VTC", "VTx", "VTe", "VTp", "VTr",
                             "6Yc", "6Tc", "6Tx", "6Te", "6Tp", "6Tr"}

TaskEvent(e) ==
   LET m == e.mc IN
   CASE e.m \in {"VYc", "6Yc"} -> TypeCreate(m, e)
     [] e.m \in {"VTc", "6Tc"} -> TaskCreate(m, e, IF m = "V" THEN {"res", "pause"} ELSE {"pause", "relax"})
     [] e.m = "VTC" -> TaskCreate(m, e, {"par"})
     [] e.m \in {"VTx", "6Tx"} -> TaskUpdate(m, e, "x")
     [] e.m \in {"VTe", "6Te"} -> TaskUpdate(m, e, "e")
     [] e.m \in {"VTp", "6Tp"} -> TaskUpdate(m, e, "p")
     [] e.m \in {"VTr", "6Tr"} -> TaskUpdate(m, e, "r")

-----------------------------------------------------------------------------
(* Marks (C17).  sys.marks: sequence of [type, stack]; channels allow
   duplicates; a push on a single type / a set on a stack type is refused. *)
MarkTypes == {sys.marks[i].type : i \in 1..Len(sys.marks)}
MarkIsStack(ty) == \E i \in 1..Len(sys.marks) : sys.marks[i].type = ty /\ sys.marks[i].stack
IsMarkEvent(mcv) == mcv \in {"OM[", "OM]", "OM="}

MOut(ok, s) == [ok |-> ok, s |-> s]
MarkEvent(e) ==
   LET t == e.th IN
   IF Len(e.a) # 2 THEN MOut(FALSE, <<>>)                \* payload must be 8 + 4 bytes
   ELSE LET v == e.a[1]  ty == e.a[2] IN
   IF ty \notin MarkTypes \/ v = 0 THEN MOut(FALSE, <<>>)
   ELSE LET s == mk[t][ty] IN
   CASE e.m = "OM[" -> IF ~MarkIsStack(ty) \/ Len(s) >= MaxStack THEN MOut(FALSE, s)
                       ELSE MOut(TRUE, Append(s, v))
     [] e.m = "OM]" -> IF ~MarkIsStack(ty) \/ s = <<>> \/ Top(s) # v THEN MOut(FALSE, s)
                       ELSE MOut(TRUE, SubSeq(s, 1, Len(s) - 1))
     [] e.m = "OM=" -> IF MarkIsStack(ty) THEN MOut(FALSE, s) ELSE MOut(TRUE, <<v>>)

MarkCells ==
   {<<"t", t, 100 + ty, Top(mk[t][ty])>> :
      <<t, ty>> \in {x \in Threads \X MarkTypes : Top(mk[x[1]][x[2]]) # 0 /\ IsActive(thState[x[1]])}}
   \cup
   {<<"c", c, 100 + ty, Top(mk[TheRunning(c)][ty])>> :
      <<c, ty>> \in {x \in Cpus \X MarkTypes :
                       NRun(x[1], thState, thCpu) = 1 /\ Top(mk[TheRunning(x[1])][x[2]]) # 0}}

-----------------------------------------------------------------------------
ViewAll == View \cup MarkCells

InitTasks(s) ==
   /\ ttypes = {} /\ ttasks = {} /\ tbodies = <<>>
   /\ tstack = [x \in TaskModels \X (1..Len(s.threads)) |-> <<>>]
   /\ mk = [t \in 1..Len(s.threads) |-> [ty \in {s.marks[i].type : i \in 1..Len(s.marks)} |-> <<>>]]

InitAll(s, li) == InitSys(s, li) /\ InitTasks(s)

\* the same as a transition (start of a new execution in a concatenated trace)
ResetAll(s, li) ==
   /\ sys' = s
   /\ thState' = [t \in 1..Len(s.threads) |-> "unknown"]
   /\ thCpu' = [t \in 1..Len(s.threads) |-> 0]
   /\ ooc' = [t \in 1..Len(s.threads) |-> FALSE]
   /\ ch' = [t \in 1..Len(s.threads) |-> EmptyChans]
   /\ failed' = FALSE /\ unspec' = FALSE /\ lint' = li
   /\ ttypes' = {} /\ ttasks' = {} /\ tbodies' = <<>>
   /\ tstack' = [x \in TaskModels \X (1..Len(s.threads)) |-> <<>>]
   /\ mk' = [t \in 1..Len(s.threads) |-> [ty \in {s.marks[i].type : i \in 1..Len(s.marks)} |-> <<>>]]

FailAll  == Fail /\ UNCHANGED taskVars
UndefAll == Undef /\ UNCHANGED taskVars

StepAll(e) ==
   LET mc == e.mc t == e.th IN
   IF failed \/ unspec THEN UNCHANGED allVars
   ELSE IF IsTaskEvent(e.m) THEN
        IF ~Enabled(mc) \/ ~StateOk(mc, t) THEN FailAll
        ELSE LET o == TaskEvent(e) IN
             IF o.un THEN UndefAll
             ELSE IF ~o.ok THEN FailAll
             ELSE /\ ttypes' = o.ty /\ ttasks' = o.ta /\ tbodies' = o.bo /\ tstack' = o.st
                  /\ ch' = [ch EXCEPT ![t] = o.c]
                  /\ UNCHANGED <<coreVars, lint, mk>>
   ELSE IF IsMarkEvent(e.m) THEN
        IF ~Enabled(mc) \/ ~StateOk(mc, t) THEN FailAll
        ELSE LET o == MarkEvent(e) IN
             IF ~o.ok THEN FailAll
             ELSE /\ mk' = [mk EXCEPT ![t][e.a[2]] = o.s]
                  /\ UNCHANGED <<emuVars, ttypes, ttasks, tbodies, tstack>>
   ELSE Step(e) /\ UNCHANGED taskVars

VerdictAll == Verdict

-----------------------------------------------------------------------------
(* C07 invariants, checked by TLC on the bounded model *)
BodyKeys == DOMAIN tbodies
\* a body is on at most one stack, and exactly the running/paused ones are
OnStacks(k) == {x \in DOMAIN tstack :
                  /\ x[1] = k[1] /\ Loom(x[2]) = k[2] /\ Pid(x[2]) = k[3]
                  /\ \E i \in 1..Len(tstack[x]) : tstack[x][i] = <<k[4], k[5]>>}
BodyRunsOnAtMostOneThread ==
   \A k \in BodyKeys :
      /\ Cardinality(OnStacks(k)) <= 1
      /\ (tbodies[k].st \in {"running", "paused"}) <=> (OnStacks(k) # {})
\* only the top of a stack may be running; below the top a body is paused
\* unless its task relaxes nesting
OnlyTopRuns ==
   \A x \in DOMAIN tstack : \A i \in 1..(Len(tstack[x]) - 1) :
      LET b == tstack[x][i]
          st == tbodies[BKey(x[1], x[2], b[1], b[2])].st
          task == CHOOSE y \in TaskOf(x[1], x[2], b[1]) : TRUE
      IN  st = "paused" \/ (st = "running" /\ "relax" \in task.flags)
\* the task channels show the running top body, nothing otherwise
TaskChansMirrorBodies ==
   ~failed => \A t \in Threads : \A m \in TaskModels : Enabled(m) =>
      LET b == TopRunning(m, t) IN
      \A n \in TaskChanNames(m) :
         Top(ch[t][K(m, n)]) = (IF b = <<>> THEN 0 ELSE Shown(m, t, b, n))
\* parallel tasks never pause; non-parallel tasks have one body
ParallelNeverPaused ==
   \A k \in BodyKeys : tbodies[k].st = "paused" =>
      "par" \notin (CHOOSE x \in ttasks : x.m = k[1] /\ x.l = k[2] /\ x.p = k[3] /\ x.id = k[4]).flags
=============================================================================
