SPECIFICATION GSpec
CONSTANTS
  MaxNodes = 7
  Keys = {0,1,2}
  MaxOps = 14
  HVariant = "ok"
  Grammar = "filldrain"
INVARIANTS WellFormed SizeIsCount HistOK
CONSTRAINT GExport
CHECK_DEADLOCK FALSE
