SPECIFICATION Spec
CONSTANTS
  MaxN = 4
  Vals = {0,1,2,3}
  Variant = "jump_always"
  WriteAll = FALSE
VIEW View
INVARIANTS RowsSorted OnlyChangedWritten AllChangedWritten RefSortIsSort
CHECK_DEADLOCK FALSE
