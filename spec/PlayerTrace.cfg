SPECIFICATION TSpec
CONSTANTS
  NS = 0
  MaxEv = 0
  Clocks = {}
  Offsets = {}
  NL = 0
  Base = 0
  PVariant = "ok"
  MPick = "min"
  HVariant = "ok"
INVARIANTS MergeNonDecreasing MergePerStreamOrder MergeOutputTimes
POSTCONDITION Report
CHECK_DEADLOCK FALSE
