SPECIFICATION SpecFault
CONSTANTS
  JsonLast = TRUE
  CheckCopy = FALSE
  Small = TRUE
INVARIANTS C10a2 C10b2 C10c2
CHECK_DEADLOCK FALSE
