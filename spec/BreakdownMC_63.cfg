SPECIFICATION BSpec
CONSTANTS
  System <- SysC2063
  Alphabet <- AlphaC2063
  MaxLen = 8
  Lint = TRUE
  SortVariant = "code"
  StaleOK = TRUE
VIEW BView
INVARIANT BInv
ACTION_CONSTRAINT BExport
CHECK_DEADLOCK FALSE
