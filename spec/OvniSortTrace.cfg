SPECIFICATION TSpec
CONSTANTS
  MaxLen = 0
  MaxClock = 0
  Rings = {}
  MaxB = 0
  MaxJ = 0
  Strict = TRUE
  JumboInside = TRUE
  ExportUnspecLen = 4
  Variant = "code"
POSTCONDITION Report
CHECK_DEADLOCK FALSE
