SPECIFICATION Spec
CONSTANTS
  MaxLen = 6
  MaxClock = 2
  Rings <- MCRings
  MaxB = 2
  MaxJ = 1
  Strict = FALSE
  JumboInside = FALSE
  Variant = "code"
INVARIANTS Refinement IdempotentInv RunAgrees Tight AfterSort Lemmas RegionAgree RingInv

CHECK_DEADLOCK FALSE
