\* arithmetic of the current code: TLC must refute VerdictIsExit0or1 (design finding + non-vacuity of the invariant)
SPECIFICATION Spec
CONSTANTS
  W = 8
  Sizes <- SzQuick
  Guarded = FALSE
  JSizes <- JSQuick
  JFlags <- JFQuick
  MaxStr = 6
INVARIANTS VerdictIsExit0or1
CHECK_DEADLOCK FALSE
