SPECIFICATION SpecFault
CONSTANTS
  JsonLast = TRUE
  CheckCopy = TRUE
INVARIANTS C09a C09b C10a C10b C10c
CHECK_DEADLOCK FALSE
