SPECIFICATION Spec
CONSTANTS
  NT = 2
  DefCalls <- DefsE
  EvCalls <- EvE
  MaxDefs <- MaxDefsE
  MaxEv <- MaxEvEt
  Variant = "faithful"
VIEW View
INVARIANTS
  MergeOrderIndependent
  ConflictsRefused
  AgreeingDefsMerge
  SingleThreadLoads
  AcceptedPersist
  RefusalIsLast
ACTION_CONSTRAINT Export
PROPERTY DefsMonotone
CHECK_DEADLOCK FALSE
