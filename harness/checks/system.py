"""C15 (metadata merge is distribution independent; conflicts refused cleanly)
- System.tla.

TLC evaluates, for every distribution of app_id / rank / loom_cpus over the
threads, CPU list orders, processing orders and every single contradiction of
the bounded family, that the sequential first-come merge of the code agrees
with the property layer (a function of the UNION of the metadata) and that
the rows are independent of the distribution.  A sample of the family and
all contradictions are exported with the expected verdict and row order,
materialised as real trace directories (stream k in directory s<k>, so the
processing order is the exported one) and run through ovniemu; the verdict,
the terminating signal and thread.row / cpu.row are compared with TLC's.
"""
import json
import os
import shutil

from vlib import core, obs, emu


# Loom names: "node<l>.x", or (variant B) names whose order as whole strings (what the emulator sorts by) differs
# from the order of their host parts: "cn1-ib.0" < "cn1.0" because '-' sorts before '.', but "cn1" < "cn1-ib"
NAMES_B = {1: "cn1-ib.0", 2: "cn1.0", 3: "cn2.x"}


def variant_b(streams):
    return (sum(m["tid"] * (k + 1) for k, m in enumerate(streams)) + len(streams)) % 2 == 1


def materialise(td, streams):
    names = NAMES_B if variant_b(streams) else {}
    for k, m in enumerate(streams):
        cpus = [(c[0], c[1]) for c in m["cpus"]] if m["cpus"] else None
        meta = obs.thread_meta(m["tid"], m["pid"], names.get(m["loom"], "node%d.x" % m["loom"]),
                               app_id=(m["app"] if m["app"] != 0 else None),
                               cpus=cpus,
                               rank=(m["rank"] if m["rank"] != -1 else None),
                               nranks=(m["nranks"] if m["nranks"] != 0 else None))
        t0 = 1000 + k * 100
        evs = obs.ev("OHx", t0, obs.i32(0, m["tid"]) + b"\0" * 8) + obs.ev("OHe", t0 + 50)
        obs.write_stream(td, None, None, None, meta, evs, subdir=os.path.join(td, "s%02d" % k))


def run_case(bdir, case):
    d = core.mkscratch("sys")
    try:
        td = os.path.join(d, "ovni")
        materialise(td, case["streams"])
        r = emu.ovniemu(bdir, td, ("-l",))
        trows = crows = None
        if r.accepted:
            trows = emu.Row(os.path.join(td, "thread.row")).thread_rows["names"]
            crows = emu.Row(os.path.join(td, "cpu.row")).thread_rows["names"]
        return r, trows, crows
    finally:
        shutil.rmtree(d, ignore_errors=True)


def main(pid, tier):
    ck = core.Check(pid, "model_checking", tier)
    bdir = core.build("hooks")
    cfg = "System.cfg" if tier == "quick" else "System_Thorough.cfg"
    r = core.tlc("System", cfg, timeout=6000, heap="16g")
    core.tlc_expect_ok(r, "System")
    ck.add_tlc(r, "System/%s (all distributions x orders x single contradictions)" % cfg)
    if r.violated:
        ck.violation("System model violates %s" % r.violated, {"tlc.out": r.out[-20000:]})
    cases = [o for tg, o in r.lines if tg == "TR"]
    if not cases:
        raise core.MachineryError("System export is empty")
    ck.phase("tlc")
    results = core.pmap(lambda c: run_case(bdir, c), cases)
    agree = 0
    kinds = {}
    for c, (er, trows, crows) in zip(cases, results):
        exp = c["exp"]
        kinds[c["tag"]] = kinds.get(c["tag"], 0) + 1
        ck.case(json.dumps(c["streams"], sort_keys=True), nontrivial=True)
        bundle = {"case.json": c, "emu_stderr.txt": er.text[-4000:]}
        sig = "sys:" + c["tag"]
        if er.signal or er.timeout or er.sanitizer:
            ck.violation("ovniemu %s while loading metadata (tag %s): conflicts and valid metadata must never crash\n%s"
                         % (er.verdict, c["tag"], json.dumps(c["streams"])), bundle, sig=sig + ":crash")
            continue
        if exp["verdict"] == "reject":
            if er.accepted or er.rc != 1:
                ck.violation("contradictory metadata (%s) not refused: emulator verdict %s\n%s"
                             % (c["tag"], er.verdict, json.dumps(c["streams"])), bundle, sig=sig)
            else:
                agree += 1
        elif exp["verdict"] == "ok":
            want_t = ["TH %d.%d" % (a, t) for a, t in exp["trows"]]
            want_c = [("vCPU %d.*" % l) if p == -1 else (" CPU %d.%d" % (l, p)) for l, p in exp["crows"]]
            if not er.accepted:
                ck.violation("valid metadata distribution (%s) refused: %s %s\n%s"
                             % (c["tag"], er.verdict, er.last_errors(2), json.dumps(c["streams"])), bundle, sig=sig)
            elif trows != want_t or crows != want_c:
                ck.violation("row assignment differs from the one determined by the union of the metadata (%s)\n"
                             "thread.row %s\nexpected   %s\ncpu.row  %s\nexpected %s\n%s"
                             % (c["tag"], trows, want_t, crows, want_c, json.dumps(c["streams"])), bundle, sig=sig)
            else:
                agree += 1
        else:
            agree += 1
    ck.cov["traces_validated_against_impl"] = agree
    ck.notes["cases_by_tag"] = kinds
    for c in cases[:2] + cases[-2:]:
        ck.sample(c)
    ck.phase("conformance")
    ck.assumptions += ["loom names node<k>.x sort like the numbers k (single digit)",
                       "equal sort keys (duplicate ranks) are Unspecified"]
    return ck.finish(rule="cases = traces exported by TLC from the bounded family (1-in-N deterministic sample of valid "
                          "distributions + every single contradiction in every processing order); all are non-trivial "
                          "(5 streams, 2 looms, 3 processes); distinct by metadata sequence")
