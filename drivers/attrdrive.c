/* attrdrive: executes scripts of thread attribute calls against the freshly
 * built libovni.so and logs what every call returned.
 *
 * usage: attrdrive <logprefix> <script0> [<script1> ...]
 *
 * script0 runs on the main thread and logs to <logprefix>.0.  With more than
 * one script, the op `spawn` of script0 starts one thread per extra script
 * (script k logs to <logprefix>.k), lets them run concurrently and joins them.
 * All scripts are parsed before anything runs; the spawned threads start
 * together (barrier) and the op `barrier` makes them meet again (used after
 * ovni_thread_init, whose duration varies, so that the attribute calls of the
 * threads overlap).
 *
 * Script lines (one op each, '#' comments; <hex> = bytes in hex, '-' = empty):
 *   proc_init <app> <loom> <pid>
 *   thread_init <tid>
 *   require <model> <version>
 *   has <key>
 *   get_double <key> | get_boolean <key> | get_str <key> | get_json <key>
 *   set_double <key> <strtod text> | set_boolean <key> <int>
 *   set_str <key> <hex> | set_json <key> <hex>
 *   flush | free | fini | spawn | barrier
 *
 * Log: one JSON line per call that returned,
 *   {"i":n,"op":"..","ret":R}   R: has / get_boolean -> integer,
 *                               get_double -> "%.17g" text (a JSON string),
 *                               get_str / get_json -> hex of the bytes,
 *                               otherwise null.
 * A die() inside the library calls abort(), interposed here: the log of the
 * calling thread gets {"i":n,"op":"..","aborted":true} and the process exits
 * with status 3 (nothing runs afterwards, like the abort it replaces).
 */
#include <errno.h>
#include <pthread.h>
#include <stdint.h>
#include <stdio.h>
#include <stdlib.h>
#include <string.h>
#include <unistd.h>

#include "ovni.h"

#define MAXT 64

struct op {
	char name[24];
	char a[256];   /* first argument (key, model, loom...) */
	char *b;       /* second argument, decoded (malloc), or NULL */
	long n1, n2;   /* numeric arguments */
};

struct script {
	struct op *ops;
	int nops;
	FILE *log;
	int idx;
};

static struct script scripts[MAXT];
static int nscripts;
static pthread_barrier_t bar;
static int bar_ready;

static __thread FILE *tlog;
static __thread int cur_i = -1;
static __thread const char *cur_op = "";

void abort(void)
{
	if (tlog) {
		fprintf(tlog, "{\"i\":%d,\"op\":\"%s\",\"aborted\":true}\n", cur_i, cur_op);
		fflush(tlog);
	}
	_exit(3);
}

static int hexval(int c)
{
	if (c >= '0' && c <= '9') return c - '0';
	if (c >= 'a' && c <= 'f') return c - 'a' + 10;
	if (c >= 'A' && c <= 'F') return c - 'A' + 10;
	return -1;
}

static char *unhex(const char *h)
{
	size_t n = strlen(h);
	if (!strcmp(h, "-"))
		n = 0;
	char *out = calloc(n / 2 + 1, 1);
	for (size_t i = 0; i + 1 < n; i += 2)
		out[i / 2] = (char) (hexval(h[i]) * 16 + hexval(h[i + 1]));
	return out;
}

static void loghex(FILE *f, const char *s)
{
	fputc('"', f);
	for (const unsigned char *p = (const unsigned char *) s; *p; p++)
		fprintf(f, "%02x", *p);
	fputc('"', f);
}

static int parse(const char *path, struct script *sc)
{
	FILE *f = fopen(path, "r");
	if (!f) {
		perror(path);
		return -1;
	}
	char *line = NULL;
	size_t cap = 0;
	int alloc = 0;
	while (getline(&line, &cap, f) > 0) {
		char *nl = strchr(line, '\n');
		if (nl) *nl = 0;
		if (line[0] == 0 || line[0] == '#')
			continue;
		if (sc->nops == alloc) {
			alloc = alloc ? alloc * 2 : 64;
			sc->ops = realloc(sc->ops, (size_t) alloc * sizeof(struct op));
		}
		struct op *o = &sc->ops[sc->nops++];
		memset(o, 0, sizeof(*o));
		char *tok[4] = {0};
		int nt = 0;
		for (char *t = strtok(line, " "); t && nt < 4; t = strtok(NULL, " "))
			tok[nt++] = t;
		snprintf(o->name, sizeof(o->name), "%s", tok[0]);
		if (!strcmp(o->name, "proc_init")) {
			if (nt < 4) return -1;
			o->n1 = atol(tok[1]);
			snprintf(o->a, sizeof(o->a), "%s", tok[2]);
			o->n2 = atol(tok[3]);
		} else if (!strcmp(o->name, "thread_init")) {
			if (nt < 2) return -1;
			o->n1 = atol(tok[1]);
		} else if (!strcmp(o->name, "set_boolean")) {
			if (nt < 3) return -1;
			snprintf(o->a, sizeof(o->a), "%s", tok[1]);
			o->n1 = atol(tok[2]);
		} else if (!strcmp(o->name, "set_str") || !strcmp(o->name, "set_json")) {
			if (nt < 3) return -1;
			snprintf(o->a, sizeof(o->a), "%s", tok[1]);
			o->b = unhex(tok[2]);
		} else if (!strcmp(o->name, "set_double") || !strcmp(o->name, "require")) {
			if (nt < 3) return -1;
			snprintf(o->a, sizeof(o->a), "%s", tok[1]);
			o->b = strdup(tok[2]);
		} else if (nt >= 2) {
			snprintf(o->a, sizeof(o->a), "%s", tok[1]);
		}
	}
	free(line);
	fclose(f);
	return 0;
}

static void *run_thread(void *arg);

static int run_script(struct script *sc)
{
	tlog = sc->log;
	for (int i = 0; i < sc->nops; i++) {
		struct op *o = &sc->ops[i];
		const char *op = o->name;
		cur_i = i;
		cur_op = op;
		int isint = 0, ishex = 0, isdbl = 0;
		long ri = 0;
		double rd = 0;
		const char *rs = NULL;
		char *owned = NULL;
		if (!strcmp(op, "proc_init")) {
			ovni_proc_init((int) o->n1, o->a, (int) o->n2);
		} else if (!strcmp(op, "thread_init")) {
			ovni_thread_init((pid_t) o->n1);
		} else if (!strcmp(op, "require")) {
			ovni_thread_require(o->a, o->b);
		} else if (!strcmp(op, "has")) {
			ri = ovni_attr_has(o->a);
			isint = 1;
		} else if (!strcmp(op, "get_double")) {
			rd = ovni_attr_get_double(o->a);
			isdbl = 1;
		} else if (!strcmp(op, "get_boolean")) {
			ri = ovni_attr_get_boolean(o->a);
			isint = 1;
		} else if (!strcmp(op, "get_str")) {
			rs = ovni_attr_get_str(o->a);
			ishex = 1;
		} else if (!strcmp(op, "get_json")) {
			owned = ovni_attr_get_json(o->a);
			rs = owned;
			ishex = 1;
		} else if (!strcmp(op, "set_double")) {
			ovni_attr_set_double(o->a, strtod(o->b, NULL));
		} else if (!strcmp(op, "set_boolean")) {
			ovni_attr_set_boolean(o->a, (int) o->n1);
		} else if (!strcmp(op, "set_str")) {
			ovni_attr_set_str(o->a, o->b);
		} else if (!strcmp(op, "set_json")) {
			ovni_attr_set_json(o->a, o->b);
		} else if (!strcmp(op, "flush")) {
			ovni_attr_flush();
		} else if (!strcmp(op, "free")) {
			ovni_thread_free();
		} else if (!strcmp(op, "fini")) {
			ovni_proc_fini();
		} else if (!strcmp(op, "barrier")) {
			if (bar_ready)
				pthread_barrier_wait(&bar);
		} else if (!strcmp(op, "spawn")) {
			pthread_t th[MAXT];
			int n = nscripts - 1;
			if (n > 0) {
				pthread_barrier_init(&bar, NULL, (unsigned) n);
				bar_ready = 1;
				for (int k = 1; k <= n; k++)
					if (pthread_create(&th[k], NULL, run_thread, &scripts[k]) != 0) {
						fprintf(stderr, "attrdrive: pthread_create failed\n");
						_exit(2);
					}
				for (int k = 1; k <= n; k++)
					pthread_join(th[k], NULL);
			}
		} else {
			fprintf(stderr, "attrdrive: unknown op '%s'\n", op);
			_exit(2);
		}
		fprintf(sc->log, "{\"i\":%d,\"op\":\"%s\",\"ret\":", i, op);
		if (isint) {
			fprintf(sc->log, "%ld", ri);
		} else if (isdbl) {
			fprintf(sc->log, "\"%.17g\"", rd);
		} else if (ishex) {
			if (rs == NULL)
				fprintf(sc->log, "\"NULL\"");
			else
				loghex(sc->log, rs);
		} else {
			fprintf(sc->log, "null");
		}
		fprintf(sc->log, "}\n");
		fflush(sc->log);
		free(owned);
	}
	return 0;
}

static void *run_thread(void *arg)
{
	struct script *sc = arg;
	pthread_barrier_wait(&bar);
	run_script(sc);
	return NULL;
}

int main(int argc, char *argv[])
{
	if (argc < 3 || argc - 2 > MAXT) {
		fprintf(stderr, "usage: attrdrive logprefix script0 [script1 ...]\n");
		return 2;
	}
	nscripts = argc - 2;
	for (int k = 0; k < nscripts; k++) {
		scripts[k].idx = k;
		if (parse(argv[2 + k], &scripts[k]) != 0) {
			fprintf(stderr, "attrdrive: cannot parse %s\n", argv[2 + k]);
			return 2;
		}
		char path[4096];
		snprintf(path, sizeof(path), "%s.%d", argv[1], k);
		scripts[k].log = fopen(path, "w");
		if (!scripts[k].log) {
			perror(path);
			return 2;
		}
	}
	run_script(&scripts[0]);
	for (int k = 0; k < nscripts; k++)
		fclose(scripts[k].log);
	return 0;
}
