------------------------------- MODULE ChanPrv -------------------------------
(* Implementation layer of the emulator's channel/output path that Bay.tla
   does not cover, written call by call like the C code:

     src/emu/chan.c    chan_set / chan_push / chan_pop / chan_flush on a
                       CHAN_STACK channel "st" and a CHAN_SINGLE channel "sg"
                       with the properties CHAN_DIRTY_WRITE, CHAN_ALLOW_DUP,
                       CHAN_IGNORE_DUP (duplicate rule against last_value,
                       "cannot modify dirty channel", stack limit, pop with
                       the expected value, wrong call for the channel type);
     src/emu/bay.c     bay_propagate(): dirty phase (callbacks of the dirty
                       channels in the order they became dirty, the list may
                       grow), emit phase (BAY_CB_EMIT callbacks), flush phase;
     src/emu/pv/prv.c  prv_register (flag check, (row,type) id already in the
                       hash table), emit(), prv_advance, prv_close (header);
     src/emu/track.c   track_connect_thread(): TRACK_TH_ANY follows the input
                       itself, TRACK_TH_RUN / TRACK_TH_ACT put a one-input mux
                       (thread_select_running / thread_select_active, default
                       null) between the thread state channel "ts" and the
                       input; track_set_select/track_set_input with the default
                       selection ("cpu": select "cs", inputs st and sg).

   One action per API call; the outcome of every call (0 = ok, -1 = refused)
   and the channel contents after it are part of the behaviour and exported.
   A failed bay_propagate leaves the bay unusable (as in the emulator, which
   exits): only prv_close can follow.

   Property layer (independent of the operational text of emit()):
     Filter          the lines of a registration are exactly the sequence of
                     values the channel showed at the propagates in which it
                     was dirty, filtered by the flag rules;
     TimesSorted     times never decrease in the file;
     StackDiscipline value shown = top or null, pop returns to the value shown
                     before the matching push;
     step properties a refused call changes nothing; pop only removes the
                     expected value; header = time of the last accepted
                     prv_advance; tracking view out = input if the thread state
                     satisfies the mode else null.                          *)
EXTENDS Naturals, Integers, Sequences, FiniteSets, TLC, Json

CONSTANTS StackMax,    \* MAX_CHAN_STACK (512 in chan.h; small in the exhaustive configurations)
          NRows,       \* nrows given to prv_open_file
          Variant,     \* "code" or the name of a deliberately wrong variant (negative configurations)
          Tracks,      \* subset of {"any", "run", "act", "cpu"}: tracking modes wired over st
          Record,      \* keep the full histories (log, seen): TRUE for export/history configurations
          Setups       \* the experiments; a behaviour picks one.  A setup is a record of INPUTS only:
                       \*   calls    alphabet of channel calls <<op, chan, value>> (op: set push pop flush)
                       \*   advs     allowed prv_advance steps relative to the current prv time
                       \*   props    [{"st","sg"} -> [dw, ad, id : BOOLEAN]]
                       \*   plan     sequence of prv_register calls <<target, row, type, flags>>
                       \*   prefix   scripted calls executed first (outcomes are computed as usual)
                       \*   maxev    free events (an event ends with bay_propagate)
                       \*   maxcalls free channel calls per event

Null == -9             \* value_null(); every other integer v is value_int64(v)

\* enum prv_flags
EMITDUP == 1  SKIPDUP == 2  NEXT == 4  ZERO == 8  SKIPDUPNULL == 16
Has(f, b) == (f \div b) % 2 = 1

\* enum thread_state
TH_RUNNING == 1  TH_COOLING == 4  TH_WARMING == 5

-----------------------------------------------------------------------------
(* channels and wiring *)
Base     == {"st", "sg"}
MuxTr    == Tracks \ {"any"}                      \* tracks that own a mux and an output channel
SelChans == (IF MuxTr \cap {"run", "act"} # {} THEN {"ts"} ELSE {}) \cup
            (IF "cpu" \in MuxTr THEN {"cs"} ELSE {})
Chans    == Base \cup SelChans \cup MuxTr         \* the output channel of track t is named t
ChanSeq  == SelectSeq(<<"st", "sg", "ts", "cs", "run", "act", "cpu">>, LAMBDA c : c \in Chans)
Type(c)  == IF c = "st" THEN "stack" ELSE "single"
TrackSel(t)    == IF t = "cpu" THEN "cs" ELSE "ts"
TrackInputs(t) == IF t = "cpu" THEN <<"st", "sg">> ELSE <<"st">>
\* track_get_output(): TRACK_TH_ANY hands out the input channel itself
OutOf(target)  == IF target = "any" THEN "st" ELSE target
\* cb_select callbacks of a select channel, in the order the tracks were connected
TrackOrder == SelectSeq(<<"run", "act", "cpu">>, LAMBDA t : t \in MuxTr)
SelCbs(c)  == SelectSeq(TrackOrder, LAMBDA t : TrackSel(t) = c)

PNone == [dw |-> FALSE, ad |-> FALSE, id |-> FALSE]
PMux  == [dw |-> TRUE,  ad |-> TRUE,  id |-> FALSE]   \* mux_init sets both on its output

VARIABLES su,        \* the setup of this behaviour (never changes)
          props,     \* [Chans -> [dw, ad, id]]              chan->prop[]
          nreg,      \* how many of them were made
          data,      \* [Chans -> value | Seq(value)]        chan->data (stack: bottom first)
          lastv,     \* [Chans -> value]                     chan->last_value
          isdirty,   \* [Chans -> BOOLEAN]                   chan->is_dirty
          dlist,     \* bay->dirty: channels in the order they became dirty
          sel,       \* [MuxTr -> 0 | input index]           mux->selected (0: no input callback enabled)
          incbs,     \* [Base -> Seq(<<track, input>>)]      enabled cb_input callbacks in list order
          regs,      \* accepted registrations in order: [chan,row,type,flags,lvset,lv]   struct prv_chan
          ptime,     \* prv->time
          lines,     \* body of the .prv file: <<row+1, time, type, value>>
          header,    \* duration in the header line of the file
          failed,    \* a bay_propagate failed
          closed,    \* prv_close was called
          nev, ncalls, fcalls, advd, pfx,     \* bookkeeping of the bounds
          undo,      \* ghost: value st showed before each push still on the stack
          lastseen,  \* ghost: [registration -> <<seen before, value>>] value at its last propagate
          seen,      \* ghost: [registration -> Seq(<<time, value>>)] full history of the above
          touched,   \* ghost: channels on the dirty list at the last emit phase
          lastadv,   \* ghost: time of the last accepted prv_advance
          last,      \* ghost: the call just made [op, c, v, ok]
          log        \* ghost: all calls with outcome and observation (export)

chanvars == <<data, lastv, isdirty, dlist, sel, incbs>>
prvvars  == <<regs, ptime, lines, header>>
vars == <<su, props, nreg, data, lastv, isdirty, dlist, sel, incbs, regs, ptime, lines, header,
          failed, closed, nev, ncalls, fcalls, advd, pfx, undo, lastseen, seen, touched, lastadv, last, log>>

Visible(d, c) == IF Type(c) = "stack"
                 THEN (IF d[c] = <<>> THEN Null ELSE d[c][Len(d[c])])     \* chan_read: top or null
                 ELSE d[c]
Depth(d, c)   == IF Type(c) = "stack" THEN Len(d[c]) ELSE 0
Front(s)      == SubSeq(s, 1, Len(s) - 1)
Remove(s, x)  == SelectSeq(s, LAMBDA y : y # x)
IsIn(s, x)    == \E i \in 1..Len(s) : s[i] = x
Rec(h, x)     == IF Record THEN Append(h, x) ELSE h

-----------------------------------------------------------------------------
(* chan.c -- s = [data, lastv, isdirty, dlist, sel, incbs, ok]; ok = FALSE is "return -1" *)
Refuse(s) == [s EXCEPT !.ok = FALSE]

\* set_dirty() + the bay's cb_chan_is_dirty (DL_APPEND to bay->dirty)
SetDirty(s, c) ==
   IF s.isdirty[c]
   THEN (IF props[c].dw THEN s ELSE Refuse(s))
   ELSE [s EXCEPT !.isdirty[c] = TRUE, !.dlist = Append(@, c)]

ChanSet(s, c, v) ==
   IF Type(c) # "single" THEN Refuse(s)                                   \* cannot set on non-single channel
   ELSE IF s.isdirty[c] /\ ~props[c].dw THEN Refuse(s)                     \* cannot modify dirty channel
   ELSE IF ~props[c].ad /\ s.lastv[c] = v
        THEN (IF props[c].id THEN s ELSE Refuse(s))                       \* same value as last_value
   ELSE SetDirty([s EXCEPT !.data[c] = v], c)

ChanPush(s, c, v) ==
   IF Type(c) # "stack" THEN Refuse(s)
   ELSE IF s.isdirty[c] /\ ~props[c].dw THEN Refuse(s)
   ELSE IF ~props[c].ad /\ s.lastv[c] = v
        THEN (IF props[c].id THEN s ELSE Refuse(s))
   ELSE IF (IF Variant = "limit_off" THEN Len(s.data[c]) > StackMax        \* negative: off by one
                                     ELSE Len(s.data[c]) >= StackMax)
        THEN Refuse(s)                                                    \* channel stack full
   ELSE SetDirty([s EXCEPT !.data[c] = Append(@, v)], c)

ChanPop(s, c, v) ==
   IF Type(c) # "stack" THEN Refuse(s)
   ELSE IF s.isdirty[c] /\ ~props[c].dw THEN Refuse(s)
   ELSE IF s.data[c] = <<>> THEN Refuse(s)                                \* channel stack empty
   ELSE IF Variant # "pop_nocheck" /\ s.data[c][Len(s.data[c])] # v        \* negative: expected value ignored
        THEN Refuse(s)
   ELSE SetDirty([s EXCEPT !.data[c] = Front(@)], c)                      \* no duplicate rule on pop

ChanFlush(s, c) ==
   IF ~s.isdirty[c] THEN Refuse(s)                                        \* channel is not dirty
   ELSE [s EXCEPT !.lastv[c] = Visible(s.data, c), !.isdirty[c] = FALSE]

-----------------------------------------------------------------------------
(* mux.c as wired by track.c *)
\* selection function of a track: input index, 0 = nothing, -1 = error
SelFunc(t, v) ==
   IF v = Null THEN 0
   ELSE IF t = "run" THEN (IF v = TH_RUNNING THEN 1 ELSE 0)                          \* thread_select_running
   ELSE IF t = "act" THEN (IF v \in {TH_RUNNING, TH_COOLING, TH_WARMING} THEN 1 ELSE 0)  \* thread_select_active
   ELSE IF v < 0 \/ v >= Len(TrackInputs(t)) THEN -1 ELSE v + 1                      \* default_select

CbSelect(s, t) ==
   LET v   == Visible(s.data, TrackSel(t))
       old == s.sel[t]
       s1  == IF old > 0                                                 \* bay_disable_cb of the old input
              THEN [s EXCEPT !.incbs[TrackInputs(t)[old]] = Remove(@, <<t, old>>), !.sel[t] = 0]
              ELSE s
       new == IF Variant = "track_swap" /\ t \in {"run", "act"}          \* negative: RUN and ACT exchanged
              THEN SelFunc(IF t = "run" THEN "act" ELSE "run", v)
              ELSE SelFunc(t, v)
   IN  IF new < 0 THEN Refuse(s1)
       ELSE LET s2 == IF new > 0                                         \* bay_enable_cb: appended to the list
                      THEN [s1 EXCEPT !.incbs[TrackInputs(t)[new]] = Append(@, <<t, new>>), !.sel[t] = new]
                      ELSE s1
                outv == IF new > 0 THEN Visible(s2.data, TrackInputs(t)[new]) ELSE Null   \* mux->def is null
            IN  ChanSet(s2, t, outv)

CbInput(s, cb) == ChanSet(s, cb[1], Visible(s.data, TrackInputs(cb[1])[cb[2]]))

RECURSIVE RunSelCbs(_, _, _)
RunSelCbs(s, l, j) == IF j > Len(l) \/ ~s.ok THEN s ELSE RunSelCbs(CbSelect(s, l[j]), l, j + 1)
RECURSIVE RunInCbs(_, _, _)
RunInCbs(s, l, j) == IF j > Len(l) \/ ~s.ok THEN s ELSE RunInCbs(CbInput(s, l[j]), l, j + 1)

\* bay_propagate, BAY_CB_DIRTY pass over a list that may grow
RECURSIVE DirtyPhase(_, _)
DirtyPhase(s, k) ==
   IF k > Len(s.dlist) \/ ~s.ok THEN s
   ELSE LET c == s.dlist[k] IN
        IF c \in SelChans THEN DirtyPhase(RunSelCbs(s, SelCbs(c), 1), k + 1)
        ELSE IF c \in Base THEN DirtyPhase(RunInCbs(s, s.incbs[c], 1), k + 1)
        ELSE DirtyPhase(s, k + 1)

-----------------------------------------------------------------------------
(* prv.c *)
FlagsOk(f) == /\ ~(Has(f, EMITDUP) /\ Has(f, SKIPDUPNULL))
              /\ ~(Has(f, EMITDUP) /\ Has(f, SKIPDUP))
              /\ ~(Has(f, SKIPDUP) /\ Has(f, SKIPDUPNULL))
Id(row, ty) == ty * NRows + row                                          \* get_id

\* emit() for registration i; p = [regs, lines, ok]; d = channel contents
Emit(p, d, i) ==
   LET r  == p.regs[i]
       v  == Visible(d, r.chan)
       f  == r.flags
       ref == IF Variant = "skipdup_chanlast" THEN <<TRUE, lastv[r.chan]>>   \* negative: compares with the
              ELSE <<r.lvset, r.lv>>                                         \*   channel's last_value
       dup == ref[1] /\ ref[2] = v                                        \* is_value_dup
       p1 == IF Has(f, EMITDUP) THEN p
             ELSE [p EXCEPT !.regs[i].lv = v, !.regs[i].lvset = TRUE]
       out == IF v = Null THEN (IF Variant = "next_null" /\ Has(f, NEXT) THEN 1 ELSE 0)   \* negative: NEXT on null
              ELSE IF Has(f, NEXT) THEN v + 1 ELSE v
   IN  IF ~Has(f, EMITDUP) /\ dup /\ Has(f, SKIPDUP) THEN p
       ELSE IF ~Has(f, EMITDUP) /\ dup /\ Has(f, SKIPDUPNULL) /\ v = Null THEN p
       ELSE IF ~Has(f, EMITDUP) /\ dup /\ ~Has(f, SKIPDUP) /\ ~Has(f, SKIPDUPNULL)
            THEN [p EXCEPT !.ok = FALSE]                                   \* error duplicated value
       ELSE IF v # Null /\ ~Has(f, ZERO) /\ out = 0
            THEN [p1 EXCEPT !.ok = FALSE]                                  \* forbidden value 0
       ELSE [p1 EXCEPT !.lines = Append(@, <<r.row + 1, ptime, r.type, out>>)]

\* BAY_CB_EMIT pass: dirty channels in list order, their registrations in registration order
RECURSIVE EmitRegs(_, _, _, _)
EmitRegs(p, d, c, i) ==
   IF i > Len(p.regs) \/ ~p.ok THEN p
   ELSE EmitRegs(IF p.regs[i].chan = c THEN Emit(p, d, i) ELSE p, d, c, i + 1)
RECURSIVE EmitPhase(_, _, _, _)
EmitPhase(p, d, dl, k) ==
   IF k > Len(dl) \/ ~p.ok THEN p ELSE EmitPhase(EmitRegs(p, d, dl[k], 1), d, dl, k + 1)

RECURSIVE FlushPhase(_, _)
FlushPhase(s, k) ==
   IF k > Len(s.dlist) \/ ~s.ok THEN s ELSE FlushPhase(ChanFlush(s, s.dlist[k]), k + 1)

-----------------------------------------------------------------------------
Obs(d, lv, dt, c) == <<c, Visible(d, c), lv[c], IF dt[c] THEN 1 ELSE 0, Depth(d, c)>>
ObsAll(d, lv, dt) == [j \in 1..Len(ChanSeq) |-> Obs(d, lv, dt, ChanSeq[j])]

Init ==
   /\ su \in Setups
   /\ props = [c \in Chans |-> IF c \in Base THEN su.props[c] ELSE IF c \in MuxTr THEN PMux ELSE PNone]
   /\ nreg = 0
   /\ data = [c \in Chans |-> IF Type(c) = "stack" THEN <<>> ELSE Null]
   /\ lastv = [c \in Chans |-> Null]
   /\ isdirty = [c \in Chans |-> FALSE]
   /\ dlist = <<>>
   /\ sel = [t \in MuxTr |-> 0]     \* (mux_init leaves selected = 0 with input 0 disabled: same thing)
   /\ incbs = [c \in Base |-> <<>>]
   /\ regs = <<>> /\ ptime = 0 /\ lines = <<>> /\ header = 0
   /\ failed = FALSE /\ closed = FALSE
   /\ nev = 0 /\ ncalls = 0 /\ fcalls = 0 /\ advd = FALSE /\ pfx = 0
   /\ undo = <<>> /\ lastseen = <<>> /\ seen = <<>> /\ touched = {} /\ lastadv = 0
   /\ last = [op |-> "init", c |-> "", v |-> 0, ok |-> TRUE] /\ log = <<>>

plan     == su.plan
Prefix   == su.prefix
Running  == nreg = Len(plan) /\ ~closed
InPrefix == pfx < Len(Prefix)

\* prv_register(prv, row, type, bay, chan, flags)
Register ==
   /\ nreg < Len(plan)
   /\ LET rc == plan[nreg + 1]
          exists == \E i \in 1..Len(regs) : Id(regs[i].row, regs[i].type) = Id(rc[2], rc[3])   \* find_prv_chan
          ok == ~exists /\ FlagsOk(rc[4])
      IN  /\ regs' = IF ok THEN Append(regs, [chan |-> OutOf(rc[1]), row |-> rc[2], type |-> rc[3],
                                              flags |-> rc[4], lvset |-> FALSE, lv |-> Null])
                           ELSE regs
          /\ lastseen' = IF ok THEN Append(lastseen, <<FALSE, Null>>) ELSE lastseen
          /\ seen' = IF ok THEN Append(seen, <<>>) ELSE seen
          /\ last' = [op |-> "R", c |-> rc[1], v |-> rc[4], ok |-> ok]
          /\ log' = Rec(log, <<"R", rc[1], rc[2], rc[3], rc[4], ok>>)
   /\ nreg' = nreg + 1
   /\ UNCHANGED <<su, props, chanvars, ptime, lines, header, failed, closed, nev, ncalls, fcalls, advd, pfx,
                  undo, touched, lastadv>>

\* chan_set / chan_push / chan_pop / chan_flush called from outside the bay
ChanCall(op, c, v) ==
   /\ Running /\ ~failed
   /\ IF InPrefix THEN Prefix[pfx + 1] = <<op, c, v>>
                  ELSE <<op, c, v>> \in su.calls /\ fcalls < su.maxcalls /\ nev < su.maxev
   /\ op = "flush" => ~isdirty[c]       \* (a direct flush of a channel on the bay's dirty list is not modelled)
   /\ LET s0 == [data |-> data, lastv |-> lastv, isdirty |-> isdirty, dlist |-> dlist,
                 sel |-> sel, incbs |-> incbs, ok |-> TRUE]
          s  == CASE op = "set"   -> ChanSet(s0, c, v)
                  [] op = "push"  -> ChanPush(s0, c, v)
                  [] op = "pop"   -> ChanPop(s0, c, v)
                  [] op = "flush" -> ChanFlush(s0, c)
      IN  /\ data' = s.data /\ lastv' = s.lastv /\ isdirty' = s.isdirty /\ dlist' = s.dlist
          /\ undo' = IF c # "st" THEN undo
                     ELSE IF Len(s.data[c]) = Len(data[c]) + 1 THEN Append(undo, Visible(data, c))
                     ELSE IF Len(s.data[c]) = Len(data[c]) - 1 THEN Front(undo)
                     ELSE undo
          /\ last' = [op |-> op, c |-> c, v |-> v, ok |-> s.ok]
          /\ log' = Rec(log, <<op, c, v, s.ok, <<Obs(s.data, s.lastv, s.isdirty, c)>> >>)
   /\ ncalls' = ncalls + 1
   /\ IF InPrefix THEN pfx' = pfx + 1 /\ fcalls' = fcalls ELSE pfx' = pfx /\ fcalls' = fcalls + 1
   /\ UNCHANGED <<su, props, nreg, sel, incbs, prvvars, failed, closed, nev, advd, lastseen, seen, touched, lastadv>>

\* bay_propagate(bay)
Propagate ==
   /\ Running /\ ~failed
   /\ IF InPrefix THEN Prefix[pfx + 1] = <<"P", "", 0>> ELSE ncalls > 0
   /\ LET s0 == [data |-> data, lastv |-> lastv, isdirty |-> isdirty, dlist |-> dlist,
                 sel |-> sel, incbs |-> incbs, ok |-> TRUE]
          s  == DirtyPhase(s0, 1)
          p0 == [regs |-> regs, lines |-> lines, ok |-> s.ok]
          p  == IF s.ok THEN EmitPhase(p0, s.data, s.dlist, 1) ELSE p0
          f  == IF p.ok THEN FlushPhase(s, 1) ELSE Refuse(s)
          ok == f.ok
          hit(i) == IsIn(s.dlist, regs[i].chan)
      IN  /\ data' = f.data /\ lastv' = f.lastv /\ isdirty' = f.isdirty
          /\ dlist' = IF ok THEN <<>> ELSE f.dlist
          /\ sel' = f.sel /\ incbs' = f.incbs
          /\ regs' = p.regs /\ lines' = p.lines
          /\ failed' = ~ok
          /\ touched' = {s.dlist[k] : k \in 1..Len(s.dlist)}
          /\ lastseen' = IF ok THEN [i \in 1..Len(regs) |->
                                       IF hit(i) THEN <<TRUE, Visible(s.data, regs[i].chan)>> ELSE lastseen[i]]
                         ELSE lastseen
          /\ seen' = IF ok THEN [i \in 1..Len(regs) |->
                                   IF hit(i) THEN Rec(seen[i], <<ptime, Visible(s.data, regs[i].chan)>>)
                                   ELSE seen[i]]
                     ELSE seen
          /\ last' = [op |-> "P", c |-> "", v |-> 0, ok |-> ok]
          /\ log' = Rec(log, <<"P", "", 0, ok, ObsAll(f.data, f.lastv, f.isdirty)>>)
   /\ ncalls' = 0 /\ fcalls' = 0 /\ advd' = FALSE
   /\ IF InPrefix THEN pfx' = pfx + 1 /\ nev' = nev ELSE pfx' = pfx /\ nev' = nev + 1
   /\ UNCHANGED <<su, props, nreg, ptime, header, closed, undo, lastadv>>

\* prv_advance(prv, ptime + d), at most once at the start of an event (as recorder_advance does)
Advance(d) ==
   /\ Running /\ ~failed /\ ~InPrefix /\ ncalls = 0 /\ ~advd /\ d \in su.advs
   /\ LET t  == ptime + d
          ok == IF Variant = "advance_back" THEN TRUE ELSE ~(t < ptime)   \* negative: goes back silently
      IN  /\ ptime' = IF ok THEN t ELSE ptime
          /\ lastadv' = IF ok THEN t ELSE lastadv
          /\ last' = [op |-> "A", c |-> "", v |-> t, ok |-> ok]
          /\ log' = Rec(log, <<"A", t, ok>>)
   /\ advd' = TRUE
   /\ UNCHANGED <<su, props, nreg, chanvars, regs, lines, header, failed, closed, nev, ncalls, fcalls, pfx,
                  undo, lastseen, seen, touched>>

\* prv_close(prv): the header is rewritten with the current time
Close ==
   /\ Running /\ ~InPrefix /\ (failed \/ ncalls = 0)
   /\ header' = IF Variant = "header_stale" THEN (IF lines = <<>> THEN 0 ELSE lines[Len(lines)][2])
                ELSE ptime                       \* negative: time of the last line instead of prv->time
   /\ closed' = TRUE
   /\ last' = [op |-> "C", c |-> "", v |-> 0, ok |-> TRUE]
   /\ log' = Rec(log, <<"C">>)
   /\ UNCHANGED <<su, props, nreg, chanvars, regs, ptime, lines, failed, nev, ncalls, fcalls, advd, pfx,
                  undo, lastseen, seen, touched, lastadv>>

Next == \/ Register
        \/ IF InPrefix THEN Prefix[pfx + 1][1] # "P" /\ ChanCall(Prefix[pfx + 1][1], Prefix[pfx + 1][2], Prefix[pfx + 1][3])
                       ELSE \E call \in su.calls : ChanCall(call[1], call[2], call[3])
        \/ Propagate
        \/ \E d \in su.advs : Advance(d)
        \/ Close
Spec == Init /\ [][Next]_vars

-----------------------------------------------------------------------------
(* property layer *)
Quiescent == Running /\ ~failed /\ dlist = <<>>

TypeOK == /\ \A c \in Chans : Depth(data, c) <= StackMax
          /\ \A c \in Chans : isdirty[c] <=> IsIn(dlist, c)
          /\ \A i \in 1..Len(dlist), j \in 1..Len(dlist) : i # j => dlist[i] # dlist[j]
DirtyListDrains == (Running /\ ~failed /\ ncalls = 0) => dlist = <<>>
\* after a flush the remembered value is the value shown
FlushedIsShown == \A c \in Chans : ~isdirty[c] /\ ~failed => lastv[c] = Visible(data, c)

\* stack discipline: undo[k] is the value shown before the k-th value still on the stack was pushed,
\* i.e. the value that must be shown again when it is popped
StackDiscipline == /\ Len(undo) = Len(data["st"])
                   /\ \A k \in 1..Len(undo) : undo[k] = IF k = 1 THEN Null ELSE data["st"][k - 1]

\* tracking view (the C06 view for the thread tracking modes and the CPU mux)
ModeOk(t, v) == IF t = "run" THEN v = TH_RUNNING ELSE v \in {TH_RUNNING, TH_COOLING, TH_WARMING}
TrackView ==
   Quiescent =>
      /\ \A t \in MuxTr \cap {"run", "act"} :
            data[t] = IF data["ts"] # Null /\ ModeOk(t, data["ts"]) THEN Visible(data, "st") ELSE Null
      /\ "cpu" \in MuxTr =>
            data["cpu"] = IF data["cs"] = 0 THEN Visible(data, "st")
                          ELSE IF data["cs"] = 1 THEN Visible(data, "sg") ELSE Null
      /\ \A t \in MuxTr : \A c \in Base :
            IsIn(incbs[c], <<t, sel[t]>>) <=> (sel[t] > 0 /\ TrackInputs(t)[sel[t]] = c)

\* the file: times never go back, nothing is later than the prv clock, header = last accepted advance
TimesSorted == /\ \A i \in 1..Len(lines) : lines[i][2] <= ptime
               /\ \A i \in 1..Len(lines) - 1 : lines[i][2] <= lines[i + 1][2]
HeaderIsLastAdvance == /\ ptime = lastadv
                       /\ closed => header = lastadv
                       /\ ~closed => header = 0
RegsDistinct == \A i \in 1..Len(regs), j \in 1..Len(regs) :
                   i # j => Id(regs[i].row, regs[i].type) # Id(regs[j].row, regs[j].type)

\* which of the values shown must produce a line, and which value it carries
OutVal(f, v) == IF v = Null THEN 0 ELSE IF Has(f, NEXT) THEN v + 1 ELSE v
Keep(f, first, prev, v) == \/ Has(f, EMITDUP)
                           \/ first \/ prev # v
                           \/ (Has(f, SKIPDUPNULL) /\ v # Null)
LinesOf(r, ls) == SelectSeq(ls, LAMBDA l : l[1] = r.row + 1 /\ l[3] = r.type)
RECURSIVE Filtered(_, _, _)
Filtered(r, sq, i) ==
   IF i > Len(sq) THEN <<>>
   ELSE (IF Keep(r.flags, i = 1, IF i = 1 THEN Null ELSE sq[i - 1][2], sq[i][2])
         THEN << <<r.row + 1, sq[i][1], r.type, OutVal(r.flags, sq[i][2])>> >> ELSE <<>>)
        \o Filtered(r, sq, i + 1)
\* (full histories: sound only in configurations without a VIEW)
Filter == ~failed =>
   \A i \in 1..Len(regs) :
      /\ LinesOf(regs[i], lines) = Filtered(regs[i], seen[i], 1)
      /\ \A k \in 1..Len(seen[i]) :
            /\ (~Has(regs[i].flags, ZERO) /\ seen[i][k][2] # Null) => OutVal(regs[i].flags, seen[i][k][2]) # 0
            /\ (k > 1 /\ regs[i].flags \in {0, NEXT, ZERO, NEXT + ZERO}) => seen[i][k][2] # seen[i][k - 1][2]
LogHeader == closed => header = (LET adv == SelectSeq(log, LAMBDA e : e[1] = "A" /\ e[3])
                                 IN IF adv = <<>> THEN 0 ELSE adv[Len(adv)][2])

\* step properties (checked on every transition, also under a VIEW)
RefusedUnchanged ==
   (~last'.ok /\ last'.op # "P") => UNCHANGED <<chanvars, prvvars, undo>>
PopChecksTop ==
   (last'.op = "pop" /\ last'.ok) =>
      /\ Type(last'.c) = "stack" /\ data[last'.c] # <<>>
      /\ Visible(data, last'.c) = last'.v                      \* the expected value was the one shown
      /\ last'.c = "st" => Visible(data', "st") = undo[Len(undo)]   \* back to the value before its push
PushShows ==
   (last'.op = "push" /\ last'.ok /\ Depth(data', last'.c) # Depth(data, last'.c)) =>
      Visible(data', last'.c) = last'.v /\ Depth(data', last'.c) = Depth(data, last'.c) + 1
NewLines == SubSeq(lines', Len(lines) + 1, Len(lines'))
EmitStep ==
   /\ Len(lines') >= Len(lines) /\ SubSeq(lines', 1, Len(lines)) = lines       \* the file only grows
   /\ \A k \in 1..Len(NewLines) : NewLines[k][2] = ptime                        \* at the current prv time
   /\ last'.op # "P" => lines' = lines
   /\ (last'.op = "P" /\ last'.ok) =>
         \A i \in 1..Len(regs) :
            LinesOf(regs[i], NewLines) =
               IF regs[i].chan \in touched' /\
                  Keep(regs[i].flags, ~lastseen[i][1], lastseen[i][2], Visible(data', regs[i].chan))
               THEN << <<regs[i].row + 1, ptime, regs[i].type,
                         OutVal(regs[i].flags, Visible(data', regs[i].chan))>> >>
               ELSE <<>>
TimeStep == ptime' >= ptime
StepOk == RefusedUnchanged /\ PopChecksTop /\ PushShows /\ EmitStep /\ TimeStep
StepProps == [][StepOk]_vars

-----------------------------------------------------------------------------
(* model checking helpers *)
\* histories are ghosts: states with the same contents behave alike
MCView == <<su, props, nreg, data, lastv, isdirty, dlist, sel, incbs, regs, ptime, header,
            failed, closed, nev, ncalls, fcalls, advd, pfx, undo, lastseen, lastadv>>

\* complete call sequences with the expected outcome of every call, the expected
\* channel contents after it, and the expected file
Export == (closed' /\ ~closed) =>
             PrintT(<<"TR", ToJson([tracks |-> Tracks, nrows |-> NRows,
                                    props |-> [c \in Base |-> <<props[c].dw, props[c].ad, props[c].id>>],
                                    calls |-> log', lines |-> lines', header |-> header',
                                    failed |-> failed'])>>)

-----------------------------------------------------------------------------
(* inputs: alphabets, property sets, registration plans, scripted prefixes, setups *)
P(dw, ad, id) == [dw |-> dw, ad |-> ad, id |-> id]
PropKinds == {P(FALSE, FALSE, FALSE), P(TRUE, FALSE, FALSE), P(FALSE, TRUE, FALSE), P(TRUE, TRUE, FALSE),
              P(FALSE, FALSE, TRUE), P(TRUE, FALSE, TRUE)}
PropKinds7 == PropKinds \cup {P(FALSE, TRUE, TRUE)}          \* ALLOW_DUP wins over IGNORE_DUP
PropsSame  == {[c \in Base |-> p] : p \in PropKinds}
PropsSame7 == {[c \in Base |-> p] : p \in PropKinds7}
PropsAll   == [Base -> PropKinds7]
PropsPlain == {[c \in Base |-> P(FALSE, FALSE, FALSE)]}
PropsLoose == {[c \in Base |-> P(TRUE, TRUE, FALSE)]}
PropsDW    == {[c \in Base |-> P(TRUE, FALSE, FALSE)], [c \in Base |-> P(TRUE, TRUE, FALSE)]}
PropsFew   == {[c \in Base |-> p] : p \in {P(FALSE, FALSE, FALSE), P(TRUE, TRUE, FALSE), P(TRUE, FALSE, TRUE)}}

ValidFlags == {f \in 0..31 : FlagsOk(f)}
SomeFlags  == {0, EMITDUP, SKIPDUP, SKIPDUPNULL, NEXT, ZERO + SKIPDUP, NEXT + ZERO + SKIPDUPNULL}
BadFlags   == {EMITDUP + SKIPDUP, EMITDUP + SKIPDUPNULL + ZERO, SKIPDUP + SKIPDUPNULL + NEXT, 31}
\* both channels registered with the same flags on rows 0 and 1
PlansBoth(F) == {<< <<"st", 0, 7, f>>, <<"sg", 1, 7, f>> >> : f \in F}
PlansOne(c, F) == {<< <<c, 0, 7, f>> >> : f \in F}
PlansSpecial ==
   { << <<"st", 0, 7, SKIPDUP>>, <<"sg", 0, 7, SKIPDUP>> >>,                \* same (row,type): second refused
     << <<"st", 0, 7, EMITDUP + SKIPDUP>>, <<"st", 0, 7, SKIPDUP>> >>,      \* refused flags leave the id free
     << <<"st", 0, 7, SKIPDUP>>, <<"st", 0, 8, EMITDUP + NEXT>>, <<"sg", 1, 7, SKIPDUPNULL + ZERO>> >>,
                                                                           \* one channel under two types
     << <<"st", 1, 7, SKIPDUP + ZERO>>, <<"sg", 0, 8, SKIPDUP + ZERO>> >>,  \* distinct ids: both accepted
     << >> }                                                               \* nothing registered
PlanQuiet == { << <<"st", 0, 7, SKIPDUP + ZERO>>, <<"sg", 1, 7, EMITDUP + ZERO>> >> }   \* emit never fails
PlansTrack(F) == {<< <<"any", 0, 7, f>>, <<"run", 0, 8, f>>, <<"act", 0, 9, f>> >> : f \in F}
PlansCpu(F)   == {<< <<"cpu", 0, 7, f>>, <<"any", 1, 7, f>> >> : f \in F}

PushPop(V) == {<<op, "st", v>> : op \in {"push", "pop"}, v \in V}
SetOn(c, V) == {<<"set", c, v>> : v \in V}
WrongSt == {<<"set", "st", 1>>, <<"flush", "st", 0>>}
WrongSg == {<<"push", "sg", 1>>, <<"pop", "sg", 1>>, <<"flush", "sg", 0>>}
CallsSt   == PushPop({1, 2}) \cup {<<"push", "st", Null>>} \cup WrongSt
CallsSg   == SetOn("sg", {Null, 1, 2}) \cup WrongSg
CallsMain == PushPop({Null, 1, 2}) \cup SetOn("sg", {Null, 0, 1}) \cup WrongSt \cup WrongSg
CallsAll  == PushPop({Null, 1, 2}) \cup SetOn("sg", {Null, -1, 0, 1, 2}) \cup WrongSt \cup WrongSg
CallsMix  == PushPop({1, 2}) \cup SetOn("sg", {Null, 0, 1})
CallsPrv  == SetOn("sg", {Null, -1, 0, 1})
CallsTrack == PushPop({1, 2}) \cup SetOn("ts", {Null, 1, 2, 4})
CallsTrackAll == PushPop({1, 2}) \cup SetOn("ts", {Null, 0, 1, 2, 3, 4, 5, 6})
CallsCpu  == PushPop({1, 2}) \cup SetOn("sg", {Null, 3}) \cup SetOn("cs", {Null, 0, 1, 2})

AdvsAll == {-1, 0, 1}
AdvsFwd == {0, 1}

NoPrefix == <<>>
\* fill the stack up to one below the limit: one event per push / all in one event
FillEvents == [i \in 1..2 * (StackMax - 1) |-> IF i % 2 = 1 THEN <<"push", "st", 1 + ((i \div 2) % 2)>>
                                                             ELSE <<"P", "", 0>>]
FillOnce   == [i \in 1..StackMax - 1 |-> <<"push", "st", 1 + (i % 2)>>]

Fam(C, A, PS, PL, pre, me, mc) ==
   {[calls |-> C, advs |-> A, props |-> p, plan |-> pl, prefix |-> pre, maxev |-> me, maxcalls |-> mc] :
       p \in PS, pl \in PL}

\* exhaustive checking (with VIEW)
CallsQuick   == PushPop({1, 2}) \cup {<<"push", "st", Null>>, <<"set", "st", 1>>, <<"push", "sg", 1>>, <<"flush", "sg", 0>>}
                \cup SetOn("sg", {Null, 0, 1})
SetupsMain   == Fam(CallsMain, AdvsAll, PropsSame, PlansBoth(SomeFlags) \cup PlansSpecial, NoPrefix, 4, 3)
SetupsQuick  == Fam(CallsQuick, AdvsAll, PropsSame, PlansBoth({SKIPDUP}), NoPrefix, 3, 2)
                \cup Fam(CallsQuick, AdvsFwd, PropsLoose \cup PropsPlain,
                         PlansBoth({0, SKIPDUPNULL + NEXT, EMITDUP + ZERO}) \cup PlansSpecial, NoPrefix, 3, 2)
SetupsTrack  == Fam(CallsTrack, AdvsFwd, PropsFew, PlansTrack({SKIPDUPNULL, SKIPDUP, 0}), NoPrefix, 4, 3)
                \cup Fam(CallsCpu, AdvsFwd, PropsFew, PlansCpu({SKIPDUPNULL}), NoPrefix, 3, 3)
SetupsTrackQ == Fam(CallsTrack, {1}, PropsLoose, PlansTrack({SKIPDUPNULL}), NoPrefix, 3, 2)
                \cup Fam(CallsCpu, {1}, PropsLoose, PlansCpu({SKIPDUPNULL}), NoPrefix, 2, 2)
\* small histories (no VIEW): full-history invariants, negative configurations
SetupsHist   == Fam(CallsMix, AdvsAll, PropsLoose, PlansBoth(SomeFlags), NoPrefix, 2, 2)
                \cup Fam(CallsSt, {}, PropsSame, PlanQuiet, NoPrefix, 2, 2)
SetupsNeg    == Fam(CallsMix, AdvsAll, PropsLoose, PlansBoth({SKIPDUP + ZERO, NEXT + EMITDUP}), NoPrefix, 2, 2)
SetupsNegTr  == Fam(CallsTrack, {}, PropsLoose, PlansTrack({SKIPDUPNULL}), NoPrefix, 2, 2)
\* exports replayed on the real code (quick / thorough)
SetupsExportQ ==
   Fam(PushPop({1, 2}), {}, PropsSame7, PlanQuiet, NoPrefix, 2, 2)                            \* chan.c, stack
   \cup Fam({<<"push", "st", Null>>, <<"push", "st", 1>>} \cup WrongSt, {}, PropsSame7, PlanQuiet, NoPrefix, 1, 2)
   \cup Fam(SetOn("sg", {Null, 1, 2}), {}, PropsSame7, PlanQuiet, NoPrefix, 2, 2)            \* chan.c, single
   \cup Fam(SetOn("sg", {1}) \cup WrongSg, {}, PropsSame7, PlanQuiet, NoPrefix, 1, 2)
   \cup Fam(PushPop({1, 2}), {}, PropsDW, PlanQuiet, NoPrefix, 1, 3)                         \* three calls, one event
   \cup Fam(SetOn("sg", {Null, 0, 1}), AdvsFwd, PropsLoose, PlansOne("sg", ValidFlags \cup BadFlags), NoPrefix, 2, 1)  \* prv.c
   \cup Fam(SetOn("sg", {Null, 0, 1}), {}, PropsLoose, PlansOne("sg", ValidFlags), NoPrefix, 3, 1)
   \cup Fam(SetOn("sg", {Null, -1}), {1}, PropsLoose, PlansOne("sg", {NEXT, NEXT + ZERO, NEXT + SKIPDUP}), NoPrefix, 2, 1)
   \cup Fam(SetOn("sg", {1}), {-1, 1}, PropsLoose, PlansOne("sg", {SKIPDUP}), NoPrefix, 2, 1)
   \cup Fam(CallsMix, {1}, PropsLoose, PlansSpecial, NoPrefix, 2, 1)
SetupsExport ==
   Fam(CallsSt, {}, PropsSame7, PlanQuiet, NoPrefix, 2, 2)
   \cup Fam(CallsSg, {}, PropsSame7, PlanQuiet, NoPrefix, 2, 2)
   \cup Fam(PushPop({1, 2}), {}, PropsDW, PlanQuiet, NoPrefix, 2, 3)
   \cup Fam(CallsPrv, AdvsAll, PropsLoose, PlansOne("sg", ValidFlags \cup BadFlags), NoPrefix, 2, 1)
   \cup Fam(SetOn("sg", {Null, 0, 1}), {1}, PropsLoose, PlansOne("sg", ValidFlags), NoPrefix, 3, 1)
   \cup Fam(CallsMix, AdvsFwd, PropsLoose, PlansSpecial, NoPrefix, 2, 1)
CallsTrackQ == {<<"push", "st", 1>>, <<"pop", "st", 1>>, <<"push", "st", 2>>} \cup SetOn("ts", {Null, 1, 2, 4})
CallsCpuQ   == {<<"push", "st", 1>>, <<"pop", "st", 1>>, <<"set", "sg", 3>>} \cup SetOn("cs", {Null, 0, 1, 2})
SetupsExportTrackQ ==
   Fam(CallsTrackQ, {}, PropsLoose, PlansTrack({SKIPDUPNULL}), NoPrefix, 2, 2)
   \cup Fam(CallsTrackAll, {}, PropsPlain, PlansTrack({SKIPDUP}), NoPrefix, 2, 1)
   \cup Fam(CallsCpuQ, {}, PropsLoose, PlansCpu({SKIPDUPNULL}), NoPrefix, 2, 2)
SetupsExportTrack ==
   Fam(CallsTrack, {}, PropsFew, PlansTrack({SKIPDUPNULL}), NoPrefix, 2, 2)
   \cup Fam(CallsTrackAll, {}, PropsLoose, PlansTrack({SKIPDUP}), NoPrefix, 3, 1)
   \cup Fam(CallsCpu, {}, PropsLoose, PlansCpu({SKIPDUPNULL}), NoPrefix, 2, 2)
SetupsLimit  == Fam(PushPop({1, 2}), {}, PropsFew, PlanQuiet, FillEvents, 1, 2)
                \cup Fam(PushPop({1, 2}), {}, PropsDW, PlanQuiet, FillOnce, 1, 2)
\* random walks (simulation) over everything
SetupsSim    == Fam(CallsAll, AdvsAll, PropsAll, PlansBoth(0..31) \cup PlansSpecial, NoPrefix, 5, 3)
SetupsSimTrack == Fam(CallsTrackAll \cup SetOn("sg", {Null, 3}), AdvsAll, PropsAll,
                      PlansTrack(ValidFlags), NoPrefix, 6, 3)
                  \cup Fam(CallsCpu, AdvsAll, PropsAll, PlansCpu(ValidFlags), NoPrefix, 6, 3)
\* in simulation a behaviour is only closed at its end
LateClose == (closed' /\ ~closed) => (failed \/ nev = su.maxev)
=============================================================================
