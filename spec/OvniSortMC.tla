----------------------------- MODULE OvniSortMC -----------------------------
(* Model-checking instance of OvniSort.  The set of ring sizes can be
   narrowed through the environment (C16_RING = one ring size) so that the
   harness runs one TLC process per ring size in parallel.  Without the
   variable one process explores ring sizes 2..5 and 8 (8 = unbounded look
   back for the stream lengths used).                                      *)
EXTENDS OvniSort, IOUtils

MCRings == IF "C16_RING" \in DOMAIN IOEnv THEN {atoi(IOEnv.C16_RING)} ELSE {2, 3, 4, 5, 8}
=============================================================================
