SPECIFICATION MCSpec
CONSTANTS
  System <- SysC17
  Alphabet <- AlphaC17
  MaxLen = 7
  Lint = TRUE
VIEW MCView
INVARIANT Inv
ACTION_CONSTRAINT Export
CHECK_DEADLOCK FALSE
