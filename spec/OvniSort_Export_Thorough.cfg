SPECIFICATION Spec
CONSTANTS
  MaxLen = 6
  MaxClock = 2
  Rings <- MCRings
  MaxB = 2
  MaxJ = 1
  Strict = TRUE
  JumboInside = FALSE
  ExportUnspecLen = 4
  Variant = "code"
INVARIANTS Refinement IdempotentInv RunAgrees Tight AfterSort Lemmas RegionAgree RingInv
ACTION_CONSTRAINT Export
CHECK_DEADLOCK FALSE
