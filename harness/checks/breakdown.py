"""C20 (breakdown view: rows always hold the sorted per-CPU breakdown values).

Three layers, all verdicts by TLC:

1. spec/SortMod.tla - the sort module (src/emu/sort.c).  TLC explores every
   input history of n = 1..4 inputs over {NULL, 0..3} (finite state space,
   no depth bound needed; thorough: n <= 6 over {NULL, 0..4}) and checks
   Impl => Property: sort_replace as written (both branches, the n/2 jump,
   first full sort) keeps rows = sorted multiset of the inputs and writes
   exactly the rows that change.  Four negative configurations (three wrong
   sort_replace variants, one that rewrites every output) must be refuted.
   Every transition is exported and replayed on the REAL code by
   drivers/sortharness.c: sort_replace directly (array, old, new) and the
   whole module through its public API (bay + channels: outputs and the set
   of written outputs after every input change).

2. spec/BreakdownMC.tla - bounded emulator models (nOS-V and Nanos6, 2 CPUs /
   2 threads and 3 CPUs / 3 threads) composing the per-CPU breakdown value
   (Breakdown.tla: tri rule, mux selection memory) with the implementation
   layer of the sort module; TLC checks Impl => Property on every state.
   Negative configurations: a wrong sort_replace in the composition, and
   StaleOK = FALSE (shows that the stale mux selection is reachable, i.e.
   that the allowance made for it is not vacuous).

3. End to end: one history per transition of those models (shortest path +
   event + shortest legal completion) plus seeded random walks on the
   exported graphs are materialised as traces, replayed by `ovniemu -b -l`
   and validated by spec/BreakdownTrace.tla: after every event the rows of
   <model>-breakdown.prv are a sorted arrangement of one value per physical
   CPU that is both the tri rule applied to what cpu.prv of the SAME run
   shows for that CPU and what the specification predicts from the history;
   only rows that change are written.

The harness computes no expected value: it encodes inputs, runs the
binaries and projects the files.
"""
import json
import os
import random
import re
import shutil
from collections import deque
from concurrent.futures import ThreadPoolExecutor

from vlib import core, emu, emuhist, synth, tv

BTYPE = {"V": 17, "6": 41}                 # PRV_NOSV_BREAKDOWN / PRV_NANOS6_BREAKDOWN
BFILE = {"V": "nosv-breakdown", "6": "nanos6-breakdown"}
TTYPE = {"V": 11, "6": 36}                 # task type timelines of cpu.prv / thread.prv

SORT_NEG = [("SortMod_NegJumpAlways.cfg", "RowsSorted", "sort_replace jumps to the middle unconditionally"),
            ("SortMod_NegJumpLe.cfg", "RowsSorted", "sort_replace jumps past the middle when arr[m] <= old"),
            ("SortMod_NegDownLess.cfg", "RowsSorted", "shift-right loop compares with <"),
            ("SortMod_NegWriteAll.cfg", "OnlyChangedWritten", "every output rewritten on every change")]

MC_QUICK = [("BreakdownMC_VQ.cfg", "V", "nosv 2 CPUs/2 threads"),
            ("BreakdownMC_6Q.cfg", "6", "nanos6 2 CPUs/2 threads"),
            ("BreakdownMC_V3Q.cfg", "V", "nosv 3 CPUs/3 threads"),
            ("BreakdownMC_63Q.cfg", "6", "nanos6 3 CPUs/3 threads"),
            ("BreakdownMC_62L.cfg", "6", "nanos6 two looms (2+1 physical CPUs)"),
            ("BreakdownMC_V2L.cfg", "V", "nosv two looms (2+1 physical CPUs)")]
MC_THOROUGH = [("BreakdownMC_V.cfg", "V", "nosv 2 CPUs/2 threads, full alphabet"),
               ("BreakdownMC_6.cfg", "6", "nanos6 2 CPUs/2 threads, full alphabet"),
               ("BreakdownMC_V3.cfg", "V", "nosv 3 CPUs/3 threads"),
               ("BreakdownMC_63.cfg", "6", "nanos6 3 CPUs/3 threads"),
               ("BreakdownMC_62L.cfg", "6", "nanos6 two looms (2+1 physical CPUs)"),
               ("BreakdownMC_V2L.cfg", "V", "nosv two looms (2+1 physical CPUs)")]
MC_NEG = [("BreakdownMC_NegSort.cfg", "wrong sort_replace (jump_always) in the composition"),
          ("BreakdownMC_NegStale.cfg", "StaleOK = FALSE: the stale mux selection must be reachable")]


# --------------------------------------------------------------------------
# TLC runs (in parallel: TLC does not scale past a few workers on these models)

def run_models(tier):
    jobs = []
    jobs.append(("sort", "SortMod", "SortMod.cfg" if tier == "quick" else "SortMod_Thorough.cfg", 4, ("TR",)))
    for cfg, inv, what in SORT_NEG:
        jobs.append(("sortneg", "SortMod", cfg, 1, ()))
    for cfg, mc, what in (MC_QUICK if tier == "quick" else MC_THOROUGH):
        jobs.append(("mc", "BreakdownMC", cfg, 4, ("TR", "SYS")))
    for cfg, what in MC_NEG:
        jobs.append(("mcneg", "BreakdownMC", cfg, 1, ()))

    def one(j):
        kind, mod, cfg, w, tags = j
        return core.tlc(mod, cfg, workers=w, tags=tags, heap="6g", timeout=3000)

    with ThreadPoolExecutor(max_workers=len(jobs)) as ex:
        res = list(ex.map(one, jobs))
    return {(j[0], j[2]): r for j, r in zip(jobs, res)}


# --------------------------------------------------------------------------
# layer 1: replay of the SortMod transitions on the real sort.c

def sort_replay(ck, lines):
    bdir = core.build("hooks")
    drv = core.cc_driver(bdir, "sortharness.c", emu=True)
    trs = [o for tg, o in lines if tg == "TR"]
    # (a) sort_replace as a function: every (sorted array, old, new) TLC visited
    cases = {}
    for t in trs:
        if t["copied"] and t["old"] != t["new"]:
            cases[(tuple(t["sorted"]), t["old"], t["new"])] = t["exprows"]
    keys = sorted(cases)
    inp = "".join("R %d %s %d %d\n" % (len(a), " ".join(map(str, a)), o, n) for (a, o, n) in keys)
    rc, out, err = core.run([drv], stdin=inp.encode(), timeout=300)
    outl = out.decode().splitlines()
    if rc is None or rc != 0 or len(outl) != len(keys):
        # the real sort_replace crashed / looped / died on an input satisfying its preconditions
        k = keys[min(len(outl), len(keys) - 1)]
        ck.violation("sort_replace did not return on a valid input (driver rc=%s after %d of %d cases); "
                     "next case: arr=%s old=%d new=%d\n%s" % (rc, len(outl), len(keys), list(k[0]), k[1], k[2],
                                                              err.decode("latin1")[-500:]),
                     {"input.txt": inp, "stdout.txt": out.decode("latin1")[-4000:]}, sig="sort_replace:crash")
    for k, ln in zip(keys, outl):
        ck.case("R" + repr(k), nontrivial=len(k[0]) >= 2)
        p = ln.split()
        got = [int(x) for x in p[1:] if x != "G"]
        if p[0] != "R" or "G" in p or got != cases[k]:
            ck.violation("sort_replace (src/emu/sort.c) does not keep the sorted multiset of the rows: sort_replace(arr=%s, n=%d, old=%d, new=%d) left "
                         "arr=%s%s; the specification requires %s" % (list(k[0]), len(k[0]), k[1], k[2], got,
                                                            " and wrote outside the array" if "G" in p else "",
                                                            cases[k]),
                         {"case.json": {"arr": list(k[0]), "old": k[1], "new": k[2], "got": got,
                                        "expected": cases[k]}}, sig="sort_replace:wrong")
    nrep = len(keys)

    # (b) the module through its public API: one history per transition
    def skey(n, ins, copied):
        return (n, tuple(ins), bool(copied))
    out_tr = {}
    for t in trs:
        s = skey(t["n"], t["ins"], t["copied"])
        out_tr.setdefault(s, {})[(t["idx"], t["x"])] = t
    path = {}
    dq = deque()
    for s in out_tr:
        if not s[2] and all(v == -1 for v in s[1]):
            path[s] = []
            dq.append(s)
    while dq:
        s = dq.popleft()
        for (idx, x), t in sorted(out_tr[s].items()):
            ins2 = list(s[1])
            ins2[idx] = x
            d = skey(s[0], ins2, s[2] or t["old"] != t["new"])
            if d not in path and d in out_tr:
                path[d] = path[s] + [t]
                dq.append(d)
    hist = []
    for s in sorted(out_tr):
        if s not in path:
            continue
        for k2, t in sorted(out_tr[s].items()):
            hist.append(path[s] + [t])

    def expect(t):
        copied2 = t["copied"] or t["old"] != t["new"]
        return ([v for v in t["exprows"]] if copied2 else [-1] * t["n"]), sorted(t["wr"])

    chunks = [hist[i::core.NCPU] for i in range(core.NCPU)]

    def run_chunk(hs):
        if not hs:
            return []
        cmds = []
        for h in hs:
            cmds.append("M %d" % h[0]["n"])
            for t in h:
                cmds.append("S %d %d" % (t["idx"], t["x"]))
        rc, out, err = core.run([drv], stdin=("\n".join(cmds) + "\n").encode(), timeout=600)
        ol = out.decode().splitlines()
        res = []
        pos = 0
        for h in hs:
            got = ol[pos:pos + 1 + len(h)]
            pos += 1 + len(h)
            bad = None
            if len(got) != 1 + len(h) or got[0] != "M":
                bad = (len(got) - 1, "driver stopped (rc=%s): %s" % (rc, err.decode("latin1")[-300:]))
            else:
                for i, (t, ln) in enumerate(zip(h, got[1:])):
                    eo, ew = expect(t)
                    if not ln.startswith("O "):
                        bad = (i, "module reported an error: " + ln)
                        break
                    a, b = ln[2:].split("W")
                    go = [int(x) for x in a.split()]
                    gw = sorted(int(x) for x in b.split())
                    if go != eo:
                        bad = (i, "outputs %s, specification requires %s" % (go, eo))
                        break
                    if gw != ew:
                        bad = (i, "outputs written %s, specification requires exactly the changed rows %s" % (gw, ew))
                        break
            res.append(bad)
        return res

    results = core.pmap(run_chunk, chunks, threads=True)
    for hs, rs in zip(chunks, results):
        for h, bad in zip(hs, rs):
            steps = [[t["idx"], t["x"]] for t in h]
            ck.case("M%d:%s" % (h[0]["n"], steps), nontrivial=len(h) >= 2)
            if bad:
                i, why = bad
                ck.violation("sort module (sort_init/sort_set_input/outputs) disagrees with the specification: n=%d "
                             "inputs, input changes %s (input index, new value; -1 = NULL), step %d: %s"
                             % (h[0]["n"], steps[:i + 1], i, why),
                             {"history.json": {"n": h[0]["n"], "steps": steps, "failed_step": i, "why": why}},
                             sig="sortmod:" + why.split()[0])
    ck.cov["traces_validated_against_impl"] += len(hist) + nrep
    ck.notes["sort_replay"] = {"sort_replace_cases": nrep, "module_histories": len(hist),
                               "module_steps": sum(len(h) for h in hist)}
    if hist:
        ck.sample({"kind": "sort module history", "n": hist[-1][0]["n"],
                   "steps": [[t["idx"], t["x"]] for t in hist[-1]]})
    return nrep, len(hist)


# --------------------------------------------------------------------------
# layer 3: end to end

def gids_for(bdir, mc):
    tm = emuhist.calibrate_types(bdir)
    g = [0] * 15
    for (ty, gid), k in tm.items():
        if ty == TTYPE[mc] and 1 <= k <= 15:
            g[k - 1] = gid
    return g


def run_one(bdir, system, mc, gids, events):
    """Materialise, run `ovniemu -b -l`, project.  Returns (records, EmuRun, projection error)."""
    d = core.mkscratch("bd")
    try:
        td = os.path.join(d, "ovni")
        conc = [emuhist.concretise(e) for e in events]
        extra = emuhist.meta_extra_for(system)
        if mc == "V":
            for i in range(len(system["threads"])):
                extra.setdefault(i + 1, {})["nosv.can_breakdown"] = True
        clocks = synth.materialise(td, system, conc, models=emuhist.require_for(set(system["models"])),
                                   meta_extra=extra)
        r = emu.ovniemu(bdir, td, ["-b", "-l"])
        nphys = sum(1 for c in system["cpus"] if not c["virt"])
        vs = rows = wr = None
        perr = None
        bp = os.path.join(td, BFILE[mc] + ".prv")
        if os.path.exists(os.path.join(td, "thread.prv")) and os.path.exists(os.path.join(td, "thread.row")) \
                and os.path.exists(bp):
            try:
                vs, _ = synth.views(td, system, clocks)
                tl = dict(emuhist._TYPEMAP.get(bdir, {}))
                tl.update(emuhist.type_label_map(td))
                for cells in vs:
                    for c in cells:
                        if c[2] in (11, 36):
                            c[3] = tl.get((c[2], c[3]), -c[3])
                prv = emu.Prv(bp)
                base = min(clocks)
                times = [c - base for c in clocks]
                nrows = prv.nrows if prv.nrows is not None else nphys
                snaps = prv.view_at(times)
                rows = [[s.get((rw, BTYPE[mc]), -1) for rw in range(1, nrows + 1)] for s in snaps]
                at = {}
                for (t, rw, ty, v) in prv.lines:
                    at.setdefault(t, []).append([rw, v] if ty == BTYPE[mc] else [-ty, v])
                wr = [at.pop(t, []) for t in times]
                if at:
                    perr = "breakdown lines at times where no event happened: %s" % sorted(at.items())[:4]
                if prv.bad:
                    perr = "malformed breakdown lines: %s" % prv.bad[:3]
            except Exception as ex:      # reported, not hidden
                perr = repr(ex)
        ok = vs is not None and rows is not None and perr is None
        recs = [dict(synth.sys_record(system), lint=True, marks=[], models=sorted(system["models"]), gids=gids)]
        for i, e in enumerate(events):
            recs.append({"e": "ev", "th": e["th"], "m": e["m"], "mc": e.get("mc", e["m"][0]),
                         "a": e.get("a", []), "j": bool(e.get("j", False)), "hasview": ok,
                         "view": vs[i] if ok else [], "rows": rows[i] if ok else [],
                         "wr": wr[i] if ok else []})
        recs.append({"e": "end", "verdict": r.verdict})
        return recs, r, perr
    finally:
        shutil.rmtree(d, ignore_errors=True)


MAX_REJECT = 2      # rejected executions isolated per chunk (each one costs a TLC run)


def validate(execs, nchunks=8):
    """Trace validation with BreakdownTrace (AllowStale).  One TLC run per chunk of concatenated
    executions; the spec prints <<"STALE", line>> where the rows are only explained by a stale mux
    selection.  When a chunk is not consumed completely the execution holding the first
    unexplained record is reported and validation resumes after it (at most MAX_REJECT times per
    chunk, the rest is then left unvalidated and counted).
    Returns (accepted indices, {index: first stale record}, rejected, skipped, states, generated)."""
    n = len(execs)
    nchunks = max(nchunks, n // 300)
    size = max(1, (n + nchunks - 1) // nchunks)
    chunks = [list(range(i, min(i + size, n))) for i in range(0, n, size)]

    def run(idx):
        d = core.mkscratch("bdtv")
        try:
            path = os.path.join(d, "trace.ndjson")
            starts = []
            pos = 1
            with open(path, "w") as f:
                for i in idx:
                    starts.append(pos)
                    for rec in execs[i]:
                        f.write(json.dumps(rec) + "\n")
                        pos += 1
            r = core.tlc("BreakdownTrace", "BreakdownTrace.cfg", workers=1, env={"TRACE": path},
                         tags=("STALE",), timeout=1800)
            total = pos - 1
            m = re.search(r'<<"CONSUMED", (\d+), (\d+)>>', r.out)
            if m:
                consumed = int(m.group(1))
            elif r.violated and r.violated != "property":
                consumed = max(0, len(re.findall(r"^State \d+:", r.out, re.M)) - 2)
            else:
                raise core.MachineryError("trace validation failed to run: %s\n%s" % (r.error, r.out[-2500:]))
            full = consumed == total and r.rc == 0 and r.violated is None
            st = {}
            for tg, line in r.lines:
                k = max(j for j in range(len(idx)) if starts[j] <= int(line))
                off = int(line) - starts[k]
                if idx[k] not in st or off < st[idx[k]]:
                    st[idx[k]] = off
            bad = None
            if not full:
                nxt = min(consumed + 1, total)
                k = max(j for j in range(len(idx)) if starts[j] <= nxt)
                bad = (k, nxt - starts[k])
            return full, bad, st, r
        finally:
            shutil.rmtree(d, ignore_errors=True)

    def do(idx):
        acc, stale_at, rej = [], {}, []
        states = gen = 0
        pending = list(idx)
        while pending:
            full, bad, st, r = run(pending)
            states += r.states
            gen += r.generated
            if full:
                acc += pending
                stale_at.update(st)
                pending = []
                break
            k, line = bad
            acc += pending[:k]
            stale_at.update({i: o for i, o in st.items() if i in pending[:k]})
            i = pending[k]
            line = min(line, len(execs[i]) - 1)
            rej.append((i, line, execs[i][line], r.out[-1800:], r.violated))
            pending = pending[k + 1:]
            if len(rej) >= MAX_REJECT:
                break
        return acc, stale_at, rej, pending, states, gen

    outs = core.pmap(do, chunks, threads=True)
    accepted, stale_at, rejected, skipped = [], {}, [], []
    states = gen = 0
    for acc, st, rej, pend, s_, g_ in outs:
        accepted += acc
        stale_at.update(st)
        rejected += rej
        skipped += pend
        states += s_
        gen += g_
    return accepted, stale_at, rejected, skipped, states, gen


def random_walks(g, rng, count, maxlen):
    """seeded random walks over accepted transitions of the exported graph + legal completion"""
    out = []
    if g.init is None:
        return out
    for _ in range(count):
        s = g.init
        evs = []
        for _ in range(rng.randint(maxlen // 2, maxlen)):
            nxt = [t for t in g.out.get(s, []) if t["ok"] and not t["un"] and t["dst"] in g.compl
                   and g.out.get(t["dst"])]
            if not nxt:
                break
            t = rng.choice(nxt)
            evs.append(t["ev"])
            s = t["dst"]
        c = g.compl.get(s)
        if c is None:
            continue
        out.append(("random", evs + c, None))
    return out


def conformance(ck, g, mc, tier, label, rng):
    bdir = core.build("hooks")      # (again: builds unused for 10 minutes are collected by other checks)
    system = emuhist.sys_with_rank(g.system)
    gids = gids_for(bdir, mc)
    hs = g.histories(limit=None)
    # every model transition that changes something first, a sample of the refusals
    hs.sort(key=lambda x: json.dumps(x[1], sort_keys=True))
    acc = [x for x in hs if x[0] == "accept"]
    oth = [x for x in hs if x[0] != "accept"]
    rng.shuffle(acc)
    rng.shuffle(oth)
    nacc, noth, nrand, rlen = (700, 120, 120, 40) if tier == "quick" else (10000, 2000, 2000, 120)
    hs = acc[:nacc] + oth[:noth]
    hs += random_walks(g, rng, nrand, rlen)

    results = core.pmap(lambda x: run_one(bdir, system, mc, gids, x[1]), hs)
    execs = [r[0] for r in results]
    kinds = {}
    for (kind, events, t), (recs, r, perr) in zip(hs, results):
        kinds[kind] = kinds.get(kind, 0) + 1
        ck.case(label + json.dumps(events, sort_keys=True), nontrivial=len(events) >= 3)
        if r.signal or r.timeout or r.sanitizer:
            ck.violation("%s: ovniemu -b %s on a synthetic history: %s" % (label, r.verdict, json.dumps(events)),
                         {"history.json": events, "stderr.txt": r.text[-4000:]}, sig="emu:crash")
        if perr and r.accepted:
            ck.violation("%s: the breakdown trace of an accepted history cannot be projected: %s\nhistory: %s"
                         % (label, perr, json.dumps(events)),
                         {"history.json": events, "stderr.txt": r.text[-4000:]}, sig="breakdown:projection")
    accepted, stale_at, rejected, skipped, st, gen = validate(execs)
    ck.cov["states"] += st
    ck.cov["transitions"] += gen
    stale = sorted(stale_at)
    ck.cov["traces_validated_against_impl"] += len(accepted)
    first_stale = None
    if stale:
        i = min(stale, key=lambda k: (len(hs[k][1]), stale_at[k]))
        rec = execs[i][stale_at[i]]
        first_stale = {"history": hs[i][1], "record_index": stale_at[i],
                       "event": {k: rec.get(k) for k in ("th", "m", "a")},
                       "rows_shown": rec.get("rows"), "cpu_cells": [c for c in rec.get("view", []) if c[0] == "c"]}
    if stale and first_stale is not None:
        # genuine finding (listed in known-findings.txt): the breakdown row keeps a stale value because the
        # `tr` mux only re-selects on subsystem changes; every other disagreement is still reported above/below
        ck.violation("%s: breakdown row holds a value that is only explained by a STALE selection of the tr mux "
                     "(task type appeared/disappeared while the subsystem stayed in task body): %d histories, "
                     "shortest: %s" % (label, len(stale), json.dumps(first_stale)[:1500]),
                     {"stale_example.json": first_stale}, sig="stale-tr-mux-selection")
    ck.notes.setdefault("conformance", []).append(
        {"model": label, "histories": len(hs), "by_kind": kinds,
         "accepted_by_spec": len(accepted),
         "of_which_need_the_stale_mux_selection": len(stale),
         "shortest_stale_example": first_stale,
         "rejected_by_spec": len(rejected), "not_validated_after_rejections": len(skipped)})
    for (i, line, rec, tail, violated) in rejected:
        kind, events, t = hs[i]
        recs, r, perr = results[i]
        what = ("%s: `ovniemu -b -l` behaviour not explained by the specification at record #%d of a %s history\n"
                "event: %s  rows shown: %s  lines written: %s\ncpu/thread cells: %s\nemulator verdict: %s %s\nhistory: %s"
                % (label, line, kind, json.dumps({k: rec.get(k) for k in ("th", "m", "a")}),
                   rec.get("rows"), rec.get("wr"), json.dumps(rec.get("view"))[:900], r.verdict,
                   r.last_errors(2), json.dumps(events)))
        if perr:
            what += "\nprojection error: " + perr
        ck.violation(what, {"history.json": events,
                            "execution.ndjson": "\n".join(json.dumps(x) for x in recs),
                            "emu_stderr.txt": r.text[-4000:], "tlc_tail.txt": tail},
                     sig="breakdown:%s" % (rec.get("m") or rec.get("e")))
    for x in hs[:1] + hs[-1:]:
        ck.sample({"kind": x[0], "model": label, "history": x[1]})
    return len(hs), len(stale)


# --------------------------------------------------------------------------

def main(pid, tier):
    ck = core.Check(pid, "model_checking", tier)
    core.build("hooks")
    rng = random.Random(core.seed())
    res = run_models(tier)
    ck.phase("tlc")

    # layer 1
    key = ("sort", "SortMod.cfg" if tier == "quick" else "SortMod_Thorough.cfg")
    r = res[key]
    core.tlc_expect_ok(r, key[1])
    ck.add_tlc(r, "SortMod/%s (all input histories; Impl => rows sorted, only changed rows written)" % key[1])
    if r.violated:
        ck.violation("sort_replace/sort_cb_input as written violate %s in the model %s" % (r.violated, key[1]),
                     {"tlc.out": r.out[-20000:]}, sig="sortmod:model")
    for cfg, inv, what in SORT_NEG:
        rn = res[("sortneg", cfg)]
        ck.add_tlc(rn, "SortMod/%s (negative: %s; must fail)" % (cfg, what))
        if rn.violated != inv:
            raise core.MachineryError("negative configuration %s is not refuted by %s (got %s / %s)"
                                      % (cfg, inv, rn.violated, rn.error))
    nrep, nhist = sort_replay(ck, r.lines)
    ck.phase("sort_replay")

    # layers 2 and 3
    for cfg, what in MC_NEG:
        rn = res[("mcneg", cfg)]
        ck.add_tlc(rn, "BreakdownMC/%s (negative: %s; must fail)" % (cfg, what))
        if rn.violated != "BInv":
            raise core.MachineryError("negative configuration %s is not refuted (got %s / %s)"
                                      % (cfg, rn.violated, rn.error))
    nh = ns = 0
    for cfg, mc, what in (MC_QUICK if tier == "quick" else MC_THOROUGH):
        rm = res[("mc", cfg)]
        core.tlc_expect_ok(rm, cfg)
        ck.add_tlc(rm, "BreakdownMC/%s (%s; tri rule + mux memory + incremental sort, Impl => Property)" % (cfg, what))
        if rm.violated:
            ck.violation("model %s violates %s" % (cfg, rm.violated), {"tlc.out": rm.out[-20000:]},
                         sig="breakdown:model")
            continue
        g = emuhist.Graph(rm.lines)
        a, b = conformance(ck, g, mc, tier, "C20/" + cfg[len("BreakdownMC_"):-4], rng)
        nh += a
        ns += b
    ck.phase("end_to_end")
    ck.notes["stale_mux_selection_histories"] = ns
    ck.assumptions += [
        "a physical CPU without a single running thread contributes 0 (nothing shown yet) or the idle default "
        "Resting, whichever cpu.prv of the same run shows (C06 leaves this open)",
        "Unspecified: the task/subsystem mux of breakdown.c is re-evaluated only when the CPU's subsystem channel "
        "is written; after a task pause/resume without a subsystem change the row keeps the value of the previous "
        "selection (0 for a paused task under TaskBody, the TaskBody subsystem instead of the task type after a "
        "resume).  Such histories are validated with AllowStale and counted in stale_mux_selection_histories",
        "task type values are compared as opaque tokens: the gid of label T<k> is learnt from a calibration run "
        "and used for cpu.prv and the breakdown file alike",
        "libc qsort (first full sort) is trusted and modelled by the reference sort",
    ]
    return ck.finish(rule="sort module: every (array, old, new) and every module transition of the TLC state graph "
                          "(one history per transition) replayed on sort.c; end to end: one `ovniemu -b -l` run per "
                          "sampled transition of 4 bounded models (path + event + completion) + seeded random walks; "
                          "non-trivial = at least 2 array cells / 2 input changes / 3 events; distinct by input")
