SPECIFICATION XSpec
CONSTANTS
  NS = 3
  MaxEv = 2
  Clocks = {0,1,2}
  Offsets <- OffsetsSmall
  NL = 2
  Base = 2
  PVariant = "nosort"
  MPick = "min"
  HVariant = "ok"
INVARIANTS XRefinesMerge IndependentOfEnumeration
CHECK_DEADLOCK FALSE
