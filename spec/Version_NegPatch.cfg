\* negative configuration: Variant = "patch" is a deliberately wrong implementation layer; TLC must refute it
SPECIFICATION Spec
CONSTANTS
  Alphabet = {"0", "1", "2", ".", "-", "a"}
  MaxLen = 0
  MaxV = 3
  HaveCodes = {11100, 10100, 10000, 20400}
  Models = {"ovni", "nosv"}
  CoreModel = "ovni"
  Variant = "patch"
INVARIANTS
  Reflexive MajorStrict MonotoneHaveMinor AntitoneWantMinor PatchIgnored Transitive RoundTrip
CHECK_DEADLOCK FALSE
