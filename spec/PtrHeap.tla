------------------------------ MODULE PtrHeap ------------------------------
(* The intrusive pointer heap of src/include/heap.h, statement by statement.

   A heap value is a record
       [root, size, par, lft, rgt, died]
   where par/lft/rgt are functions node -> node and 0 is NULL.  `died` is
   set where the C code calls die() or would dereference NULL.

   The order is given by the caller through `key` (node -> Int) and
       Gt(key, a, b)  ==  cmp(a, b) > 0
   with the *inverted* comparison of src/emu/player.c (stream_cmp returns +1
   when clock(a) < clock(b)): "greater" means "smaller clock", so that the
   max-heap of heap.h keeps the MINIMUM clock at the root.

   HVariant selects the faithful transcription ("ok") or a deliberately
   wrong one (negative configurations, must be refuted by TLC):
     "nosift"     heap_pop_max does not call heap_max_heapify
     "wrongchild" heap_max_heapify compares the right child with `a`
                  instead of with the larger of (a, left)
     "relink"     heap_insert forgets `parent->right->parent = parent`
                  after swapping the right subtrees while bubbling up     *)
EXTENDS Integers, Sequences, FiniteSets

CONSTANT HVariant

Gt(key, a, b) == key[a] < key[b]

HeapEmpty(Nodes) ==
   [root |-> 0, size |-> 0, died |-> FALSE,
    par |-> [n \in Nodes |-> 0], lft |-> [n \in Nodes |-> 0], rgt |-> [n \in Nodes |-> 0]]

Die(h) == [h EXCEPT !.died = TRUE]

(* ---- heap_get_move / heap_get: path-bit descent ------------------------ *)
RECURSIVE Shift(_)
Shift(x) == IF x <= 1 THEN 0 ELSE 1 + Shift(x \div 2)      \* 63 - clz(x)

Move(node) ==
   LET base == 2 ^ Shift(node)
       aux  == node - base \div 2
   IN  IF aux < base THEN [right |-> FALSE, node |-> aux]
                     ELSE [right |-> TRUE,  node |-> aux - base \div 2]

RECURSIVE GetFrom(_, _, _)
GetFrom(h, cur, node) ==
   IF node = 1 THEN cur
   ELSE IF cur = 0 \/ node < 1 THEN 0                       \* NULL dereference
   ELSE LET m == Move(node)
        IN  GetFrom(h, IF m.right THEN h.rgt[cur] ELSE h.lft[cur], m.node)

HeapGet(h, node) == IF node < 1 THEN 0 ELSE GetFrom(h, h.root, node)

(* ---- heap_max_heapify --------------------------------------------------- *)
SetPar(h, n, v) == IF n # 0 THEN [h EXCEPT !.par[n] = v] ELSE h   \* if (n) n->parent = v

RECURSIVE Heapify(_, _, _, _)
Heapify(h, a, isHead, key) ==
   LET l   == h.lft[a]
       r   == h.rgt[a]
       lg1 == IF l # 0 /\ Gt(key, l, a) THEN l ELSE a
       lg  == IF HVariant = "wrongchild"
              THEN (IF r # 0 /\ Gt(key, r, a) THEN r ELSE lg1)
              ELSE (IF r # 0 /\ Gt(key, r, lg1) THEN r ELSE lg1)
   IN
   IF lg = a THEN h
   ELSE
     LET ap == h.par[a]
         h1 == [h EXCEPT !.par[lg] = ap]
         h2 == IF ap # 0
               THEN (IF h1.lft[ap] = a THEN [h1 EXCEPT !.lft[ap] = lg]
                                       ELSE [h1 EXCEPT !.rgt[ap] = lg])
               ELSE h1
         h3 == [h2 EXCEPT !.par[a] = lg]
         h4 == IF isHead THEN [h3 EXCEPT !.root = lg] ELSE h3
         h5 == IF h4.lft[a] = lg
               THEN LET x1 == [h4 EXCEPT !.lft[a] = h4.lft[lg]]
                        x2 == SetPar(x1, x1.lft[a], a)
                        x3 == [x2 EXCEPT !.lft[lg] = a]
                        x4 == [x3 EXCEPT !.rgt[a] = x3.rgt[lg], !.rgt[lg] = x3.rgt[a]]
                        x5 == SetPar(x4, x4.rgt[a], a)
                    IN  SetPar(x5, x5.rgt[lg], lg)
               ELSE LET x1 == [h4 EXCEPT !.rgt[a] = h4.rgt[lg]]
                        x2 == SetPar(x1, x1.rgt[a], a)
                        x3 == [x2 EXCEPT !.rgt[lg] = a]
                        x4 == [x3 EXCEPT !.lft[a] = x3.lft[lg], !.lft[lg] = x3.lft[a]]
                        x5 == SetPar(x4, x4.lft[a], a)
                    IN  SetPar(x5, x5.lft[lg], lg)
     IN Heapify(h5, a, FALSE, key)

(* ---- heap_insert -------------------------------------------------------- *)
RECURSIVE BubbleUp(_, _, _, _)
BubbleUp(h, n, p, key) ==
   IF p # 0 /\ Gt(key, n, p)
   THEN
     LET g  == h.par[p]
         h1 == [h EXCEPT !.par[n] = g]
         h2 == [h1 EXCEPT !.par[p] = n]
         h3 == IF g # 0
               THEN (IF h2.lft[g] = p THEN [h2 EXCEPT !.lft[g] = n]
                                      ELSE [h2 EXCEPT !.rgt[g] = n])
               ELSE h2
         h4 == IF h3.lft[p] = n
               THEN LET x1 == [h3 EXCEPT !.lft[p] = h3.lft[n]]
                        x2 == SetPar(x1, x1.lft[p], p)
                        x3 == [x2 EXCEPT !.lft[n] = p]
                        x4 == [x3 EXCEPT !.rgt[n] = x3.rgt[p], !.rgt[p] = x3.rgt[n]]
                        x5 == SetPar(x4, x4.rgt[n], n)
                    IN  IF HVariant = "relink" THEN x5 ELSE SetPar(x5, x5.rgt[p], p)
               ELSE LET x1 == [h3 EXCEPT !.rgt[p] = h3.rgt[n]]
                        x2 == SetPar(x1, x1.rgt[p], p)
                        x3 == [x2 EXCEPT !.rgt[n] = p]
                        x4 == [x3 EXCEPT !.lft[n] = x3.lft[p], !.lft[p] = x3.lft[n]]
                        x5 == SetPar(x4, x4.lft[n], n)
                    IN  SetPar(x5, x5.lft[p], p)
     IN BubbleUp(h4, n, h4.par[n], key)
   ELSE IF p = 0 THEN [h EXCEPT !.root = n] ELSE h

HeapInsert(h, n, key) ==
   LET h0 == [h EXCEPT !.lft[n] = 0, !.rgt[n] = 0, !.par[n] = 0, !.size = h.size + 1]
   IN
   IF h0.root = 0 THEN [h0 EXCEPT !.root = n]
   ELSE
     LET sz == h0.size
         p  == HeapGet(h0, sz \div 2)
     IN
     IF p = 0 THEN Die(h0)
     ELSE
       LET h1 == IF sz % 2 = 1
                 THEN (IF h0.rgt[p] # 0 THEN Die(h0) ELSE [h0 EXCEPT !.rgt[p] = n])
                 ELSE (IF h0.lft[p] # 0 THEN Die(h0) ELSE [h0 EXCEPT !.lft[p] = n])
           h2 == [h1 EXCEPT !.par[n] = p]
       IN IF h2.died THEN h2 ELSE BubbleUp(h2, n, p, key)

(* ---- heap_pop_max -------------------------------------------------------
   Returns [h, node]; node = 0 is NULL.  The pointers of the removed node
   are cleared in the model (the C code leaves them stale; heap_insert
   resets them before the node is used again, nobody reads them).          *)
Clear(h, n) == [h EXCEPT !.par[n] = 0, !.lft[n] = 0, !.rgt[n] = 0]

HeapPop(h, key) ==
   LET max == h.root IN
   IF max = 0 THEN [h |-> h, node |-> 0]
   ELSE
     LET sz == h.size
         ch == HeapGet(h, sz)
     IN
     IF ch = 0 THEN [h |-> Die(h), node |-> max]
     ELSE
       LET h0 == [h EXCEPT !.size = sz - 1] IN
       IF h0.par[ch] = 0
       THEN [h |-> Clear([h0 EXCEPT !.root = 0], max), node |-> max]
       ELSE
         LET h1 ==
               IF h0.par[ch] = max
               THEN (IF sz % 2 = 1
                     THEN LET a == [h0 EXCEPT !.lft[ch] = h0.lft[max]]
                          IN  SetPar(a, a.lft[ch], ch)
                     ELSE LET a == [h0 EXCEPT !.rgt[ch] = h0.rgt[max]]
                          IN  SetPar(a, a.rgt[ch], ch))
               ELSE
                 LET cp == h0.par[ch]
                     a  == IF sz % 2 = 1 THEN [h0 EXCEPT !.rgt[cp] = 0]
                                         ELSE [h0 EXCEPT !.lft[cp] = 0]
                     a2 == IF a.lft[ch] # 0 \/ a.rgt[ch] # 0 THEN Die(a) ELSE a
                     b  == [a2 EXCEPT !.lft[ch] = a2.lft[max]]
                     b2 == SetPar(b, b.lft[ch], ch)
                     c  == [b2 EXCEPT !.rgt[ch] = b2.rgt[max]]
                 IN  SetPar(c, c.rgt[ch], ch)
             h2 == [h1 EXCEPT !.par[ch] = 0, !.root = ch]
             h3 == IF HVariant = "nosift" THEN h2 ELSE Heapify(h2, ch, TRUE, key)
         IN [h |-> Clear(h3, max), node |-> max]

(* ---- structural invariants ----------------------------------------------
   At(h, i): the node at heap index i by the usual addressing (children of
   i are 2i and 2i+1), following the child pointers only.                  *)
RECURSIVE At(_, _)
At(h, i) == IF i = 1 THEN h.root
            ELSE LET p == At(h, i \div 2)
                 IN  IF p = 0 THEN 0 ELSE IF i % 2 = 0 THEN h.lft[p] ELSE h.rgt[p]

HeapNodes(h) == {At(h, i) : i \in 1..h.size}

\* complete tree: exactly the indices 1..size are occupied, by distinct nodes
Shape(h) ==
   /\ (h.size = 0) = (h.root = 0)
   /\ \A i \in 1..h.size : At(h, i) # 0
   /\ \A i, j \in 1..h.size : i # j => At(h, i) # At(h, j)
   /\ \A i \in 1..h.size : /\ 2 * i > h.size => h.lft[At(h, i)] = 0
                           /\ 2 * i + 1 > h.size => h.rgt[At(h, i)] = 0

\* parent pointers are the inverse of the child pointers
Linked(h) ==
   /\ h.size > 0 => h.par[h.root] = 0
   /\ \A i \in 2..h.size : At(h, i) # 0 => h.par[At(h, i)] = At(h, i \div 2)

\* no child is "greater" than its parent (= no child has a smaller clock)
HeapOrder(h, key) ==
   \A i \in 2..h.size : (At(h, i) # 0 /\ At(h, i \div 2) # 0) => ~Gt(key, At(h, i), At(h, i \div 2))

\* the path-bit descent of heap_get reaches the node with that index
GetAgrees(h) == \A i \in 1..h.size : HeapGet(h, i) = At(h, i)

\* size = number of nodes = the nodes the caller believes to be inside
SizeOK(h, members) == HeapNodes(h) = members /\ Cardinality(members) = h.size

HeapWellFormed(h, key, members) ==
   ~h.died /\ Shape(h) /\ Linked(h) /\ HeapOrder(h, key) /\ GetAgrees(h) /\ SizeOK(h, members)
=============================================================================
