"""C14 (version gating follows semantic versioning) - Version.tla.

TLC checks the theorems of spec/Version.tla exhaustively (all want/have
triples over 0..3, all strings up to length 7 over {0,1,2,.,-,a}, all
(events, requires, -a) model configurations) and prints every case with the
verdict of the property layer.  The negative configurations (wrong variants of
the code-shaped layer) must be refuted.  The exported cases are replayed on
the real code:

  * version_parse / version_is_compatible of src/include/version.h (compiled
    from the tree under test into drivers/vercheck.c),
  * ovni_version_check_str and ovni_thread_require of libovni.so in forked
    children (normal return vs abort),
  * ovniemu on synthetic traces whose metadata require version strings per
    model and whose streams carry one harmless event pair per model.

Tiers: quick enumerates strings up to length 6 (Version_Quick.cfg) and samples
the emulator cases; thorough enumerates length 7 (Version.cfg) and replays every
(events, requires, -a) configuration.

Version strings around the real versions (library, every model) are built
here as *inputs*; their verdicts come from TLC (spec/VersionCases.tla).
Nothing in this file decides what the right outcome is.
"""
import json
import os
import random
import re
import shutil
import struct
import zlib

from vlib import core, obs, emu

ALPHABET = ["0", "1", "2", ".", "-", "a"]
NEGATIVES = [("Version_Neg.cfg", "minor compared with >= (reflexivity must fail)"),
             ("Version_NegPatch.cfg", "patch compared (patch independence must fail)"),
             ("Version_NegParse.cfg", "trailing characters after a number accepted (ParseRefines must fail)"),
             ("Version_NegLenient.cfg", "the strtok_r / strtol parser of the pinned code (accepts 1..2.3, +1.2.3, 1.2.3.4)"),
             ("Version_NegEnable.cfg", "models enabled although no stream requires them"),
             ("Version_NegEvent.cfg", "events of disabled models not rejected")]


# --------------------------------------------------------------------------
# inputs taken from the tree under test

def load_models():
    d = json.load(open(os.path.join(core.SPEC, "data", "events.json")))["models"]
    out = {}
    for name, m in d.items():
        evs = m["events"]
        pair = None
        for k in sorted(evs):
            e = evs[k]
            if e["action"] == "push" and e["sig"] == "" and not e["jumbo"]:
                pops = [q for q in sorted(evs) if evs[q]["action"] == "pop"
                        and evs[q]["chan"] == e["chan"] and evs[q]["value"] == e["value"]]
                if pops:
                    pair = (k, pops[0])
                    break
        out[name] = {"version": m["version"], "char": m["char"], "pair": pair}
    return out


def lib_version(bdir):
    txt = open(os.path.join(bdir, "include", "ovni.h")).read()
    m = re.search(r'#define\s+OVNI_LIB_VERSION\s+"([^"]+)"', txt)
    if not m:
        raise core.MachineryError("OVNI_LIB_VERSION not found in the built ovni.h")
    return m.group(1)


def triple_of(ver):
    """Split a provider version into numbers (input encoding only; TLC checks in
    VersionCases that the provider string is a well-formed version)."""
    m = re.match(r"^(\d+)\.(\d+)\.(\d+)$", ver)
    if not m:
        raise core.MachineryError("provider version %r is not N.N.N" % ver)
    return tuple(int(x) for x in m.groups())


def code_of(ver):
    t = triple_of(ver)
    if max(t) >= 100:
        raise core.MachineryError("provider version %r does not fit the HaveCodes coding" % ver)
    return t[0] * 10000 + t[1] * 100 + t[2]


def make_cfg(base, codes, scratch):
    """The cfg used for the exhaustive run: spec/<base> with HaveCodes replaced
    by the versions of the tree under test (cfg files cannot hold tuples)."""
    txt = open(os.path.join(core.SPEC, base)).read()
    new, n = re.subn(r"HaveCodes = \{[^}]*\}", "HaveCodes = {%s}" % ", ".join(str(c) for c in sorted(codes)), txt)
    if n != 1:
        raise core.MachineryError("HaveCodes line not found in %s" % base)
    m = re.search(r"Models = \{([^}]*)\}", txt)
    p = os.path.join(scratch, base)
    open(p, "w").write(new)
    return p, set(re.findall(r'"([^"]+)"', m.group(1))) if m else set()


def around(ver):
    """Version strings around a provider version (inputs): every combination of
    major-1..+1, minor-2..+2, patch-1..+1, decorated and damaged spellings."""
    a, b, c = triple_of(ver)
    out = []
    for da in (-1, 0, 1):
        for db in (-2, -1, 0, 1, 2):
            for dc in (-1, 0, 1):
                t = (a + da, b + db, c + dc)
                if min(t) >= 0:
                    out.append("%d.%d.%d" % t)
    out += ["%d.0.0" % a, "%d.%d.99" % (a, b), "%d.%d.0" % (a, b + 10), "%d.%d.0" % (a + 10, b),
            "0.0.0", "%d.%d" % (a, b), "%d" % a, "%d.%d." % (a, b), "", ".", "..", "...",
            "%d.%d.%d-rc1" % (a, b, c), "%d.%d.%d-" % (a, b, c), "%d.%d.%d-1.2" % (a, b + 1, c),
            "%d.%d.%d-rc1" % (a, b + 1, c), "%d.%d.%d-rc1" % (a + 1, b, c),
            "%d.%d.%drc" % (a, b, c), "%d.%d.%d rc" % (a, b, c), "v%d.%d.%d" % (a, b, c),
            "%d,%d,%d" % (a, b, c), "%d-%d-%d" % (a, b, c), "%d.%d-%d" % (a, b, c),
            "%d.x.%d" % (a, c), "%d.%d.x" % (a, b), "x.%d.%d" % (b, c), "%d.O.O" % a,
            "-%d.%d.%d" % (a, b, c), "%d.-%d.%d" % (a, b, c), "%d.%d.-%d" % (a, b, c),
            "-%d.%d.%d" % (a + 1, b, c), "%d.-%d.%d" % (a, b + 1, c),
            "+%d.%d.%d" % (a, b, c), " %d.%d.%d" % (a, b, c), "%d.%d.%d " % (a, b, c),
            "%d. %d.%d" % (a, b, c), "%d.+%d.%d" % (a, b + 1, c), " %d.%d.%d" % (a + 1, b, c),
            "%d..%d.%d" % (a, b, c), ".%d.%d.%d" % (a, b, c), "%d.%d..%d" % (a, b, c),
            "%d.%d.%d." % (a, b, c), "%d.%d.%d.7" % (a, b, c), "%d..%d.%d" % (a, b + 1, c),
            "%d.%d.%d.7" % (a + 1, b, c), ".%d.%d.%d" % (a, b + 1, c),
            "0%d.00%d.0%d" % (a, b, c), "0%d.0%d.%d" % (a, b + 1, c),
            "0x%d.%d.%d" % (a, b, c), "%d.%de0.%d" % (a, b, c), "%d.%d.%d.%d.%d" % (a, b, c, a, b),
            "%d.%d.%d-%s" % (a, b, c, "a" * 40), "%d.%d.%d-%s" % (a, b, c, "a" * 70),
            ("%d.%d.%d-" % (a, b, c)).ljust(63, "z"), ("%d.%d.%d-" % (a, b, c)).ljust(64, "z"),
            ("%d.%d.%d-" % (a, b + 1, c)).ljust(63, "z"),
            "%d.%d.%d" % (a, b, 2 ** 32), "%d.%d.%d" % (a, b, 2 ** 31), "%d.%d.%d" % (a, b, 10 ** 20),
            "%d.%d.%d" % (a, 2 ** 32 + b, c), "%d.%d.%d" % (a, 2 ** 32, c), "%d.%d.%d" % (a, 2 ** 31, c),
            "%d.%d.%d" % (a, 2 ** 33 + b, c), "%d.%d.%d" % (a, 10 ** 20, c), "%d.%d.%d" % (a, 10 ** 9, c),
            "%d.%d.%d" % (2 ** 32 + a, b, c), "%d.%d.%d" % (2 ** 31 + a, b, c), "%d.%d.%d" % (10 ** 20, b, c),
            "%d.%d.%d" % (a, 999999999, c), "%d.%d.%d" % (999999999, b, c), "%d.%d.999999999" % (a, b)]
    seen = set()
    res = []
    for s in out:
        if s not in seen:
            seen.add(s)
            res.append(s)
    return res


def wide_number(strings):
    """Shape used only to name the known finding: some number has 10 or more
    significant digits."""
    for s in strings:
        for num in re.findall(r"\d+", s):
            if len(num.lstrip("0")) >= 10:
                return True
    return False


# --------------------------------------------------------------------------
# runtime side (drivers/vercheck.c)

def hexline(s):
    return (s.encode("latin1").hex() or "-") + "\n"


def run_driver(drv, mode, lines, env=None):
    d = core.mkscratch("ver")
    try:
        ip, op = os.path.join(d, "in"), os.path.join(d, "out")
        open(ip, "w").write("".join(lines))
        e = {"OVNI_TRACEDIR": os.path.join(d, "ovni")}
        if env:
            e.update(env)
        rc, out, err = core.run([drv, mode, ip, op], timeout=900, env=e, cwd=d)
        if rc != 0:
            raise core.MachineryError("vercheck %s failed (rc=%s): %s" % (mode, rc, err.decode("latin1")[-500:]))
        res = open(op).read().split("\n")
        if res and res[-1] == "":
            res.pop()
        if len(res) != len(lines):
            raise core.MachineryError("vercheck %s printed %d results for %d cases" % (mode, len(res), len(lines)))
        return res
    finally:
        shutil.rmtree(d, ignore_errors=True)


def run_driver_par(drv, mode, strings):
    n = len(strings)
    if n == 0:
        return []
    k = max(1, min(core.NCPU, n // 500))
    chunks = [strings[i * n // k:(i + 1) * n // k] for i in range(k)]
    parts = core.pmap(lambda ch: run_driver(drv, mode, [hexline(s) for s in ch]), chunks)
    return [x for p in parts for x in p]


# --------------------------------------------------------------------------
# emulator side

def trace_files(streams, models):
    """streams: list of {"req": {model: version string}, "ev": [model names]}; one
    thread per stream, all in one process on one loom with one CPU each.
    Returns {relative path: bytes}."""
    files = {}
    n = len(streams)
    for k, st in enumerate(streams):
        tid = 101 + k
        c = 1000 + k
        evb = [obs.ev("OHx", c, struct.pack("<iiQ", k, tid, 0))]
        for m in st["ev"]:
            if models[m]["pair"] is None:
                continue            # the core model: OHx/OHe are its events
            a, b = models[m]["pair"]
            c += 10
            evb.append(obs.ev(a, c))
            c += 10
            evb.append(obs.ev(b, c))
        c += 10
        evb.append(obs.ev("OHe", c))
        meta = obs.thread_meta(tid, 1001, "node1.x", app_id=1,
                               cpus=[(i, 10 + i) for i in range(n)] if k == 0 else None,
                               require=st["req"])
        base = "loom.node1.x/proc.1001/thread.%d/" % tid
        files[base + "stream.obs"] = obs.HDR + b"".join(evb)
        files[base + "stream.json"] = json.dumps(meta, indent=1).encode()
    return files


_ENABLED_HDR = re.compile(r"models are enabled")
_ENABLED_LINE = re.compile(r"INFO:\s+(\S+) (\S+) '(.)' \(\d+ events\)")


def enabled_list(text):
    """Names of the models ovniemu reports as enabled, or None if the report
    is not there (probe failed, or the wording changed: then nothing is observed)."""
    if not _ENABLED_HDR.search(text) and "no models enabled" not in text:
        return None
    return set(m.group(1) for m in _ENABLED_LINE.finditer(text))


def run_emu(bdir, streams, models, enable_all):
    d = core.mkscratch("vemu")
    try:
        td = os.path.join(d, "ovni")
        for rel, data in trace_files(streams, models).items():
            p = os.path.join(td, rel)
            os.makedirs(os.path.dirname(p), exist_ok=True)
            open(p, "wb").write(data)
        r = emu.ovniemu(bdir, td, ("-l", "-a") if enable_all else ("-l",), timeout=60)
        return {"verdict": r.verdict, "accepted": r.accepted, "enabled": enabled_list(r.text),
                "errors": r.last_errors(3), "tail": r.text[-3000:]}
    finally:
        shutil.rmtree(d, ignore_errors=True)


def refused(res):
    """A rejection is a diagnosed refusal; dying from a signal or hanging is not."""
    v = res["verdict"]
    return not res["accepted"] and not v.startswith("signal") and v not in ("timeout", "sanitizer")


def emu_bundle(streams, models, enable_all, res):
    b = {"trace/" + k: v for k, v in trace_files(streams, models).items()}
    b["command.txt"] = "OVNI_CONFIG_DIR=<empty dir> ovniemu -l%s trace\n" % (" -a" if enable_all else "")
    b["emu.stderr"] = res["tail"]
    return b


# --------------------------------------------------------------------------

def chars(s):
    return list(s)


def tlc_cases(ck, cases, label):
    """cases: list of dicts with ss (list of str), h (str), all (bool). Adds 'rv'
    and 'p' (TLC verdicts) to each."""
    d = core.mkscratch("vcases")
    try:
        p = os.path.join(d, "cases.ndjson")
        with open(p, "w") as f:
            for i, c in enumerate(cases):
                f.write(json.dumps({"i": i, "ss": [chars(s) for s in c["ss"]], "h": chars(c["h"]),
                                    "all": bool(c["all"])}) + "\n")
        r = core.tlc("VersionCases", "VersionCases.cfg", workers=1, env={"CASES": p}, timeout=1200)
        core.tlc_expect_ok(r, "VersionCases")
        ck.add_tlc(r, label)
        if r.violated:
            ck.violation("VersionCases: the code-shaped layer of Version.tla violates %s on a version string "
                         "derived from the real versions" % r.violated, {"tlc.out": r.out[-20000:]})
        got = {o["i"]: o for tg, o in r.lines if isinstance(o, dict)}
        if len(got) != len(cases) and not r.violated:
            raise core.MachineryError("VersionCases exported %d verdicts for %d cases\n%s"
                                      % (len(got), len(cases), r.out[-1500:]))
        for i, c in enumerate(cases):
            o = got.get(i)
            c["rv"] = o["rv"] if o else None
            c["p"] = o["p"] if o else None
            c["pk"] = o["pk"] if o else None
        return r
    finally:
        shutil.rmtree(d, ignore_errors=True)


def nontrivial_string(s, kind):
    return kind != "malformed" or (s.count(".") >= 2 and any(ch.isdigit() for ch in s))


def main(pid, tier):
    ck = core.Check(pid, "model_checking", tier)
    rng = random.Random(core.seed())
    quick = tier == "quick"
    bdir = core.build("hooks")
    drv = core.cc_driver(bdir, "vercheck.c")
    models = load_models()
    libver = lib_version(bdir)
    libcode = code_of(libver)
    mcode = {m: code_of(v["version"]) for m, v in models.items()}
    agreed = [0]
    scratch = core.mkscratch("vercfg")
    try:
        maxlen = 6 if quick else 7
        cfg, cfg_models = make_cfg("Version_Quick.cfg" if quick else "Version.cfg",
                                   set(mcode.values()) | {libcode}, scratch)
        if cfg_models != set(models):
            raise core.MachineryError("Models of Version.cfg %s differ from events.json %s"
                                      % (sorted(cfg_models), sorted(models)))
        # ---- TLC: theorems + export
        r = core.tlc("Version", cfg, timeout=3000, heap="8g")
    finally:
        shutil.rmtree(scratch, ignore_errors=True)
    core.tlc_expect_ok(r, "Version")
    ck.add_tlc(r, "Version (triples 0..3, strings <= %d over {0,1,2,.,-,a}, %d models: all (events, requires, -a))"
               % (maxlen, len(models)))
    if r.violated:
        ck.violation("Version.tla: the code-shaped layer (mirror of version.h / model.c) violates %s" % r.violated,
                     {"tlc.out": r.out[-20000:]})
    for ncfg, what in NEGATIVES:
        rn = core.tlc("Version", ncfg, workers=4, timeout=600)
        ck.add_tlc(rn, "%s (%s; must fail)" % (ncfg, what))
        if not rn.violated:
            raise core.MachineryError("negative configuration %s no longer fails: vacuous model\n%s"
                                      % (ncfg, rn.out[-1500:]))
    exp = {"pair": [], "str": [], "extra": [], "model": []}
    for tg, o in r.lines:
        if isinstance(o, dict) and o.get("k") in exp:
            exp[o["k"]].append(o)
    nmod = len(models)
    want_counts = {"pair": 4 ** 6, "str": sum(len(ALPHABET) ** k for k in range(1, maxlen + 1)),
                   "model": 2 ** (2 * nmod)}       # only configurations with core events are exported
    if not r.violated:
        for k, n in want_counts.items():
            if len(exp[k]) != n:
                raise core.MachineryError("Version export: %d %s cases, expected %d" % (len(exp[k]), k, n))
    ck.notes["exported"] = {k: len(v) for k, v in exp.items()}
    ck.phase("tlc")

    # ---- version_is_compatible on every pair
    pairs = exp["pair"]
    res = run_driver(drv, "compat", ["%d %d %d %d %d %d\n" % tuple(o["w"] + o["h"]) for o in pairs])
    for o, got in zip(pairs, res):
        ck.case("compat %s %s" % (o["w"], o["h"]), nontrivial=o["w"][0] == o["h"][0])
        if (got == "1") != bool(o["c"]):
            ck.violation("version_is_compatible disagrees with Compatible\n"
                         "version_is_compatible(want=%s, have=%s) returns %s, Compatible is %s"
                         % (o["w"], o["h"], got, o["c"]),
                         {"case.json": o, "how.txt": "drivers/vercheck.c compat mode: line 'w1 w2 w3 h1 h2 h3'\n"},
                         sig="compat")
        else:
            agreed[0] += 1

    # ---- version_parse on every string
    strs = exp["str"] + exp["extra"]
    res = run_driver_par(drv, "parse", [o["s"] for o in strs])
    for o, got in zip(strs, res):
        f = got.split()
        rc, tup = int(f[0]), [int(x) for x in f[1:4]]
        ck.case("parse " + o["s"], nontrivial=nontrivial_string(o["s"], o["p"]))
        if o["pk"] == "ok":
            good = rc == 0 and tup == o["v"]
        elif o["pk"] == "malformed":
            good = rc != 0
        else:
            good = rc != 0 or not o["exact"] or tup == o["v"]
        if not good:
            ck.violation("version_parse disagrees with Parse\n"
                         "version_parse(%r) returns %d %s, Parse says %s %s" % (o["s"], rc, tup, o["pk"], o["v"]),
                         {"case.json": o, "how.txt": "drivers/vercheck.c parse mode (hex encoded string)\n"},
                         sig="parse")
        else:
            agreed[0] += 1

    # ---- ovni_version_check_str on every string (provider = the built library)
    res = run_driver_par(drv, "check", [o["s"] for o in strs])
    nacc = 0
    for o, got in zip(strs, res):
        rv = "accept" if libcode in o["acc"] else ("unspecified" if libcode in o["uns"] else "reject")
        nacc += rv == "accept"
        ck.case("check " + o["s"], nontrivial=rv != "reject" or nontrivial_string(o["s"], o["p"]))
        good = (got == "ok") if rv == "accept" else (got == "abort") if rv == "reject" else got in ("ok", "abort")
        if not good:
            ck.violation("ovni_version_check_str: outcome not allowed by the spec (%s expected)\n"
                         "ovni_version_check_str(%r) of libovni %s: %s, the spec says %s"
                         % (rv, o["s"], libver, got, rv),
                         {"case.json": o, "how.txt": "drivers/vercheck.c check mode (hex encoded string)\n"},
                         sig="libcheck")
        else:
            agreed[0] += 1
    ck.notes["small_domain_strings_accepted_by_lib"] = nacc

    # ---- ovni_thread_require: malformed strings refused when the requirement is recorded
    sel = [o for o in strs if o["p"] != "malformed"]
    rest = [o for o in strs if o["p"] == "malformed"]
    rng.shuffle(rest)
    sel += rest[:3000 if quick else 40000]
    res = run_driver_par(drv, "require", [o["s"] for o in sel])
    for o, got in zip(sel, res):
        ck.case("require " + o["s"], nontrivial=nontrivial_string(o["s"], o["p"]))
        good = (got == "ok") if o["pk"] == "ok" else (got == "abort") if o["pk"] == "malformed" else got in ("ok", "abort")
        if not good:
            ck.violation("ovni_thread_require: outcome not allowed by the spec (%s string)\n"
                         "ovni_thread_require(\"vtest\", %r): %s, Parse says %s" % (o["pk"], o["s"], got, o["pk"]),
                         {"case.json": o, "how.txt": "drivers/vercheck.c require mode (hex encoded string)\n"},
                         sig="require")
        else:
            agreed[0] += 1
    ck.phase("runtime_small_domain")

    # ---- strings around the real versions: verdicts from VersionCases
    cases = []
    for s in around(libver):
        cases.append({"side": "lib", "ss": [s], "h": libver, "all": False})
    for m in sorted(models):
        ver = models[m]["version"]
        ar = around(ver)
        for s in ar:
            cases.append({"side": "emu", "model": m, "ss": [s], "h": ver, "all": False})
        sub = ar[:] if not quick else rng.sample(ar, 40)
        for s in sub:
            cases.append({"side": "emu", "model": m, "ss": [s], "h": ver, "all": True})
        # two streams requiring the same model
        for _ in range(40 if quick else 400):
            cases.append({"side": "emu", "model": m, "ss": [rng.choice(ar), rng.choice(ar)], "h": ver,
                          "all": rng.random() < 0.2})
        a, b, c = triple_of(ver)
        for s2 in ("%d.%d.%d" % (a, b + 1, c), "%d.%d.%d" % (a + 1, b, c), "%d.%d" % (a, b), "%d.0.0" % a):
            cases.append({"side": "emu", "model": m, "ss": [ver, s2], "h": ver, "all": False})
            cases.append({"side": "emu", "model": m, "ss": [s2, ver], "h": ver, "all": False})
    rc_ = tlc_cases(ck, cases, "VersionCases (strings around library %s and the model versions)" % libver)
    cases = [c for c in cases if c["rv"] is not None]
    ck.phase("tlc_cases")

    libcases = [c for c in cases if c["side"] == "lib"]
    res = run_driver(drv, "check", [hexline(c["ss"][0]) for c in libcases])
    for c, got in zip(libcases, res):
        s = c["ss"][0]
        ck.case("check@lib " + s, nontrivial=True)
        rv = c["rv"]
        good = (got == "ok") if rv == "accept" else (got == "abort") if rv == "reject" else got in ("ok", "abort")
        if not good:
            sig = "int-truncation" if (rv == "reject" and got == "ok" and wide_number([s])) else "libcheck"
            ck.violation("ovni_version_check_str: outcome not allowed by the spec (%s expected%s)\n"
                         "ovni_version_check_str(%r) of libovni %s: %s, the spec says %s (Parse: %s)"
                         % (rv, ", number of 10+ digits" if sig == "int-truncation" else "",
                            s, libver, got, rv, json.dumps(c["p"])),
                         {"case.json": {k: v for k, v in c.items()},
                          "how.txt": "drivers/vercheck.c check mode, or any program calling "
                                     "ovni_version_check_str(%r)\n" % s}, sig=sig)
        else:
            agreed[0] += 1

    # small-domain strings for the emulator: everything not rejected + a sample of rejected ones
    emucases = [c for c in cases if c["side"] == "emu"]
    for m in sorted(models):
        code = mcode[m]
        keep = [o for o in strs if code in o["acc"] or code in o["uns"]]
        rej = [o for o in strs if not (code in o["acc"] or code in o["uns"])]
        near = [o for o in rej if o["p"] != "malformed"]
        far = [o for o in rej if o["p"] == "malformed"]
        rng.shuffle(near)
        rng.shuffle(far)
        pick = keep + near[:150 if quick else 5000] + far[:100 if quick else 5000]
        for o in pick:
            rv = "accept" if code in o["acc"] else ("unspecified" if code in o["uns"] else "reject")
            emucases.append({"side": "emu", "model": m, "ss": [o["s"]], "h": models[m]["version"],
                             "all": False, "rv": rv, "p": [{"kind": o["p"], "v": o["v"]}], "pk": [o["pk"]]})

    def emu_version_case(c):
        m = c["model"]
        streams = []
        for s in c["ss"]:
            req = {m: s}
            if m != "ovni":
                req["ovni"] = models["ovni"]["version"]
            # a refusal must come from the version, not from an event of a model left disabled: every other
            # case that must be refused carries no event of the model at all
            streams.append({"req": req, "ev": [] if c.get("noev") else [m]})
        return streams, run_emu(bdir, streams, models, c["all"])

    for k_, c in enumerate(emucases):
        if c["rv"] == "reject" and k_ % 2 == 1:
            c["noev"] = True
    results = core.pmap(emu_version_case, emucases)
    nacc = 0
    for c, (streams, res) in zip(emucases, results):
        rv = c["rv"]
        nacc += rv == "accept"
        ck.case("emu %s %s %s" % (c["model"], json.dumps(c["ss"]), c["all"]), nontrivial=True)
        good = res["accepted"] if rv == "accept" else refused(res) if rv == "reject" else True
        if not good:
            sig = ("int-truncation" if (rv == "reject" and res["accepted"] and wide_number(c["ss"]))
                   else "emu-version")
            ck.violation("ovniemu: verdict on a required model version not allowed by the spec (%s expected%s)\n"
                         "ovniemu%s on a trace requiring %s %s (model version %s): %s, the spec says %s\n%s"
                         % (rv, ", number of 10+ digits" if sig == "int-truncation" else "",
                            " -a" if c["all"] else "", c["model"], " and ".join(repr(s) for s in c["ss"]),
                            c["h"], res["verdict"], rv, "\n".join(res["errors"])),
                         emu_bundle(streams, models, c["all"], res), sig=sig)
        else:
            agreed[0] += 1
    ck.notes["emulator_version_cases"] = {"total": len(emucases), "expected_accept": nacc,
                                          "expected_unspecified": sum(1 for c in emucases if c["rv"] == "unspecified")}
    ck.phase("versions_around_real")

    # ---- model enabling: (events, requires, -a) from the TLC export
    names = sorted(models)
    replayable = exp["model"]
    full = [o for o in replayable if len(o["ev"]) == nmod]
    others = [o for o in replayable if len(o["ev"]) != nmod]
    rng.shuffle(others)
    sel = full + (others[:2500] if quick else others)

    def emu_model_case(o):
        lr = random.Random(core.seed() * 1000003 + zlib.crc32(json.dumps(
            [sorted(o["req"]), sorted(o["ev"]), o["all"]]).encode()))
        two = lr.random() < 0.5
        ns = 2 if two else 1
        streams = [{"req": {}, "ev": ["ovni"]} for _ in range(ns)]
        for m in sorted(o["req"]):
            where = lr.choice([[0], [1], [0, 1]]) if two else [0]
            for k in where:
                streams[k]["req"][m] = models[m]["version"]
        for m in names:
            if m in o["ev"] and m != "ovni":
                streams[lr.randrange(ns)]["ev"].append(m)
        # decoys: names that are not models (an extension of the name of a model that no stream
        # requires) in the require table of half of the cases; they require nothing
        decoys = lr.random() < 0.5
        if decoys:
            for m in names:
                if m not in o["req"] and m != "ovni":
                    k = lr.randrange(ns)
                    streams[k]["req"][m + "2"] = models[m]["version"]
        return (streams, decoys), run_emu(bdir, streams, models, o["all"])

    results = core.pmap(emu_model_case, sel)
    nobs = 0
    for o, ((streams, decoys), res) in zip(sel, results):
        tv = o["tv"]
        if decoys and tv == "accept":
            tv = "either"       # whether a trace naming an unknown model in its requirements is processed at all is open
        ck.case("models ev=%s req=%s all=%s" % (sorted(o["ev"]), sorted(o["req"]), o["all"]),
                nontrivial=len(o["ev"]) > 1)
        good = res["accepted"] if tv == "accept" else refused(res) if tv == "reject" else True
        desc = ("events of %s, required %s, %s" % (sorted(o["ev"]), sorted(o["req"]),
                                                    "-a" if o["all"] else "no -a"))
        if not good:
            ck.violation("ovniemu: model enabling, verdict not allowed by the spec (%s expected)\n"
                         "ovniemu %s a trace with %s; the spec says %s\n%s"
                         % (tv, "accepts" if res["accepted"] else "refuses" if refused(res)
                            else "dies (%s) on" % res["verdict"], desc, tv,
                            "\n".join(res["errors"])),
                         emu_bundle(streams, models, o["all"], res), sig="model-enable")
            continue
        en = res["enabled"]
        bad = []
        if en is not None:
            nobs += 1
            for m in names:
                if o["en"][m] == "yes" and m not in en:
                    bad.append("%s not enabled" % m)
                if o["en"][m] == "no" and m in en:
                    bad.append("%s enabled" % m)
        if bad:
            ck.violation("ovniemu reports a set of enabled models not allowed by the spec\n"
                         "%s, for a trace with %s" % (", ".join(bad), desc), emu_bundle(streams, models, o["all"], res), sig="model-enable")
        else:
            agreed[0] += 1
    ck.notes["model_enabling_cases"] = {"replayed": len(sel), "all_models_have_events": len(full),
                                        "enabled_report_observed": nobs}
    ck.phase("model_enabling")

    ck.cov["traces_validated_against_impl"] = agreed[0]
    for o in (exp["pair"][77:78] + [x for x in strs if x["p"] == "unspecified"][:2] + emucases[:1] + sel[:1]):
        ck.sample(o)
    ck.assumptions += [
        "provider versions (library, models) have numbers below 100 (HaveCodes coding) and below 10^9",
        "numbers of 10 or more significant digits saturate in the spec: an incompatible one must be refused, "
        "refusing a compatible one is an accepted implementation limit",
        "every string outside the grammar N.N.N[-suffix] is malformed and must be refused (empty components, a "
        "fourth component, blanks and signs included)",
        "the core model (ovni) not required by any stream is Unspecified (the runtime always requires it)",
        "model names, versions and the harmless event pair of each model come from spec/data/events.json",
        "TLC results are exhaustive within the stated constants"]
    return ck.finish(rule="cases = exported (want,have) pairs on version_is_compatible; exported strings on version_parse, "
                          "ovni_version_check_str and ovni_thread_require (forked child each); strings around the real "
                          "versions on libovni and on ovniemu (per model, one and two streams, with/without -a); "
                          "(events, requires, -a) configurations on ovniemu; non-trivial = same major (pairs), "
                          "a string that parses or has two dots and a digit, every around-real and multi-model "
                          "case; distinct by input")
