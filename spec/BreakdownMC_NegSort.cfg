SPECIFICATION BSpec
CONSTANTS
  System <- SysC20VQ
  Alphabet <- AlphaC20VQ
  MaxLen = 7
  Lint = TRUE
  SortVariant = "jump_always"
  StaleOK = TRUE
VIEW BView
INVARIANT BInv
CHECK_DEADLOCK FALSE
