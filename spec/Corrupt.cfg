SPECIFICATION CSpec
CONSTANTS
  Variant = "code"
  SeedIds = {1, 2, 3, 4, 5}
  Deep = FALSE
INVARIANTS Props ExportInv
CHECK_DEADLOCK FALSE
