"""C07 (task life-cycle) - EmuFull task layer via EmuMC.

Bounded models for nOS-V (normal + parallel tasks, 2 threads, rank) and
Nanos6 (relaxed nesting) explored exhaustively by TLC with the invariants
BodyRunsOnAtMostOneThread, OnlyTopRuns, TaskChansMirrorBodies,
ParallelNeverPaused; transition cover replayed on ovniemu and validated by
EmuTrace (task id / type / body id / app id / rank timelines, verdict).
The task module itself (all 16 flag combinations) is driven in-process by
drivers/taskharness.c along TLC-generated call sequences (TaskMod.tla).
"""
from vlib import core, emuhist


def main(pid, tier):
    ck = core.Check(pid, "model_checking", tier)
    bdir = core.build("hooks")
    for cfg, name in (("EmuMC_C07V.cfg", "nosv"), ("EmuMC_C076.cfg", "nanos6")):
        r, g = emuhist.explore(cfg)
        ck.add_tlc(r, "EmuMC/%s (%s tasks)" % (cfg, name))
        if r.violated:
            ck.violation("model %s violates %s" % (cfg, r.violated), {"tlc.out": r.out[-20000:]})
        emuhist.conformance(ck, bdir, g, tier, limit_quick=12000, limit_thorough=None, label="C07/" + name,
                            pairs=600 if tier == "quick" else 20000, pair_same=emuhist.same_category)
    ck.phase("transition_cover")
    # both task models in ONE trace (a Nanos6 runtime on top of nOS-V, or two runtimes in one process): the
    # rules of each model hold whatever the other one did before - Nanos6 may nest over a running task
    # (relaxed), nOS-V may not
    from checks import emu_models

    def E(m, a=None, j=False):
        return {"th": 1, "m": m, "mc": m[0], "a": a or [], "j": j}
    X, End = E("OHx", [0, 101, 7]), E("OHe")
    n6 = [E("6Yc", [1, 5], True), E("6Tc", [1, 1]), E("6Tc", [2, 1])]
    nv = [E("VYc", [1, 5], True), E("VTc", [1, 1]), E("VTc", [2, 1])]
    # (a region between the two task starts: a task begun directly over the body region of another one is
    # Unspecified, see the assumptions)
    relaxed = [E("6Tx", [1]), E("6U["), E("6Tx", [2]), E("6Te", [2]), E("6U]"), E("6Te", [1])]
    mixed = [
        [X] + n6 + nv + relaxed + [E("VTx", [1, 0]), E("VTx", [2, 0]), E("VTe", [2, 0]), E("VTe", [1, 0]), End],
        [X] + n6 + nv + relaxed + [E("VTx", [1, 0]), E("VTp", [1, 0]), E("VTx", [2, 0]), E("VTe", [2, 0]),
                                   E("VTr", [1, 0]), E("VTe", [1, 0]), End],
        [X] + n6 + nv + [E("VTx", [1, 0]), E("VTx", [2, 0]), E("VTe", [2, 0]), E("VTe", [1, 0])] + relaxed + [End],
        [X] + n6 + nv + [E("VTx", [1, 0])] + relaxed + [E("VTe", [1, 0]), End],
    ]
    system = emu_models.sys1({"O", "V", "6"})
    emu_models.run_extra(ck, bdir, emuhist.sys_with_rank(system), mixed, "C07/both-models")
    ck.phase("both_models")
    try:
        from checks import taskmod
        taskmod.run(ck, bdir, tier)
        ck.phase("task_module")
    except ImportError:
        pass
    ck.assumptions += ["task type values are compared through their PCF label (the hash-derived gid is opaque)",
                       "a Nanos6 task started directly over the TASK_BODY region is Unspecified (C07 allows, C08 refuses)"]
    return ck.finish(rule="one emulator history per transition of the bounded nOS-V and Nanos6 task models "
                          "(+ in-process call sequences on task.c/body.c for all flag combinations); "
                          "non-trivial = at least 2 events; distinct by event list")
