---------------------------- MODULE BreakdownMC ----------------------------
(* Bounded model of the breakdown view for TLC (C20): the bounded emulator
   model of EmuMC extended with
     - the selection memory of the task/subsystem mux (Breakdown!sel),
     - the implementation layer of the sort module fed by the per-CPU
       values the code computes: sort_cb_input per changed CPU value, first
       full sort then SortOps!SortReplace as written in sort.c.
   TLC checks Impl => Property on every reachable state (the composition of
   mux memory, idle replacement and incremental sort yields rows that are a
   sorted arrangement of allowed per-CPU values) and exports every
   transition for the end-to-end conformance run with ovniemu -b.        *)
EXTENDS EmuMC, Breakdown

CONSTANTS SortVariant,    \* variant of sort_replace composed ("code" | a wrong one)
          StaleOK         \* TRUE: the stale mux selection is an allowed value (Unspecified)

VARIABLES bst             \* [vals, sorted, copied, outs]: sort module state, index = position of the CPU among the physical ones

bmcVars == <<mcVars, sel, bst>>

PhysSeq == SeqOfFun([c \in PhysCpus |-> c], PhysCpus)
NPhys == Len(PhysSeq)

\* sort_cb_input on the record
SortCb(st, i, new) ==
   LET old == st.vals[i] IN
   IF old = new THEN st
   ELSE LET v2 == [st.vals EXCEPT ![i] = new]
            s2 == IF st.copied THEN SortReplace(SortVariant, st.sorted, old, new).arr
                  ELSE SortAsc(v2)
        IN  [vals |-> v2, sorted |-> s2, copied |-> TRUE, outs |-> s2]

RECURSIVE Feed(_, _, _)
Feed(st, i, newvals) ==
   IF i > Len(newvals) THEN st ELSE Feed(SortCb(st, i, newvals[i]), i + 1, newvals)

ImplVals == [i \in 1..NPhys |-> ImplVal(PhysSeq[i])]

BInit == /\ MCInit /\ InitSel(System)
         /\ bst = [vals |-> [i \in 1..NPhys |-> 0], sorted |-> [i \in 1..NPhys |-> 0],
                   copied |-> FALSE, outs |-> [i \in 1..NPhys |-> 0]]

BNext == /\ MCNext
         /\ \E e \in Alphabet : e = last' /\ SelStep(e)
         /\ bst' = IF failed' \/ unspec' THEN bst ELSE Feed(bst, 1, ImplVals')
BSpec == BInit /\ [][BNext]_bmcVars

BView == <<allVars, sel, bst>>

-----------------------------------------------------------------------------
(* Impl => Property *)
RowsAreSortedCandidates ==
   (~failed /\ ~unspec) =>
      /\ \A c \in PhysCpus : ImplVal(c) \in Cand(c, StaleOK)
      /\ bst.vals = ImplVals
      /\ IsSortOf(bst.outs, ImplVals)     \* hence the rows are RowsOf(f) for a choice f of allowed values

BInv == Inv /\ RowsAreSortedCandidates

BIdent == <<Ident, sel>>
BExport == PrintT(<<"TR", ToJson([src |-> ToString(BIdent), ev |-> last', first |-> (n = 0),
                                   ok |-> ~failed', un |-> unspec',
                                   dst |-> ToString(BIdent'), fin |-> VerdictAll'])>>)

(* ---- bounded instances ---- *)
Gids == [k \in 1..16 |-> 1000 + k]
SysBD(m, ths, cpus) == [threads |-> ths, cpus |-> cpus, marks |-> <<>>, models |-> {"O", m}, gids |-> Gids]

Cpus2 == <<Cpu(1, 0, 10, FALSE), Cpu(1, 1, 11, FALSE), Cpu(1, -1, -1, TRUE)>>
Cpus3 == <<Cpu(1, 0, 10, FALSE), Cpu(1, 1, 11, FALSE), Cpu(1, 2, 12, FALSE), Cpu(1, -1, -1, TRUE)>>
Ths2 == <<ThR(101, 1001, 1, 1, -1), ThR(102, 1001, 1, 1, -1)>>
Ths3 == <<ThR(101, 1001, 1, 1, -1), ThR(102, 1001, 1, 1, -1), ThR(103, 1002, 2, 1, -1)>>

\* thread life-cycle / affinity events shared by both models
BaseEvs == {E(1, "OHx", <<0, 101, 7>>), E(2, "OHx", <<1, 101, 7>>), E(2, "OHx", <<0, 101, 7>>)}
           \cup {E(t, m, <<>>) : t \in {1, 2}, m \in {"OHp", "OHr", "OHe"}}
           \cup {E(1, "OHc", <<>>), E(1, "OHw", <<>>)}
           \cup {E(1, "OAs", <<1>>), E(1, "OAs", <<0>>), E(2, "OAs", <<0>>)}

\* nOS-V: 2 threads, 2 physical CPUs; task 1 (type T5) on thread 1 with pause/resume,
\* task 2 (type T6) on thread 2; scheduler subsystem; idle states
SysC20V == SysBD("V", Ths2, Cpus2)
AlphaC20V == BaseEvs
   \cup {J(1, "V", "VYc", <<1, 5>>), J(1, "V", "VYc", <<2, 6>>), A(1, "V", "VTc", <<1, 1>>), A(1, "V", "VTc", <<2, 2>>)}
   \cup {A(1, "V", m, <<1, 0>>) : m \in {"VTx", "VTe", "VTp", "VTr"}}
   \cup {A(2, "V", m, <<2, 0>>) : m \in {"VTx", "VTe"}}
   \cup {G(t, "V", m) : t \in {1, 2}, m \in {"VSh", "VSf"}}
   \cup {G(t, "V", m) : t \in {1, 2}, m \in {"VPr", "VPp"}}
   \cup {G(1, "V", "VPa")}

\* Nanos6: same shape (ST_TASK_BODY = 1, worker loop subsystem, relaxed nesting)
SysC206 == SysBD("6", Ths2, Cpus2)
AlphaC206 == BaseEvs
   \cup {J(1, "6", "6Yc", <<1, 5>>), J(1, "6", "6Yc", <<2, 6>>), A(1, "6", "6Tc", <<1, 1>>), A(1, "6", "6Tc", <<2, 2>>)}
   \cup {A(1, "6", m, <<1>>) : m \in {"6Tx", "6Te", "6Tp", "6Tr"}}
   \cup {A(2, "6", m, <<2>>) : m \in {"6Tx", "6Te"}}
   \cup {G(t, "6", m) : t \in {1, 2}, m \in {"6W[", "6W]"}}
   \cup {G(t, "6", m) : t \in {1, 2}, m \in {"6Pr", "6Pp"}}
   \cup {G(1, "6", "6Pa")}

\* trimmed alphabets for the quick tier (one task, fewer affinity changes)
BaseEvsQ == {E(1, "OHx", <<0, 101, 7>>), E(2, "OHx", <<1, 101, 7>>), E(1, "OHp", <<>>), E(1, "OHr", <<>>),
             E(1, "OHe", <<>>), E(2, "OHe", <<>>), E(1, "OAs", <<1>>), E(2, "OAs", <<0>>)}
AlphaC20VQ == BaseEvsQ
   \cup {J(1, "V", "VYc", <<1, 5>>), A(1, "V", "VTc", <<1, 1>>)}
   \cup {A(1, "V", m, <<1, 0>>) : m \in {"VTx", "VTe", "VTp", "VTr"}}
   \cup {G(t, "V", m) : t \in {1, 2}, m \in {"VSh", "VSf"}}
   \cup {G(t, "V", m) : t \in {1, 2}, m \in {"VPr", "VPp"}}
   \cup {G(1, "V", "VPa")}
SysC20VQ == SysC20V
AlphaC206Q == BaseEvsQ
   \cup {J(1, "6", "6Yc", <<1, 5>>), A(1, "6", "6Tc", <<1, 1>>)}
   \cup {A(1, "6", m, <<1>>) : m \in {"6Tx", "6Te", "6Tp", "6Tr"}}
   \cup {G(t, "6", m) : t \in {1, 2}, m \in {"6W[", "6W]"}}
   \cup {G(t, "6", m) : t \in {1, 2}, m \in {"6Pr", "6Pp"}}
   \cup {G(1, "6", "6Pa")}
SysC206Q == SysC206

\* 3 threads (two processes) on 3 physical CPUs: more rows to sort, fewer event kinds
BaseEvs3 == {E(1, "OHx", <<0, 101, 7>>), E(2, "OHx", <<1, 101, 7>>), E(3, "OHx", <<2, 101, 7>>)}
            \cup {E(t, "OHe", <<>>) : t \in {1, 2, 3}}
            \cup {E(1, "OHp", <<>>), E(1, "OHr", <<>>), E(2, "OAs", <<0>>), E(3, "OAs", <<1>>)}
SysC20V3 == SysBD("V", Ths3, Cpus3)
AlphaC20V3 == BaseEvs3
   \cup {J(1, "V", "VYc", <<1, 5>>), J(3, "V", "VYc", <<1, 7>>), A(1, "V", "VTc", <<1, 1>>), A(3, "V", "VTc", <<1, 1>>)}
   \cup {A(t, "V", m, <<1, 0>>) : t \in {1, 3}, m \in {"VTx", "VTe"}}
   \cup {A(1, "V", "VTp", <<1, 0>>), A(1, "V", "VTr", <<1, 0>>)}
   \cup {G(t, "V", m) : t \in {2, 3}, m \in {"VSh", "VSf"}}
   \cup {G(t, "V", m) : t \in {1, 2}, m \in {"VPr", "VPp"}}
   \cup {G(3, "V", "VPa"), G(3, "V", "VPp")}
SysC2063 == SysBD("6", Ths3, Cpus3)
AlphaC2063 == BaseEvs3
   \cup {J(1, "6", "6Yc", <<1, 5>>), J(3, "6", "6Yc", <<1, 7>>), A(1, "6", "6Tc", <<1, 1>>), A(3, "6", "6Tc", <<1, 1>>)}
   \cup {A(t, "6", m, <<1>>) : t \in {1, 3}, m \in {"6Tx", "6Te"}}
   \cup {A(1, "6", "6Tp", <<1>>), A(1, "6", "6Tr", <<1>>)}
   \cup {G(t, "6", m) : t \in {2, 3}, m \in {"6W[", "6W]"}}
   \cup {G(t, "6", m) : t \in {1, 2}, m \in {"6Pr", "6Pp"}}
   \cup {G(3, "6", "6Pa"), G(3, "6", "6Pp")}
\* trimmed 3-CPU alphabets for the quick tier
BaseEvs3Q == {E(1, "OHx", <<0, 101, 7>>), E(2, "OHx", <<1, 101, 7>>), E(3, "OHx", <<2, 101, 7>>)}
             \cup {E(t, "OHe", <<>>) : t \in {1, 2, 3}} \cup {E(2, "OAs", <<0>>)}
SysC20V3Q == SysC20V3
AlphaC20V3Q == BaseEvs3Q
   \cup {J(1, "V", "VYc", <<1, 5>>), A(1, "V", "VTc", <<1, 1>>), A(1, "V", "VTx", <<1, 0>>), A(1, "V", "VTe", <<1, 0>>)}
   \cup {G(t, "V", m) : t \in {2, 3}, m \in {"VSh", "VSf"}}
   \cup {G(2, "V", "VPr"), G(2, "V", "VPp"), G(3, "V", "VPa"), G(3, "V", "VPp")}
SysC2063Q == SysC2063
AlphaC2063Q == BaseEvs3Q
   \cup {J(1, "6", "6Yc", <<1, 5>>), A(1, "6", "6Tc", <<1, 1>>), A(1, "6", "6Tx", <<1>>), A(1, "6", "6Te", <<1>>)}
   \cup {G(t, "6", m) : t \in {2, 3}, m \in {"6W[", "6W]"}}
   \cup {G(2, "6", "6Pr"), G(2, "6", "6Pp"), G(3, "6", "6Pa"), G(3, "6", "6Pp")}
\* two looms (the rows of the breakdown trace are the physical CPUs of ALL looms, numbered densely;
\* the virtual CPU of the first loom sits between them in the CPU numbering)
Cpus2L == <<Cpu(1, 0, 10, FALSE), Cpu(1, 1, 11, FALSE), Cpu(1, -1, -1, TRUE), Cpu(2, 0, 20, FALSE), Cpu(2, -1, -1, TRUE)>>
Ths2L == <<ThR(101, 1001, 1, 1, -1), ThR(201, 2001, 2, 2, -1)>>
BaseEvs2L == {E(1, "OHx", <<0, 101, 7>>), E(1, "OHx", <<1, 101, 7>>), E(2, "OHx", <<0, 201, 7>>),
              E(1, "OHe", <<>>), E(2, "OHe", <<>>), E(1, "OAs", <<1>>)}
SysC2062L == SysBD("6", Ths2L, Cpus2L)
AlphaC2062L == BaseEvs2L
   \cup {J(t, "6", "6Yc", <<1, 4 + t>>) : t \in {1, 2}} \cup {A(t, "6", "6Tc", <<1, 1>>) : t \in {1, 2}}
   \cup {A(t, "6", m, <<1>>) : t \in {1, 2}, m \in {"6Tx", "6Te"}}
   \cup {G(t, "6", m) : t \in {1, 2}, m \in {"6W[", "6W]"}}
   \cup {G(2, "6", "6Pr"), G(2, "6", "6Pp")}
SysC20V2L == SysBD("V", Ths2L, Cpus2L)
AlphaC20V2L == BaseEvs2L
   \cup {J(t, "V", "VYc", <<1, 4 + t>>) : t \in {1, 2}} \cup {A(t, "V", "VTc", <<1, 1>>) : t \in {1, 2}}
   \cup {A(t, "V", m, <<1, 0>>) : t \in {1, 2}, m \in {"VTx", "VTe"}}
   \cup {G(t, "V", m) : t \in {1, 2}, m \in {"VSh", "VSf"}}
   \cup {G(2, "V", "VPr"), G(2, "V", "VPp")}
=============================================================================
