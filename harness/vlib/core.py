"""Core of the verification harness: paths, builds of /repo, TLC runs,
evidence files, violation reporting and known findings.

Nothing in here computes an expected value: it builds, runs and projects.
"""
import fcntl
import hashlib
import json
import os
import re
import shutil
import subprocess
import sys
import tempfile
import time

VERIF = os.path.dirname(os.path.dirname(os.path.dirname(os.path.abspath(__file__))))
REPO = os.environ.get("VERIF_REPO", "/repo")
CACHE = os.path.join(VERIF, ".cache")
SPEC = os.path.join(VERIF, "spec")
DRIVERS = os.path.join(VERIF, "drivers")
# evidence/<id>.json describes runs against /repo itself; a developer run against a scratch
# worktree (VERIF_REPO set by harness/seedtest.py, seed_regress.py) must never rewrite it
EVIDENCE = (os.path.join(VERIF, "evidence") if os.path.realpath(REPO) == "/repo"
            else os.path.join(tempfile.gettempdir(), "verif-scratch-evidence-%d" % os.getpid()))
REPLAY = (os.path.join(VERIF, "replay") if os.path.realpath(REPO) == "/repo"
          else os.path.join(tempfile.gettempdir(), "verif-scratch-replay-%d" % os.getpid()))
NCPU = min(16, os.cpu_count() or 4)
GUARD = "OVNI_VERIF"


class MachineryError(Exception):
    """The check itself could not run (exit 2, never a VIOLATION)."""


def seed():
    try:
        return int(os.environ.get("VERIF_SEED", "1"))
    except ValueError:
        return 1


def log(*a):
    print(*a, file=sys.stderr, flush=True)


# --------------------------------------------------------------------------
# builds

_SRC_DIRS = ["src", "include", "cmake", "cfg", "CMakeLists.txt"]


def tree_hash():
    h = hashlib.sha256()
    for top in _SRC_DIRS:
        p = os.path.join(REPO, top)
        if os.path.isfile(p):
            files = [p]
        else:
            files = []
            for d, dn, fn in os.walk(p):
                dn.sort()
                for f in sorted(fn):
                    files.append(os.path.join(d, f))
        for f in files:
            h.update(f.encode())
            try:
                with open(f, "rb") as fh:
                    h.update(fh.read())
            except OSError:
                pass
    return h.hexdigest()[:16]


_VARIANTS = {
    # name: (build type, extra C flags, extra linker flags, extra cmake args)
    "hooks": ("RelWithDebInfo", "-Wno-error -D%s" % GUARD, "", []),
    "tests": ("RelWithDebInfo", "-Wno-error -D%s" % GUARD, "", ["-DBUILD_TESTING=ON"]),
    "asan": ("Debug",
             "-Wno-error -D%s -fsanitize=address,undefined -fno-sanitize-recover=undefined "
             "-fno-omit-frame-pointer -O1" % GUARD,
             "-fsanitize=address,undefined",
             ["-DCMAKE_INTERPROCEDURAL_OPTIMIZATION=OFF"]),
    "tsan": ("Debug",
             "-Wno-error -D%s -fsanitize=thread -fno-omit-frame-pointer -O1" % GUARD,
             "-fsanitize=thread",
             ["-DCMAKE_INTERPROCEDURAL_OPTIMIZATION=OFF"]),
}


def build(variant="hooks"):
    """Build /repo's working tree (variant) into the cache; returns build dir."""
    bt, cflags, ldflags, extra = _VARIANTS[variant]
    os.makedirs(os.path.join(CACHE, "build"), exist_ok=True)
    lock = open(os.path.join(CACHE, "build", ".lock-" + variant), "w")
    fcntl.flock(lock, fcntl.LOCK_EX)
    try:
        th = tree_hash()
        bdir = os.path.join(CACHE, "build", "%s-%s" % (variant, th))
        stamp = os.path.join(bdir, ".ok")
        if os.path.exists(stamp):
            os.utime(stamp)
            return bdir
        # remove stale builds of this variant (keep disk use bounded)
        for d in os.listdir(os.path.join(CACHE, "build")):
            if d.startswith(variant + "-"):
                full = os.path.join(CACHE, "build", d)
                st = os.path.join(full, ".ok")
                # keep builds touched in the last 90 minutes (parallel checks, long runs)
                if os.path.exists(st) and time.time() - os.path.getmtime(st) < 5400:
                    continue
                shutil.rmtree(full, ignore_errors=True)
        t0 = time.time()
        cmd = ["cmake", "-G", "Ninja", "-S", REPO, "-B", bdir,
               "-DUSE_MPI=OFF", "-DBUILD_TESTING=OFF",
               "-DCMAKE_BUILD_TYPE=" + bt,
               "-DCMAKE_C_FLAGS=" + cflags,
               "-DCMAKE_EXE_LINKER_FLAGS=" + ldflags,
               "-DCMAKE_SHARED_LINKER_FLAGS=" + ldflags] + extra
        r = subprocess.run(cmd, stdout=subprocess.PIPE, stderr=subprocess.STDOUT, text=True)
        if r.returncode != 0:
            raise MachineryError("cmake failed for %s:\n%s" % (variant, r.stdout[-3000:]))
        r = subprocess.run(["ninja", "-C", bdir], stdout=subprocess.PIPE,
                           stderr=subprocess.STDOUT, text=True)
        if r.returncode != 0:
            raise MachineryError("ninja failed for %s:\n%s" % (variant, r.stdout[-3000:]))
        open(stamp, "w").write(th)
        log("[build] %s built in %.1fs -> %s" % (variant, time.time() - t0, bdir))
        return bdir
    finally:
        fcntl.flock(lock, fcntl.LOCK_UN)
        lock.close()


def tool(bdir, name):
    return os.path.join(bdir, "src", "emu", name)


def cc_shim(bdir, src="shim.c"):
    """Compile an LD_PRELOAD shim from /verif/drivers; returns the .so path."""
    out = os.path.join(bdir, "verif-" + os.path.splitext(src)[0] + ".so")
    srcp = os.path.join(DRIVERS, src)
    if os.path.exists(out) and os.path.getmtime(out) >= os.path.getmtime(srcp):
        return out
    tmp = out + ".tmp%d" % os.getpid()
    r = subprocess.run(["gcc", "-shared", "-fPIC", "-O1", "-o", tmp, srcp, "-ldl"],
                       stdout=subprocess.PIPE, stderr=subprocess.STDOUT, text=True)
    if r.returncode != 0:
        raise MachineryError("shim compile failed: " + r.stdout[-2000:])
    os.replace(tmp, out)
    return out


def cc_driver(bdir, src, out=None, extra=(), emu=False, variant="hooks"):
    """Compile a C driver from /verif/drivers against a build of /repo."""
    name = os.path.splitext(os.path.basename(src))[0]
    out = out or os.path.join(bdir, "verif-" + name)
    srcp = src if os.path.isabs(src) else os.path.join(DRIVERS, src)
    if os.path.exists(out) and os.path.getmtime(out) >= os.path.getmtime(srcp):
        return out
    _, cflags, ldflags, _ = _VARIANTS[variant]
    cmd = ["gcc", "-std=gnu11", "-g", "-O1", "-D_GNU_SOURCE", "-D" + GUARD] + \
          [f for f in cflags.split() if f.startswith("-fsanitize") or f.startswith("-fno-")] + \
          ["-I" + os.path.join(bdir, "include"), "-I" + os.path.join(REPO, "src"),
           "-I" + os.path.join(REPO, "src", "include"), "-I" + os.path.join(REPO, "src", "emu"),
           "-I" + os.path.join(REPO, "include"),
           "-o", out + ".tmp%d" % os.getpid(), srcp]
    if emu:
        cmd += [os.path.join(bdir, "src", "emu", "libemu.a"),
                os.path.join(bdir, "src", "rt", "libovni-static.a"),
                os.path.join(bdir, "src", "libparson-static.a"),
                os.path.join(bdir, "src", "libcommon-static.a"), "-lm"]
    else:
        cmd += ["-L" + os.path.join(bdir, "src", "rt"), "-lovni",
                "-Wl,-rpath," + os.path.join(bdir, "src", "rt")]
    cmd += ["-lpthread"] + list(extra)
    r = subprocess.run(cmd, stdout=subprocess.PIPE, stderr=subprocess.STDOUT, text=True)
    if r.returncode != 0:
        raise MachineryError("driver compile failed: %s\n%s" % (" ".join(cmd), r.stdout[-3000:]))
    os.replace(out + ".tmp%d" % os.getpid(), out)
    return out


# --------------------------------------------------------------------------
# TLC

_JAR = "/opt/veriftools/tla/tla2tools.jar:/opt/veriftools/tla/CommunityModules-deps.jar"


class TlcResult:
    def __init__(self):
        self.rc = None
        self.out = ""
        self.states = 0          # distinct states
        self.generated = 0       # states generated (= transitions explored)
        self.violated = None     # name of violated invariant/property or None
        self.error = None        # other error text
        self.lines = []          # PrintT payloads tagged by <<"TAG", json>>
        self.coverage = {}       # action -> (taken, generated)
        self.wall = 0.0
        self.depth = 0

    @property
    def ok(self):
        return self.rc == 0 and self.violated is None and self.error is None


_re_states = re.compile(r"(\d+) states generated, (\d+) distinct states found")
_re_inv = re.compile(r"Invariant (\S+) is violated")
_re_prop = re.compile(r"(?:Action property|Temporal properties|property) (\S+)? ?(?:is|were) violated")
_re_depth = re.compile(r"The depth of the complete state graph search is (\d+)")
_re_cov = re.compile(r"^<(\w+) line \d+, col \d+ to line \d+, col \d+ of module (\w+)>: (\d+):(\d+)", re.M)


def tlc(module, cfg, workers=None, env=None, simulate=None, depth=None, extra=(),
        timeout=3000, tags=("TR",), coverage=False, heap=None, dfs=False, seed_=None,
        deadlock=None):
    """Run TLC on spec/<module>.tla with spec/<cfg>. Returns TlcResult.

    tags: PrintT lines of the form <<"TAG", "json">> are collected and decoded.
    """
    res = TlcResult()
    meta = tempfile.mkdtemp(prefix="tlc-meta-", dir=_scratch())
    javaopts = ["-XX:+UseParallelGC", "-Xss64m"] if (workers or NCPU) > 2 else ["-XX:+UseSerialGC", "-XX:TieredStopAtLevel=1", "-Xss64m"]
    if heap:
        javaopts.append("-Xmx" + heap)
    if dfs:
        javaopts.append("-Dtlc2.tool.queue.IStateQueue=StateDeque")
    javaopts.append("-Djava.io.tmpdir=" + meta)      # SANY's temporary directories go with the metadir
    cmd = ["java"] + javaopts + ["-cp", _JAR, "tlc2.TLC", "-noGenerateSpecTE",
           "-metadir", meta, "-workers", str(workers or NCPU),
           "-config", cfg if os.path.isabs(cfg) else os.path.join(SPEC, cfg)]
    if simulate is not None:
        cmd += ["-simulate", "num=%d" % simulate]
    if depth is not None:
        cmd += ["-depth", str(depth)]
    if coverage:
        cmd += ["-coverage", "1"]
    if seed_ is not None:
        cmd += ["-seed", str(seed_)]
    if deadlock is False:
        cmd += ["-deadlock"]
    cmd += list(extra)
    cmd += [module if module.endswith(".tla") else module + ".tla"]
    e = dict(os.environ)
    if env:
        e.update({k: str(v) for k, v in env.items()})
    t0 = time.time()
    try:
        p = subprocess.run(cmd, cwd=SPEC, env=e, stdout=subprocess.PIPE,
                           stderr=subprocess.STDOUT, text=True, timeout=timeout)
        res.rc = p.returncode
        res.out = p.stdout
    except subprocess.TimeoutExpired as ex:
        res.rc = -1
        res.out = (ex.stdout or b"").decode() if isinstance(ex.stdout, bytes) else (ex.stdout or "")
        res.error = "timeout"
    finally:
        shutil.rmtree(meta, ignore_errors=True)
    res.wall = time.time() - t0
    for m in _re_states.finditer(res.out):
        res.generated, res.states = int(m.group(1)), int(m.group(2))
    m = _re_depth.search(res.out)
    if m:
        res.depth = int(m.group(1))
    m = _re_inv.search(res.out)
    if m:
        res.violated = m.group(1)
    elif "is violated" in res.out or "was violated" in res.out or "were violated" in res.out:
        m2 = re.search(r"Error: (.*violated.*)", res.out)
        res.violated = m2.group(1) if m2 else "property"
    if res.violated is None and res.rc != 0 and res.error is None:
        m = re.search(r"Error: (.*(?:\n.*){0,6})", res.out)
        res.error = m.group(1) if m else "tlc exit %s" % res.rc
        if "Deadlock reached" in res.out:
            res.violated = "Deadlock"
            res.error = None
    for m in _re_cov.finditer(res.out):
        res.coverage[m.group(2) + "!" + m.group(1)] = (int(m.group(3)), int(m.group(4)))
    if tags:
        # (split on "\n" only: str.splitlines() also splits on NEL (0x85) and the other Unicode line
        # boundaries, which can occur INSIDE a printed string, e.g. a label with bytes >= 0x80)
        for line in res.out.split("\n"):
            line = line.rstrip("\r")
            if not line.startswith('<<"'):
                continue
            for tg in tags:
                pre = '<<"%s", "' % tg
                if line.startswith(pre) and line.endswith('">>'):
                    body = line[len(pre):-3]
                    # TLC prints the TLA+ string with \" and \\ escapes
                    body = _unescape(body)
                    try:
                        res.lines.append((tg, json.loads(body)))
                    except json.JSONDecodeError:
                        res.lines.append((tg, body))
    return res


def _unescape(b):
    if "\\" not in b:
        return b
    out = []
    i = 0
    n = len(b)
    while i < n:
        c = b[i]
        if c == "\\" and i + 1 < n:
            d = b[i + 1]
            out.append({"n": "\n", "t": "\t"}.get(d, d))
            i += 2
        else:
            out.append(c)
            i += 1
    return "".join(out)


def tlc_expect_ok(r, what):
    if r.error:
        raise MachineryError("TLC failed on %s: %s\n%s" % (what, r.error, r.out[-2500:]))


def _scratch():
    """scratch space for traces and TLC metadata: tmpfs when available (directory operations on the
    disk file system cost milliseconds each under load), else /verif/.cache/scratch"""
    shm = "/dev/shm"
    if os.environ.get("VERIF_SCRATCH"):
        d = os.environ["VERIF_SCRATCH"]
    elif os.path.isdir(shm) and os.access(shm, os.W_OK):
        d = os.path.join(shm, "verif-scratch-%d" % os.getuid())
    else:
        d = os.path.join(CACHE, "scratch")
    os.makedirs(d, exist_ok=True)
    return d


def mkscratch(prefix):
    return tempfile.mkdtemp(prefix=prefix + "-", dir=_scratch())


# --------------------------------------------------------------------------
# results

class Check:
    """Collects what a check did and writes the evidence file."""

    def __init__(self, pid, level, tier):
        self.pid = pid
        self.level = level
        self.tier = tier
        self.t0 = time.time()
        self.cov = {"evaluations": 0, "distinct_nontrivial": 0, "rule": "",
                    "samples": [], "states": 0, "transitions": 0,
                    "traces_validated_against_impl": 0}
        self.assumptions = []
        self.violations = []      # (description, replay path)
        self.known_hits = []
        self.known = load_known(pid)
        self._distinct = set()
        self._vgroups = {}
        self.nviol = 0
        self.notes = {}

    # -- coverage bookkeeping
    def phase(self, name):
        now = time.time()
        self.notes.setdefault("phases_s", {})[name] = round(now - getattr(self, "_pt", self.t0), 1)
        self._pt = now

    def add_tlc(self, r, name):
        self.cov["states"] += r.states
        self.cov["transitions"] += r.generated
        self.notes.setdefault("tlc_runs", []).append(
            {"model": name, "distinct_states": r.states, "states_generated": r.generated,
             "depth": r.depth, "wall_s": round(r.wall, 1),
             "result": "violated:" + r.violated if r.violated else ("error" if r.error else "ok")})

    def case(self, key, nontrivial=True):
        self.cov["evaluations"] += 1
        if nontrivial:
            self._distinct.add(key)

    def sample(self, s, limit=6):
        if len(self.cov["samples"]) < limit:
            self.cov["samples"].append(s)

    # -- verdicts
    def violation(self, what, bundle=None, sig=None):
        """Report a violation unless it is a listed known finding (matched by sig)."""
        if sig is not None:
            for k in self.known:
                if k["kind"] == "known" and k["sig"] == sig:
                    if sig not in [h[0] for h in self.known_hits]:
                        self.known_hits.append((sig, k["text"]))
                    return False
        self.nviol = getattr(self, "nviol", 0) + 1
        grp = (sig or "") + "|" + what.split("\n")[0][:60]
        cnt = self._vgroups.get(grp, 0)
        self._vgroups[grp] = cnt + 1
        if cnt >= 2 or len(self.violations) >= 12:
            return True          # counted, not bundled again
        path = save_replay(self.pid, what, bundle)
        self.violations.append((what, path))
        return True

    def finish(self, rule=None, extra=None):
        if rule:
            self.cov["rule"] = rule
        self.cov["distinct_nontrivial"] = len(self._distinct)
        if extra:
            self.cov.update(extra)
        self.cov.update(self.notes)
        ev = {"property_id": self.pid, "tier": self.tier, "seed": seed(),
              "level": self.level, "coverage": self.cov,
              "assumptions": self.assumptions,
              "wall_s": round(time.time() - self.t0, 2),
              "violations": self.nviol}
        os.makedirs(EVIDENCE, exist_ok=True)
        tmp = os.path.join(EVIDENCE, ".%s.json.tmp" % self.pid)
        with open(tmp, "w") as f:
            json.dump(ev, f, indent=1, sort_keys=True, default=str)
        os.replace(tmp, os.path.join(EVIDENCE, self.pid + ".json"))
        for sig, text in self.known_hits:
            print("KNOWN-FINDING: property=%s %s" % (self.pid, text))
        for what, path in self.violations:
            print("VIOLATION property=%s replay=%s" % (self.pid, path))
            log("  -> " + what[:2000])
        sys.stdout.flush()
        return 1 if self.violations else 0


def save_replay(pid, what, bundle):
    os.makedirs(REPLAY, exist_ok=True)
    d = tempfile.mkdtemp(prefix="%s-" % pid, dir=REPLAY)
    with open(os.path.join(d, "what.txt"), "w") as f:
        f.write(what + "\n")
    if bundle:
        for name, content in bundle.items():
            p = os.path.join(d, name)
            os.makedirs(os.path.dirname(p), exist_ok=True)
            if isinstance(content, bytes):
                open(p, "wb").write(content)
            elif isinstance(content, str):
                open(p, "w").write(content)
            else:
                json.dump(content, open(p, "w"), indent=1, default=str)
    return d


def load_known(pid):
    """known-findings.txt lines:
       known: property=<id> sig=<signature> <text>
       fixed: property=<id> <commit> <text>
    """
    out = []
    p = os.path.join(VERIF, "known-findings.txt")
    if not os.path.exists(p):
        return out
    for line in open(p):
        line = line.strip()
        if not line or line.startswith("#"):
            continue
        m = re.match(r"known: property=(\S+) sig=(\S+) (.*)", line)
        if m and m.group(1) == pid:
            out.append({"kind": "known", "sig": m.group(2), "text": m.group(3)})
            continue
        m = re.match(r"fixed: property=(\S+) (\S+) (.*)", line)
        if m and m.group(1) == pid:
            out.append({"kind": "fixed", "commit": m.group(2), "text": m.group(3)})
    return out


def run(cmd, timeout=60, env=None, cwd=None, stdin=None):
    """Run a command; returns (rc, stdout, stderr); rc<0 = signal; rc=None = timeout."""
    e = dict(os.environ)
    if env:
        e.update(env)
    try:
        p = subprocess.run(cmd, stdout=subprocess.PIPE, stderr=subprocess.PIPE,
                           timeout=timeout, env=e, cwd=cwd, input=stdin)
        return p.returncode, p.stdout, p.stderr
    except subprocess.TimeoutExpired as ex:
        return None, ex.stdout or b"", ex.stderr or b""


_PFN = None
_PITEMS = None


def _pcall(i):
    return _PFN(_PITEMS[i])


def pmap(fn, items, workers=None, threads=False):
    """Parallel map.  Default: forked worker processes (the projection work is
    Python code, threads would serialise on the GIL); fn and items are
    inherited through fork, only indices and results are pickled."""
    items = list(items)
    if not items:
        return []
    if threads or len(items) < 4:
        from concurrent.futures import ThreadPoolExecutor
        with ThreadPoolExecutor(max_workers=workers or NCPU) as ex:
            return list(ex.map(fn, items))
    import multiprocessing as mp
    global _PFN, _PITEMS
    _PFN, _PITEMS = fn, items
    ctx = mp.get_context("fork")
    n = min(workers or NCPU, len(items))
    with ctx.Pool(n) as pool:
        out = pool.map(_pcall, range(len(items)), chunksize=max(1, len(items) // (n * 8)))
    _PFN = _PITEMS = None
    return out
