"""C06 (view consistency) and C08 (subsystem nesting) - Emu via EmuMC.

C08: one bounded model per emulation model (three region kinds, a
bystander thread, thread state changes), full transition cover replayed on
ovniemu; plus, for EVERY enter/leave pair of the event tables, the family
  enter / leave / leave-other / leave-on-empty / wrong thread state (paused, cooling, warming) /
  open at end under -l / immediate re-entry / nested inside another region
and depth probes at the stack limit.  All verdicts and timelines are decided
by EmuTrace.tla (the harness only enumerates inputs).

C06: a bounded model with one channel per tracking mode (ANY single, ANY
stack, RUN, ACT) interleaved with every thread state and affinity change of
two threads on two CPUs; the TLC-generated histories are additionally
re-instantiated for every published channel of every model.
"""
import json
import os
import random

from vlib import core, emuhist

C08_CFGS = [("EmuMC_C08D.cfg", "nodes"), ("EmuMC_C08M.cfg", "mpi"), ("EmuMC_C08T.cfg", "tampi"),
            ("EmuMC_C08P.cfg", "openmp"), ("EmuMC_C08V.cfg", "nosv"), ("EmuMC_C086.cfg", "nanos6"),
            ("EmuMC_C08K.cfg", "kernel+ovni flush")]


def ev(th, m, a=None):
    return {"th": th, "m": m, "mc": m[0], "a": a or [], "j": False}


def pairs_of(model):
    """[(enter, leave, chan)] of a model from the committed table"""
    m = emuhist.model_table()[model]
    by = {}
    for mcv, e in m["events"].items():
        if e["action"] in ("push", "pop"):
            by.setdefault((e["chan"], e["value"]), {})[e["action"]] = mcv
    out = []
    for (chan, val), d in sorted(by.items()):
        if "push" in d and "pop" in d:
            out.append((d["push"], d["pop"], chan))
    return out


def sys2(models):
    return {"threads": [{"tid": 101, "pid": 1001, "app": 1, "loom": 1, "rank": -1},
                        {"tid": 102, "pid": 1001, "app": 1, "loom": 1, "rank": -1}],
            "cpus": [{"loom": 1, "idx": 0, "phy": 11, "virt": False},
                     {"loom": 1, "idx": 1, "phy": 10, "virt": False},
                     {"loom": 1, "idx": -1, "phy": -1, "virt": True}],
            "marks": [], "models": sorted(models)}


def sys1(models):
    """one thread only: the pair families involve a single thread, a second thread that never runs
    would make every trace fail at the end (thread not dead) and hide wrongly accepted events"""
    s = sys2(models)
    s["threads"] = s["threads"][:1]
    return s


def pair_family(model, tier):
    """harness-enumerated histories over every pair of a model"""
    mt = emuhist.model_table()[model]
    mc = mt["char"]
    prs = pairs_of(model)
    X = ev(1, "OHx", [0, 101, 7])
    E = ev(1, "OHe")
    out = []
    for i, (a, b, chan) in enumerate(prs):
        o_a, o_b, _ = prs[(i + 1) % len(prs)] if len(prs) > 1 else (a, b, chan)
        A, B, OA, OB = ev(1, a), ev(1, b), ev(1, o_a), ev(1, o_b)
        out += [
            [X, A, B, E],                       # enter, leave
            [X, A, OA, OB, B, E],               # nested
            [X, A, OB, E],                      # leave with a different region open
            [X, B, E],                          # leave on empty
            [X, A, E],                          # open at end (lint)
            [X, A, A, B, B, E],                 # immediate re-entry
            [X, ev(1, "OHp"), A, ev(1, "OHr"), E],   # paused thread
            [X, ev(1, "OHc"), A, B, E],         # cooling thread
            [X, ev(1, "OHp"), ev(1, "OHw"), A, B, ev(1, "OHr"), E],   # warming thread
            [A, X, E],                          # thread not started
            [X, A, ev(1, "OHp"), ev(1, "OHr"), B, E],   # state change while open
        ]
    return out


def depth_probes(model):
    prs = pairs_of(model)
    if len(prs) < 2:
        return []
    a, b, _ = prs[0]
    c, d, _ = prs[1]
    X = ev(1, "OHx", [0, 101, 7])
    E = ev(1, "OHe")
    out = []
    for depth in (511, 512, 513):
        ups = []
        downs = []
        for k in range(depth):
            ups.append(ev(1, a if k % 2 == 0 else c))
            downs.append(ev(1, b if k % 2 == 0 else d))
        out.append([X] + ups + list(reversed(downs)) + [E])
    return out


def run_extra(ck, bdir, system, histories, label, view_tail=None, extra_args=()):
    """harness-enumerated histories validated by EmuTrace"""
    from vlib import tv
    res = core.pmap(lambda h: emuhist.run_one(bdir, system, h, lint=True, extra_args=extra_args,
                                              view_from=(len(h) - view_tail) if view_tail else 0), histories)
    execs = [r[0] for r in res]
    tvr = tv.validate("EmuTrace", "EmuTrace.cfg", execs, None,
                      chunk=max(30, len(execs) // 8 + 1), parallel=8)
    ck.cov["traces_validated_against_impl"] += len(tvr.accepted)
    ck.cov["states"] += tvr.states
    ck.cov["transitions"] += tvr.generated
    for hst, (recs, r, perr) in zip(histories, res):
        ck.case(json.dumps(hst, sort_keys=True)[:4000], nontrivial=len(hst) >= 3)
        if r.signal or r.timeout or r.sanitizer:
            ck.violation("%s ovniemu %s: %s" % (label, r.verdict, json.dumps(hst)[:1500]),
                         {"history.json": hst, "stderr.txt": r.text[-4000:]})
    ck.notes.setdefault("conformance", []).append(
        {"model": label, "histories": len(histories), "accepted_by_spec": len(tvr.accepted),
         "rejected_by_spec": len(tvr.rejected)})
    for (i, line, rec, tail, violated) in tvr.rejected:
        recs, r, perr = res[i]
        hs = histories[i]
        what = ("%s: ovniemu behaviour not explained by the specification at record #%d\nrecord: %s\n"
                "emulator verdict: %s %s\nhistory: %s"
                % (label, line, json.dumps(rec)[:1200], r.verdict, r.last_errors(2),
                   json.dumps([x["m"] for x in hs])[:1500]))
        ck.violation(what, {"history.json": hs, "execution.ndjson": "\n".join(json.dumps(x) for x in recs)[:2000000],
                            "emu_stderr.txt": r.text[-4000:], "tlc_tail.txt": tail},
                     sig="%s:%s" % (label, rec.get("m") or rec.get("e")))
    return tvr


def main_c08(tier):
    ck = core.Check("C08", "model_checking", tier)
    bdir = core.build("hooks")
    for cfg, name in C08_CFGS:
        r, g = emuhist.explore(cfg)
        ck.add_tlc(r, "EmuMC/%s (%s)" % (cfg, name))
        if r.violated:
            ck.violation("model %s violates %s" % (cfg, r.violated), {"tlc.out": r.out[-20000:]})
        # (the Nanos6 instance also has two tasks whose execution nests on the subsystem stack: larger sample)
        emuhist.conformance(ck, bdir, g, tier, limit_quick=2500 if name == "nanos6" else 700, limit_thorough=None,
                            label="C08/" + name,
                            pairs=150 if tier == "quick" else 5000, pair_same=emuhist.same_category)
    ck.phase("transition_cover")
    # task execution on the subsystem stack, spelled out: a task body is a region like any other (Nanos6: a
    # second task may begin inside a region of the first without pausing it; nOS-V: only after a pause)
    def J(m, a):
        return {"th": 1, "m": m, "mc": m[0], "a": a, "j": True}
    X, E = ev(1, "OHx", [0, 101, 7]), ev(1, "OHe")
    n6 = [X, J("6Yc", [1, 5]), ev(1, "6Tc", [1, 1]), ev(1, "6Tc", [2, 1]), ev(1, "6Tx", [1])]
    nested = [
        n6 + [ev(1, "6U["), ev(1, "6Tx", [2]), ev(1, "6Te", [2]), ev(1, "6U]"), ev(1, "6Te", [1]), E],
        n6 + [ev(1, "6Tx", [2]), ev(1, "6Te", [2]), ev(1, "6Te", [1]), E],
        n6 + [ev(1, "6C["), ev(1, "6Tx", [2]), ev(1, "6C]"), ev(1, "6Te", [2]), ev(1, "6Te", [1]), E],   # leaves across the task
        n6 + [ev(1, "6U["), ev(1, "6Tp", [1]), ev(1, "6Tx", [2]), ev(1, "6Te", [2]), ev(1, "6Tr", [1]), ev(1, "6U]"),
              ev(1, "6Te", [1]), E],
        n6 + [ev(1, "6U["), ev(1, "6Tx", [2]), ev(1, "6U]"), ev(1, "6Te", [2]), ev(1, "6Te", [1]), E],
    ]
    run_extra(ck, bdir, sys1({"O", "6"}), nested, "C08/nested-tasks/nanos6")
    # the same nesting for nOS-V with task and body ids near the top of their range (ten digits each)
    BT, BB = 2147483000, 2147483001
    big = [
        [X, J("VYc", [1, 5]), ev(1, "VTC", [BT, 1]), ev(1, "VAs"), ev(1, "VTx", [BT, BB]), ev(1, "VTe", [BT, BB]),
         ev(1, "VAS"), E],
        [X, J("VYc", [1, 5]), ev(1, "VTc", [BT, 1]), ev(1, "VAs"), ev(1, "VTx", [BT, 0]), ev(1, "VTe", [BT, 0]),
         ev(1, "VAS"), E],
    ]
    run_extra(ck, bdir, sys1({"O", "V"}), big, "C08/nested-tasks/nosv-large-ids")
    ck.phase("nested_tasks")
    npairs = 0
    for model in ("nodes", "mpi", "tampi", "openmp", "nosv", "nanos6", "kernel"):
        mt = emuhist.model_table()[model]
        fam = pair_family(model, tier)
        fam0 = fam
        npairs += len(pairs_of(model))
        if tier == "quick" and len(fam) > 260:
            rng = random.Random(core.seed())
            # every pair keeps its enter/leave, nesting, mismatch, leave on empty and open-at-end (the clauses
            # of the property) + 2 sampled shapes of the remaining six
            keep = []
            for i in range(0, len(fam), 11):
                grp = fam[i:i + 11]
                keep += grp[:5] + rng.sample(grp[5:], 2)
            fam = keep
        run_extra(ck, bdir, sys1({"O", mt["char"]}), fam, "C08/pairs/" + model)
        run_extra(ck, bdir, sys1({"O", mt["char"]}), depth_probes(model), "C08/depth/" + model, view_tail=3)
        if mt["char"] in "V6":
            # the clause shapes once more with the breakdown option next to lint mode (-b -l): the verdicts and
            # the thread / CPU timelines are the same
            clause = [h for i in range(0, len(fam0), 11) for h in fam0[i:i + 5]]
            run_extra(ck, bdir, sys1({"O", mt["char"]}), clause, "C08/pairs-with-breakdown/" + model, extra_args=("-b",))
    ck.notes["table_pairs"] = npairs
    ck.phase("pair_families")
    ck.assumptions += ["event tables (spec/data/events.json -> EventData.tla) are committed data transcribed from the "
                       "documentation and model tables; a change of a table in the sources is a disagreement with them",
                       "immediate re-entry of the innermost open region is Unspecified (C08 leaves it open)"]
    return ck.finish(rule="histories = transition cover of 7 bounded models (TLC) + for every enter/leave pair of the "
                          "event tables 10 shapes + depth probes 511/512/513; non-trivial = at least 3 events; distinct by event list")


def bay_layer(ck, bdir, tier):
    """Implementation layer of C06: spec/Bay.tla (chan.c / bay.c / mux.c as written) must satisfy the
    View at every quiescent point for every order of the writes of an event; three wrong variants must
    be refuted; the exported event sequences are replayed in process on the real chan/bay/mux."""
    import subprocess
    r = core.tlc("Bay", "Bay.cfg", timeout=1200)
    core.tlc_expect_ok(r, "Bay")
    ck.add_tlc(r, "Bay (mux with 2 inputs, all write orders, 4 events)")
    if r.violated:
        ck.violation("Bay model (chan/bay/mux as written) violates %s" % r.violated, {"tlc.out": r.out[-20000:]})
    for neg in ("Bay_NegNoDisable.cfg", "Bay_NegReadBefore.cfg", "Bay_NegStaleSelect.cfg"):
        rn = core.tlc("Bay", neg, timeout=600)
        ck.add_tlc(rn, "Bay/%s (must fail)" % neg)
        if not rn.violated:
            raise core.MachineryError("negative configuration %s no longer fails" % neg)
    rx = core.tlc("Bay", "Bay_Export.cfg", workers=4, timeout=1200)
    core.tlc_expect_ok(rx, "Bay export")
    cases = [o for tg, o in rx.lines if tg == "TR"]
    if not cases:
        raise core.MachineryError("Bay export is empty")
    drv = core.cc_driver(bdir, "bayharness.c", emu=True)
    d = core.mkscratch("bay")
    try:
        lines = []
        for c in cases:
            evs = []
            for ev_ in c["events"]:
                ws = []
                for ch, v in ev_:
                    ws.append(("s=%d" % v) if ch == "sel" else ("i%s=%d" % (ch[2:], v)))
                evs.append(" ".join(ws))
            lines.append("2 9 ; " + " ; ".join(evs))
        path = os.path.join(d, "in")
        open(path, "w").write("\n".join(lines) + "\n")
        p = subprocess.run([drv, path], stdout=subprocess.PIPE, stderr=subprocess.PIPE, text=True, timeout=300)
        outs = p.stdout.splitlines()
    finally:
        import shutil
        shutil.rmtree(d, ignore_errors=True)
    if p.returncode != 0 or len(outs) != len(cases):
        ck.violation("bayharness died on a TLC-generated event sequence (rc=%s, %d of %d lines)"
                     % (p.returncode, len(outs), len(cases)), {"stderr.txt": p.stderr[-3000:]}, sig="bay:crash")
        return
    agree = 0
    for c, o in zip(cases, outs):
        want = "fail" if c["failed"] else "ok %d" % c["out"]
        ck.case("bay:" + json.dumps(c["events"]), nontrivial=len(c["events"]) >= 2)
        if o == want:
            agree += 1
        else:
            ck.violation("real chan/bay/mux disagree with Bay.tla on an event sequence: got %r, the model says %r\n"
                         "events (sel: 0 = null, k = input k; inputs: 0 = null): %s"
                         % (o, want, json.dumps(c["events"])), {"case.json": c},
                         sig="bay:%s" % ("fail" if "fail" in (o, want) else "value"))
    ck.cov["traces_validated_against_impl"] += agree
    ck.notes["bay_layer"] = {"sequences_replayed_on_real_mux": len(cases), "agree": agree}


def main_c06(tier):
    ck = core.Check("C06", "model_checking", tier)
    bdir = core.build("hooks")
    bay_layer(ck, bdir, tier)
    ck.phase("bay_layer")
    cfg = "EmuMC_C06.cfg" if tier == "quick" else "EmuMC_C06_Thorough.cfg"
    r, g = emuhist.explore(cfg)
    ck.add_tlc(r, "EmuMC/%s (flush ANY, kernel cs ANY, mpi RUN, nodes ACT x thread states x affinity)" % cfg)
    if r.violated:
        ck.violation("model %s violates %s" % (cfg, r.violated), {"tlc.out": r.out[-20000:]})
    ck.phase("tlc")
    hs, results, tvr = emuhist.conformance(ck, bdir, g, tier, limit_quick=2500, limit_thorough=40000, label="C06",
                                             pairs=500 if tier == "quick" else 10000, pair_same=emuhist.same_category)
    ck.phase("conformance")
    # re-instantiate accepted histories for every published channel
    rng = random.Random(core.seed())
    acc = [x[1] for x in hs if x[0] == "accept" and any(e["m"] in ("MUi", "DR[") for e in x[1])]
    rng.shuffle(acc)
    per = 40 if tier == "quick" else 400
    tab = emuhist.model_table()
    rows = []
    for model, mt in sorted(tab.items()):
        for c in mt["channels"]:
            reps = [(k, e) for k, e in sorted(mt["events"].items()) if e.get("chan") == c["name"]
                    and e["action"] in ("push", "set")]
            if not reps:
                continue
            if c["kind"] == "stack":
                on = reps[0][0]
                off = [k for k, e in mt["events"].items() if e.get("chan") == c["name"] and e["action"] == "pop"
                       and e["value"] == reps[0][1]["value"]][0]
            else:
                sets = [k for k, e in reps]
                if len(sets) < 2:
                    continue
                on, off = sets[-1], sets[0]
            rows.append((model, mt["char"], c["name"], c["track_thread"], on, off))
    ck.notes["chan_table_rows"] = [{"model": r_[0], "chan": r_[2], "thread_mode": r_[3], "on": r_[4], "off": r_[5]}
                                   for r_ in rows]
    for (model, mc, chan, mode, on, off) in rows:
        sub = {"MUi": on, "MUI": off, "DR[": on, "DR]": off}
        hsts = []
        for hst in acc[:per]:
            nh = []
            for e in hst:
                if e["m"] in sub:
                    nh.append(ev(e["th"], sub[e["m"]]))
                elif e["mc"] in ("M", "D"):
                    continue
                else:
                    nh.append(e)
            hsts.append(nh)
        from checks.emu_models import run_extra as rx
        rx(ck, bdir, sys2({"O", "K", mc}), hsts, "C06/%s.%s(%s)" % (model, chan, mode))
    # ... and for the mark channels of the ovni model (ACTIVE on the thread, RUNNING on the CPU)
    msys = sys2({"O", "K"})
    msys["marks"] = [{"type": 1, "stack": True}, {"type": 2, "stack": False}]
    for name, sub in (("stack", {"MUi": ("OM[", [1, 1]), "MUI": ("OM]", [1, 1]), "DR[": ("OM[", [2, 1]), "DR]": ("OM]", [2, 1])}),
                      ("single", {"MUi": ("OM=", [1, 2]), "MUI": ("OM=", [2, 2]), "DR[": ("OM=", [3, 2]), "DR]": ("OM=", [4, 2])})):
        hsts = []
        for hst in acc[:per * 3]:
            nh = []
            for e in hst:
                if e["m"] in sub:
                    nh.append(ev(e["th"], sub[e["m"]][0], list(sub[e["m"]][1])))
                elif e["mc"] in ("M", "D"):
                    continue
                else:
                    nh.append(e)
            hsts.append(nh)
        run_extra(ck, bdir, msys, hsts, "C06/ovni.mark-%s(ACT)" % name)
    # three and four threads running on the virtual CPU at once (it may be oversubscribed): no thread's
    # value on its row while more than one runs, the remaining thread's value when the others leave
    s4 = sys2({"O", "K"})
    s4["threads"] = [{"tid": 101 + k, "pid": 1001 if k < 2 else 1002, "app": 1 if k < 2 else 2, "loom": 1, "rank": -1}
                     for k in range(4)]
    s4["marks"] = [{"type": 2, "stack": False}]
    many = []
    for n in (3, 4):
        for leave in (list(range(1, n + 1)), list(range(n, 0, -1)), [2, 1] + list(range(3, n + 1))):
            h = []
            for t in range(1, n + 1):
                h += [ev(t, "OHx", [-1, 100 + t, 7]), ev(t, "OM=", [10 * t, 2]), ev(t, "OF[")]
            for t in leave:
                h += [ev(t, "OF]"), ev(t, "OHe")]
            many.append(h)
            # ... and the same with the threads pausing instead of ending first
            h2 = [e for e in h if e["m"] not in ("OF]", "OHe")]
            for t in leave:
                h2 += [ev(t, "OHp")]
            for t in leave:
                h2 += [ev(t, "OHr"), ev(t, "OF]"), ev(t, "OHe")]
            many.append(h2)
    for h in many:
        for t in range(len({e["th"] for e in h}) + 1, 5):      # threads not used in this history: run and end
            h += [ev(t, "OHx", [0, 100 + t, 7]), ev(t, "OHe")]
    run_extra(ck, bdir, s4, many, "C06/many-running-threads-on-the-virtual-cpu")
    ck.phase("per_channel")
    # recorded executions: the traces of the repository's own emu-* tests, validated event by event
    from checks import suite_traces
    suite_traces.run(ck, tier)
    ck.phase("suite_traces")
    ck.assumptions += ["task and breakdown channels are exercised by C07 and C20 with the same view oracle"]
    return ck.finish(rule="histories = transition cover of the bounded view model (TLC) + the accepted ones "
                          "re-instantiated for every published channel of every model; non-trivial = at least 3 "
                          "events; distinct by event list")


def main(pid, tier):
    return main_c08(tier) if pid == "C08" else main_c06(tier)
