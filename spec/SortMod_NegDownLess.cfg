SPECIFICATION Spec
CONSTANTS
  MaxN = 4
  Vals = {0,1,2,3}
  Variant = "down_less"
  WriteAll = FALSE
VIEW View
INVARIANTS RowsSorted OnlyChangedWritten AllChangedWritten RefSortIsSort
CHECK_DEADLOCK FALSE
