SPECIFICATION Spec
CONSTANTS
  MaxLen = 6
  MaxClock = 2
  Rings <- MCRings
  MaxB = 2
  MaxJ = 1
  Strict = TRUE
  JumboInside = TRUE
  ExportUnspecLen = 3
  Variant = "code"
INVARIANTS Refinement IdempotentInv Tight RegionAgree RingInv
ACTION_CONSTRAINT Export
CHECK_DEADLOCK FALSE
