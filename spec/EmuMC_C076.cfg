SPECIFICATION MCSpec
CONSTANTS
  System <- SysC076
  Alphabet <- AlphaC076
  MaxLen = 12
  Lint = TRUE
VIEW MCView
INVARIANT Inv
ACTION_CONSTRAINT Export
CHECK_DEADLOCK FALSE
