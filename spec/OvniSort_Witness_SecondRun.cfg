SPECIFICATION Spec
CONSTANTS
  MaxLen = 7
  MaxClock = 2
  Rings <- MCRings
  MaxB = 2
  MaxJ = 1
  Strict = TRUE
  JumboInside = TRUE
  ExportUnspecLen = 4
  Variant = "code"
INVARIANTS SecondRunSucceeds

CHECK_DEADLOCK FALSE
