"""C04 (thread life-cycle) and C05 (CPU occupancy) - EmuCore via EmuMC.

TLC explores the full state graph of the bounded thread/CPU model with the
invariants of the layer, prints every transition; one emulator history per
transition (accepted and rejected, with shortest legal completion) is
replayed by ovniemu and validated by EmuTrace.tla (views of thread.prv /
cpu.prv after every event, final verdict).
"""
from vlib import core, emuhist

CFG = {"C04": [("EmuMC_C04.cfg", "thread life-cycle, 2 threads, 2 CPUs + vCPU", None),
               ("EmuMC_CK.cfg", "life-cycle and occupancy with kernel context switches (KCO/KCI) in between", 1500),
               ("EmuMC_C05X.cfg", "two looms whose threads have the same TIDs (TIDs are unique per loom only)", 600)],
       "C05": [("EmuMC_C05.cfg", "occupancy/affinity, 4 threads, 2 looms", 2500),
               ("EmuMC_C05X.cfg", "occupancy/affinity, 2 looms whose threads have the same TIDs", 1200),
               ("EmuMC_CK.cfg", "life-cycle and occupancy with kernel context switches (KCO/KCI) in between", 1500)]}


def main(pid, tier):
    ck = core.Check(pid, "model_checking", tier)
    bdir = core.build("hooks")
    ck.notes["model_transitions"] = {}
    for cfg, label, lim in CFG[pid]:
        r, g = emuhist.explore(cfg)
        ck.add_tlc(r, "EmuMC/%s (%s)" % (cfg, label))
        if r.violated:
            ck.violation("model %s violates %s" % (cfg, r.violated), {"tlc.out": r.out[-20000:]})
        ck.phase("tlc " + cfg)
        ntr = len(g.trans)
        ck.notes["model_transitions"][cfg] = {"total": ntr,
                                              "accepted": sum(1 for t in g.trans if t["ok"] and not t["un"]),
                                              "rejected": sum(1 for t in g.trans if not t["ok"] and not t["un"]),
                                              "unspecified": sum(1 for t in g.trans if t["un"])}
        emuhist.conformance(ck, bdir, g, tier, limit_quick=lim, limit_thorough=None,
                            pairs=800 if tier == "quick" else 20000,
                            label=pid if cfg.endswith("_%s.cfg" % pid) else pid + "/" + cfg[6:-4])
        ck.phase("conformance " + cfg)
    ck.assumptions += ["rows are identified through the names in thread.row/cpu.row (looms sorted by name)"]
    return ck.finish(rule="one emulator history per transition of the TLC state graph (shortest path to the source "
                          "state + event + shortest legal completion); non-trivial = history of at least 2 events; "
                          "distinct by event list")
