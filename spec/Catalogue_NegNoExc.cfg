SPECIFICATION CSpec
CONSTANTS
  Variant = "noexc"
  MaxLen = 8
  MaxOpen = 1
VIEW CView
INVARIANT ProbeConsistent
ACTION_CONSTRAINT Export
POSTCONDITION Post
CHECK_DEADLOCK FALSE
