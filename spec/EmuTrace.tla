------------------------------ MODULE EmuTrace ------------------------------
(* Trace validation of ovniemu against Emu: each record is one replayed
   event with the view (cells of the thread and CPU timelines) observed in
   the Paraver output after that event; the final record carries the
   emulator's verdict.  Executions are concatenated; each starts with a
   "sys" record describing the system and the enabled models.            *)
EXTENDS EmuFull, Json, IOUtils

Log == ndJsonDeserialize(IOEnv.TRACE)

VARIABLE l
tvars == <<allVars, l>>

Rec == Log[l]
Is(k) == l <= Len(Log) /\ Rec.e = k /\ l' = l + 1

SysOf(r) == [threads |-> r.threads, cpus |-> r.cpus, marks |-> r.marks,
             models |-> {r.models[i] : i \in 1..Len(r.models)}]

TInit == l = 1 /\ InitAll([threads |-> <<>>, cpus |-> <<>>, marks |-> <<>>, models |-> {}], TRUE)

TSys == Is("sys") /\ ResetAll(SysOf(Rec), Rec.lint)

ObsView(r) == {<<c[1], c[2], c[3], c[4]>> : c \in {r.view[i] : i \in 1..Len(r.view)}}

\* an event: the model takes its step; while the emulation is alive (and the
\* outcome is specified) the observed view must be the model's view
TEv == /\ Is("ev")
       /\ StepAll([th |-> Rec.th, m |-> Rec.m, mc |-> Rec.mc, a |-> Rec.a, j |-> Rec.j])
       \* ... and an event the model rejects has no effect on the timelines: at the first
       \* rejected event the view is still the one before it (ViewAll' = ViewAll then)
       /\ (~unspec' /\ Rec.hasview /\ (~failed' \/ ~failed)) => (ObsView(Rec) \ CpuDefaultCells') = ViewAll'

TEnd == /\ Is("end")
        /\ unspec \/ Rec.verdict = VerdictAll
        /\ UNCHANGED allVars

TNext == TSys \/ TEv \/ TEnd
TSpec == TInit /\ [][TNext]_tvars

Accepted == TLCGet("stats").diameter - 1 = Len(Log)
Report == PrintT(<<"CONSUMED", TLCGet("stats").diameter - 1, Len(Log)>>) /\ Accepted
=============================================================================
