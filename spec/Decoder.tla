------------------------------- MODULE Decoder -------------------------------
(* C19 - the tools are total.  Model of the only places where bytes read from
   disk steer control or addresses in the stream decoder shared by ovniemu,
   ovnidump, ovnitop and ovnisort:

     load_obs / check_stream_header   (src/emu/stream.c)     action Open
     stream_step: cursor arithmetic,  (src/emu/stream.c,     actions Load,
       ovni_ev_size(), "fits" test     src/rt/ovni.c)                 Advance
     emu_ev + the consumers of the    (src/emu/emu_ev.c,     action Consume
       payload: handlers, print_arg,   */event.c, ev_spec.c)
       the jumbo type label (pre_type)

   C integers are SCALED to W-bit words (W = 8) so that the narrowing of the
   jumbo size (uint32_t -> size_t -> int) and the signed overflow of
   `header + payload` are reachable by TLC:  uint32_t = 0..UMAX, int =
   IMIN..IMAX, size_t / int64_t (offsets, file size) are wide and never wrap.
   The byte constants of the format (stream header 8, event header 12, jumbo
   size field 4) are NOT scaled, so a scaled size `js` and the real size
   obtained by keeping its distance to 0, 2^(W-1) or 2^W (operator Rel) fall
   in the same arithmetic class as long as files are shorter than 2^(W-2).

   The content of the file is not part of the state: the bytes found at the
   cursor (flags nibble, jumbo flag, jumbo size field) are chosen when the
   cursor gets there.  In a design that satisfies Progress every offset is
   visited once, so this is exact; for the current arithmetic it is an
   over-approximation that is only used until the first violation.

   Variants (constant Guarded):
     FALSE  the arithmetic of the current code.  TLC refutes Progress,
            CursorInBounds, HeaderReadInBounds, ReadsWithinEvent and
            VerdictIsExit0or1; the run without invariants exports every
            transition with its boundary class (Export), which the harness
            materialises as byte strings for the real tools.
     TRUE   the guarded design: the header (and the jumbo size field) is only
            read if it fits, sizes that do not fit an `int` are refused, the
            consumers compare the payload size with what they read and look
            for the NUL of a label inside the event.  All invariants hold.  *)
EXTENDS Integers, FiniteSets, TLC, Json

CONSTANTS
    W,          \* bits of the scaled `int` / `uint32_t`
    Sizes,      \* file sizes that are explored
    Guarded,    \* see above
    JSizes,     \* values of the jumbo size field that are explored (subset of 0..UMAX)
    JFlags,     \* low flag nibbles explored for jumbo events (ignored by the code)
    MaxStr      \* distance of the first NUL from the start of a label: 0..MaxStr

SHDR == 8                        \* sizeof(struct ovni_stream_header)
HDR  == 12                       \* sizeof(struct ovni_ev_header)
JSZ  == 4                        \* sizeof(ev->payload.jumbo.size)
TID  == 4                        \* the u32 type id in front of a type label
UMAX == 2^W - 1
IMAX == 2^(W-1) - 1
IMIN == -(2^(W-1))
WIDE == 2^(2*W)                  \* size_t: (size_t) of a negative int is x + WIDE

JSQuick    == {0, 1, 2, 3, 4, 5, 6, 8, 9, 12, 16, 17, 20, 28, 29, 40, 63,
               100, 107, 108, 111, 112, 113, 116, 120, 123, 124, 127, 128, 129, 140,
               200, 224, 228, 236, 239, 240, 241, 243, 244, 245, 250, 251, 252, 253, 254, 255}
JSAll      == 0..UMAX
JFQuick    == {0, 3, 15}
SzQuick    == 0..40
SzAll      == 0..62               \* < 2^(W-2), see Rel
SzExport   == {0, 1, 7, 8, 9, 19, 20, 21, 23, 24, 36, 40}
JFAll      == 0..15

\* (int) x for a wide unsigned x: keep the low W bits, two's complement
ToInt(x) == ((x + 2^(W-1)) % 2^W) - 2^(W-1)

Ev(j, f, s) == [jumbo |-> j, fl |-> f, js |-> s]
NoEv == Ev(FALSE, 0, 0)

(* ovni_payload_size() / ovni_ev_size() of the current code (src/rt/ovni.c):
     jumbo:  (int) (sizeof(size) + (size_t) ev->payload.jumbo.size)
     normal: flags & 0xf, plus one if not zero
     size  = (int) sizeof(header) + payload   -- signed overflow is undefined *)
PaySize(e) == IF e.jumbo THEN ToInt(JSZ + e.js) ELSE IF e.fl = 0 THEN 0 ELSE e.fl + 1
SizeUB(e)  == HDR + PaySize(e) > IMAX
EvSize(e)  == HDR + PaySize(e)
\* what the event declares, in unbounded arithmetic
WideSize(e) == HDR + (IF e.jumbo THEN JSZ + e.js ELSE IF e.fl = 0 THEN 0 ELSE e.fl + 1)
\* emu_ev(): ev->payload_size = (size_t) ovni_payload_size()
SeenPay(e) == IF PaySize(e) < 0 THEN PaySize(e) + WIDE ELSE PaySize(e)

VARIABLES
    size,       \* file size
    off,        \* stream->offset
    prev,       \* offset before the last Advance (ghost, Progress)
    pc,         \* "open" | "load" | "consume" | "advance" | "done"
    cur,        \* event at the cursor
    verdict,    \* "none" | "exit0" | "exit1" | "ub" | "loop" | "null"
    reads,      \* byte ranges <<lo, hi>> of the stream buffer read by the last action (ghost)
    last        \* ghost: description of the last action (exported)
vars == <<size, off, prev, pc, cur, verdict, reads, last>>

Stop(v) == pc' = "done" /\ verdict' = v

Init == /\ size \in Sizes
        /\ off = 0 /\ prev = -1 /\ pc = "open" /\ cur = NoEv
        /\ verdict = "none" /\ reads = {} /\ last = [k |-> "init"]

(* load_stream_fd + check_stream_header + load_obs *)
Open ==
    /\ pc = "open"
    /\ UNCHANGED <<size, prev, cur>>
    /\ IF size < SHDR
       THEN \* "stream is empty" / "incomplete stream header"
            /\ Stop("exit1") /\ reads' = {} /\ off' = off
            /\ last' = [k |-> "open", size |-> size, cls |-> IF size = 0 THEN "empty" ELSE "short-stream-header"]
       ELSE \E good \in BOOLEAN :
            /\ reads' = {<<0, SHDR>>}
            /\ IF ~good
               THEN /\ Stop("exit1") /\ off' = off
                    /\ last' = [k |-> "open", size |-> size, cls |-> "bad-magic-or-version"]
               ELSE /\ off' = SHDR
                    /\ last' = [k |-> "open", size |-> size,
                                cls |-> IF size = SHDR THEN "header-only" ELSE "opened"]
                    /\ IF size = SHDR THEN Stop("exit0")     \* "has zero events"
                       ELSE pc' = "load" /\ verdict' = verdict

\* boundary class of the bytes that remain at the cursor, relative to the event found there
RemClass(rem, e) ==
    IF rem < HDR THEN "in-header"
    ELSE IF e.jumbo /\ rem < HDR + JSZ THEN "in-jumbo-size"
    ELSE IF rem < WideSize(e) THEN (IF rem = WideSize(e) - 1 THEN "one-short" ELSE "in-payload")
    ELSE IF rem = WideSize(e) THEN "exact" ELSE "more"

\* class of the size arithmetic of the current code
SizeClass(e) ==
    IF ~e.jumbo THEN "plain"
    ELSE IF SizeUB(e) THEN "int-overflow"
    ELSE IF EvSize(e) = 0 THEN "zero-size"
    ELSE IF EvSize(e) < 0 THEN "negative-size"
    ELSE IF EvSize(e) # WideSize(e) THEN "wrapped-positive"
    ELSE "faithful"

\* distance of a scaled value to the nearest of 0, 2^(W-1), 2^W: the harness rebuilds
\* the real 32-bit value as base + delta
Rel(v) == IF v < 2^(W-2) THEN [base |-> "zero", delta |-> v]
          ELSE IF v < 2^(W-1) + 2^(W-2) THEN [base |-> "half", delta |-> v - 2^(W-1)]
          ELSE [base |-> "top", delta |-> v - 2^W]

LoadRec(e, rem, out, hoob) ==
    [k |-> "load", rem |-> rem, jumbo |-> e.jumbo, fl |-> e.fl, js |-> Rel(e.js),
     remc |-> RemClass(rem, e), sizec |-> SizeClass(e), out |-> out, hdr_oob |-> hoob]

(* stream_step, second half: cur_ev = &buf[offset]; "ensure the event fits" *)
Load ==
    /\ pc = "load"
    /\ UNCHANGED <<size, off, prev>>
    /\ \E j \in BOOLEAN : \E f \in (IF j THEN JFlags ELSE 0..15) : \E s \in (IF j THEN JSizes ELSE {0}) :
       LET e   == Ev(j, f, s)
           rem == size - off
       IN
       IF Guarded
       THEN IF rem < HDR
            THEN /\ Stop("exit1") /\ reads' = {} /\ cur' = cur
                 /\ last' = LoadRec(e, rem, "exit1", FALSE)
            ELSE IF j /\ rem < HDR + JSZ
            THEN /\ Stop("exit1") /\ reads' = {<<off, off + HDR>>} /\ cur' = cur
                 /\ last' = LoadRec(e, rem, "exit1", FALSE)
            ELSE LET rd == {<<off, off + HDR + (IF j THEN JSZ ELSE 0)>>} IN
                 IF (j /\ s > IMAX - HDR - JSZ) \/ WideSize(e) > rem
                 THEN \* oversize for an int, or incomplete event
                      /\ Stop("exit1") /\ reads' = rd /\ cur' = cur
                      /\ last' = LoadRec(e, rem, "exit1", FALSE)
                 ELSE /\ pc' = "consume" /\ verdict' = verdict /\ reads' = rd /\ cur' = e
                      /\ last' = LoadRec(e, rem, "accept", FALSE)
       ELSE \* current code: ovni_ev_size(cur_ev) reads the flags and, for a jumbo
            \* event, the size field, BEFORE anything is compared with the file size
            LET rd   == {<<off, off + 1>>} \cup (IF j THEN {<<off + HDR, off + HDR + JSZ>>} ELSE {})
                hoob == \E r \in rd : r[1] < 0 \/ r[2] > size
            IN
            /\ reads' = rd
            /\ IF SizeUB(e)
               THEN /\ Stop("ub") /\ cur' = cur /\ last' = LoadRec(e, rem, "ub", hoob)
               ELSE IF off + EvSize(e) > size
               THEN /\ Stop("exit1") /\ cur' = cur /\ last' = LoadRec(e, rem, "exit1", hoob)
               ELSE /\ pc' = "consume" /\ verdict' = verdict /\ cur' = e
                    /\ last' = LoadRec(e, rem, "accept", hoob)

(* Consumers of the payload of an accepted event.
     none       the tool does not look at the payload (ovnitop, ovnisort)
     checked    a handler that compares payload_size with what it reads (need, op)
     unchecked  reads `need` bytes at the declared argument offsets without
                looking at payload_size (ev_spec_print/print_arg; payload is
                NULL when payload_size = 0)
     label      jumbo type label: u32 id, then a C string (pre_type, print_arg STR);
                strl = distance of the first NUL from the start of the string     *)
Needs == {4, 8, 12, 16}
ConsRec(kind, need, op, strl, out) ==
    [k |-> "consume", kind |-> kind, need |-> need, op |-> op, strl |-> strl,
     jumbo |-> cur.jumbo, fl |-> cur.fl, js |-> Rel(cur.js), pay |-> WideSize(cur) - HDR,
     tail |-> size - off - WideSize(cur), sizec |-> SizeClass(cur), out |-> out]

PayAt == off + HDR
Consume ==
    /\ pc = "consume"
    /\ UNCHANGED <<size, off, prev, cur>>
    /\ \/ \* no payload access
          /\ reads' = {} /\ pc' = "advance" /\ verdict' = verdict
          /\ last' = ConsRec("none", 0, "", 0, "ok")
       \/ \* handler with a payload_size test
          \E need \in Needs : \E op \in {"==", ">="} :
            LET pass == IF op = "==" THEN SeenPay(cur) = need ELSE SeenPay(cur) >= need IN
            IF pass
            THEN /\ reads' = {<<PayAt, PayAt + need>>} /\ pc' = "advance" /\ verdict' = verdict
                 /\ last' = ConsRec("checked", need, op, 0, "ok")
            ELSE /\ reads' = {} /\ Stop("exit1")
                 /\ last' = ConsRec("checked", need, op, 0, "exit1")
       \/ \* reader of declared arguments
          \E need \in Needs :
            IF Guarded
            THEN IF SeenPay(cur) < need
                 THEN /\ reads' = {} /\ pc' = "advance" /\ verdict' = verdict    \* prints UNKNOWN, goes on
                      /\ last' = ConsRec("unchecked", need, "", 0, "refused")
                 ELSE /\ reads' = {<<PayAt, PayAt + need>>} /\ pc' = "advance" /\ verdict' = verdict
                      /\ last' = ConsRec("unchecked", need, "", 0, "ok")
            ELSE IF SeenPay(cur) = 0
                 THEN /\ reads' = {} /\ Stop("null")                             \* ev->payload == NULL
                      /\ last' = ConsRec("unchecked", need, "", 0, "null")
                 ELSE /\ reads' = {<<PayAt, PayAt + need>>} /\ pc' = "advance" /\ verdict' = verdict
                      /\ last' = ConsRec("unchecked", need, "", 0, "ok")
       \/ \* type label of a jumbo event
          /\ cur.jumbo
          /\ \E strl \in 0..MaxStr :
            LET lab == PayAt + JSZ + TID IN
            IF Guarded
            THEN IF SeenPay(cur) < JSZ + TID + 1 \/ strl + 1 > SeenPay(cur) - JSZ - TID
                 THEN \* too short for an id and a NUL, or no NUL inside the event
                      /\ reads' = {<<PayAt, PayAt + SeenPay(cur)>>} /\ Stop("exit1")
                      /\ last' = ConsRec("label", 0, "", strl, "exit1")
                 ELSE /\ reads' = {<<PayAt + JSZ, lab + strl + 1>>} /\ pc' = "advance" /\ verdict' = verdict
                      /\ last' = ConsRec("label", 0, "", strl, "ok")
            ELSE IF SeenPay(cur) = 0
                 THEN /\ reads' = {} /\ Stop("null")
                      /\ last' = ConsRec("label", 0, "", strl, "null")
                 ELSE /\ reads' = {<<PayAt + JSZ, lab + strl + 1>>} /\ pc' = "advance" /\ verdict' = verdict
                      /\ last' = ConsRec("label", 0, "", strl, "ok")

(* stream_step, first half: offset += ovni_ev_size(cur_ev).
   Current arithmetic: a step that does not move the cursor forward makes the
   walk revisit bytes (the same event for ever when the step is 0, a garbage
   or wild walk when it is negative); the model stops there with the verdict
   "loop" instead of following the over-approximated content any further. *)
Advance ==
    /\ pc = "advance"
    /\ UNCHANGED size
    /\ reads' = {} /\ cur' = NoEv
    /\ LET n == off + (IF Guarded THEN WideSize(cur) ELSE EvSize(cur)) IN
       /\ prev' = off /\ off' = n
       /\ last' = [k |-> "advance", step |-> n - off]
       /\ IF n <= off THEN Stop("loop")
          ELSE IF n > size THEN Stop("exit1")
          ELSE IF n = size THEN Stop("exit0")
          ELSE pc' = "load" /\ verdict' = verdict

Next == Open \/ Load \/ Consume \/ Advance
Spec == Init /\ [][Next]_vars

-----------------------------------------------------------------------------
TypeOK == /\ size \in Sizes /\ off \in Int /\ pc \in {"open", "load", "consume", "advance", "done"}
          /\ verdict \in {"none", "exit0", "exit1", "ub", "loop", "null"}

\* the cursor stays inside the events area and nothing is read outside the loaded file
CursorInBounds == /\ pc \in {"load", "consume", "advance"} => (off >= SHDR /\ off < size)
                  /\ pc = "done" => (off >= 0 /\ off <= size)
                  /\ \A r \in reads : r[1] >= 0 /\ r[2] <= size
\* every step moves the cursor forward (=> the walk terminates)
Progress == prev < off
\* the event header and the jumbo size field are only read when they are inside the file
HeaderReadInBounds == (last.k = "load") => \A r \in reads : r[1] >= 0 /\ r[2] <= size
\* a consumer only reads bytes of the event it was given
ReadsWithinEvent == (last.k = "consume") => \A r \in reads : r[1] >= off + HDR /\ r[2] <= off + WideSize(cur)
\* the only outcomes are the two clean exits
VerdictIsExit0or1 == /\ verdict \in {"none", "exit0", "exit1"}
                     /\ (pc = "done") <=> (verdict # "none")

\* the decoder never accepts an event whose real extent differs from the step it takes
StepIsExtent == (pc = "advance") => (IF Guarded THEN WideSize(cur) ELSE EvSize(cur)) = WideSize(cur)

-----------------------------------------------------------------------------
(* Export of every transition with its class (ACTION_CONSTRAINT, run without invariants) *)
Export == \/ last'.k \in {"init", "advance"}
          \/ PrintT(<<"TR", ToJson(last')>>)
\* the ghosts are functions of the rest of the state and of the action taken
ExportView == <<size, off, pc, cur, verdict>>
=============================================================================
