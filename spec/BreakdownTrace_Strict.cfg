SPECIFICATION TSpec
CONSTANT AllowStale = FALSE
POSTCONDITION Report
CHECK_DEADLOCK FALSE
