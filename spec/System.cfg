SPECIFICATION Spec
CONSTANTS
  Tiny = FALSE
  WithOrders = FALSE
  SampleMod = 40
INVARIANTS MergeMatchesUnion ValidAreAccepted RowsIndependent MixedAccepted MixedRowsIndependent ExportInv
CHECK_DEADLOCK FALSE
