------------------------------- MODULE RtProc -------------------------------
(* Process life-cycle and thread isolation of the runtime (C11):
   src/rt/ovni.c ovni_proc_init / ovni_proc_fini (compare-and-swap on the
   process state word), ovni_thread_init / emit / flush / free on
   thread-local state.

   Every thread runs a program (sequence of API calls).  A call is executed
   in one or more steps; the step boundaries are the linearization points
   where the code can be held by the verification hook ovni_verif_point():
     proc_init   : cas  | body (fills the process record, creates dirs) | publish READY
     thread_init : check (thread-local flags, process READY) | setup (reads the process record)
     proc_fini   : cas  | cleanup (reads the process record)
     emit, flush, cpu, free : one step
   The only shared variables are `st` and the process record `rec`.       *)
EXTENDS Naturals, Sequences, FiniteSets, TLC

CONSTANTS Threads, Programs,   \* Programs: set of candidate programs (sequences of op names)
          AtomicCas            \* TRUE: compare-and-swap as in the code; FALSE: separate load and store (negative cfg)

VARIABLES st,      \* "UNINIT" | "INIT" | "READY" | "GONE"
          rec,     \* process record: "unset" | "writing" | "set"
          prog,    \* [thread -> program]
          ip,      \* [thread -> index of the current call]
          phase,   \* [thread -> step inside the current call: 0 = not started]
          thr,     \* [thread -> [ready, finished]]   thread-local flags
          stream,  \* [thread -> sequence of event ids written by that thread]
          out,     \* [thread -> sequence of outcomes, one per finished call: "ok" | <refusal class>]
          dead,    \* [thread -> the thread was refused (die) and does not continue]
          winners, \* ghost: threads whose proc_init won the CAS
          finis,   \* ghost: threads whose proc_fini won the CAS
          last     \* ghost: last step <<thread, op, phase, outcome>>

vars == <<st, rec, prog, ip, phase, thr, stream, out, dead, winners, finis, last>>

Op(t) == prog[t][ip[t]]
Active(t) == ~dead[t] /\ ip[t] <= Len(prog[t])

Done(t, o)   == /\ out' = [out EXCEPT ![t] = Append(@, o)]
                /\ ip' = [ip EXCEPT ![t] = @ + 1] /\ phase' = [phase EXCEPT ![t] = 0]
Refuse(t, o) == /\ out' = [out EXCEPT ![t] = Append(@, o)] /\ dead' = [dead EXCEPT ![t] = TRUE]
                /\ phase' = [phase EXCEPT ![t] = 0] /\ UNCHANGED ip
Mark(t, o) == last' = <<t, Op(t), phase[t], o>>

-----------------------------------------------------------------------------
ProcInitCas(t) ==
   /\ Active(t) /\ Op(t) = "proc_init" /\ phase[t] = 0
   /\ IF st = "UNINIT"
      THEN IF AtomicCas
           THEN /\ st' = "INIT" /\ phase' = [phase EXCEPT ![t] = 1]
                /\ winners' = winners \cup {t} /\ Mark(t, "won")
                /\ UNCHANGED <<rec, prog, ip, thr, stream, out, dead, finis>>
           ELSE /\ phase' = [phase EXCEPT ![t] = 5] /\ Mark(t, "loaded")      \* load only
                /\ UNCHANGED <<st, rec, prog, ip, thr, stream, out, dead, winners, finis>>
      ELSE /\ Refuse(t, CASE st = "INIT" -> "being-initialized"
                          [] st = "READY" -> "already-initialized"
                          [] st = "GONE" -> "finished")
           /\ Mark(t, "refused")
           /\ UNCHANGED <<st, rec, prog, thr, stream, winners, finis>>
ProcInitStore(t) ==      \* second half of a non-atomic "CAS"
   /\ Active(t) /\ Op(t) = "proc_init" /\ phase[t] = 5
   /\ st' = "INIT" /\ phase' = [phase EXCEPT ![t] = 1] /\ winners' = winners \cup {t} /\ Mark(t, "won")
   /\ UNCHANGED <<rec, prog, ip, thr, stream, out, dead, finis>>
ProcInitBody(t) ==
   /\ Active(t) /\ Op(t) = "proc_init" /\ phase[t] = 1
   /\ rec' = "set" /\ phase' = [phase EXCEPT ![t] = 2] /\ Mark(t, "body")
   /\ UNCHANGED <<st, prog, ip, thr, stream, out, dead, winners, finis>>
ProcInitPublish(t) ==
   /\ Active(t) /\ Op(t) = "proc_init" /\ phase[t] = 2
   /\ st' = "READY" /\ Done(t, "ok") /\ Mark(t, "ok")
   /\ UNCHANGED <<rec, prog, thr, stream, dead, winners, finis>>

ThreadInitCheck(t) ==
   /\ Active(t) /\ Op(t) = "thread_init" /\ phase[t] = 0
   /\ IF thr[t].ready THEN Done(t, "ok") /\ Mark(t, "ignored")           \* warning, ignored
                           /\ UNCHANGED <<st, rec, prog, thr, stream, dead, winners, finis>>
      ELSE IF thr[t].finished THEN Refuse(t, "thread-finished") /\ Mark(t, "refused")
                           /\ UNCHANGED <<st, rec, prog, thr, stream, winners, finis>>
      ELSE IF st # "READY" THEN Refuse(t, "process-not-ready") /\ Mark(t, "refused")
                           /\ UNCHANGED <<st, rec, prog, thr, stream, winners, finis>>
      ELSE /\ phase' = [phase EXCEPT ![t] = 1] /\ Mark(t, "saw-ready")
           /\ UNCHANGED <<st, rec, prog, ip, thr, stream, out, dead, winners, finis>>
ThreadInitSetup(t) ==
   /\ Active(t) /\ Op(t) = "thread_init" /\ phase[t] = 1
   /\ thr' = [thr EXCEPT ![t] = [ready |-> TRUE, finished |-> FALSE]]
   /\ Done(t, "ok") /\ Mark(t, "ok")
   /\ UNCHANGED <<st, rec, prog, stream, dead, winners, finis>>

\* ovni_ev_emit: only needs the thread to be initialised
Emit(t) ==
   /\ Active(t) /\ Op(t) = "emit" /\ phase[t] = 0
   /\ IF thr[t].ready
      THEN /\ stream' = [stream EXCEPT ![t] = Append(@, Len(@) + 1)] /\ Done(t, "ok") /\ Mark(t, "ok")
           /\ UNCHANGED <<st, rec, prog, thr, dead, winners, finis>>
      ELSE /\ Refuse(t, "thread-not-initialized") /\ Mark(t, "refused")
           /\ UNCHANGED <<st, rec, prog, thr, stream, winners, finis>>
\* ovni_flush / ovni_add_cpu: thread initialised and process READY
NeedsReady(t, op) ==
   /\ Active(t) /\ Op(t) = op /\ phase[t] = 0
   /\ IF ~thr[t].ready THEN Refuse(t, "thread-not-initialized") /\ Mark(t, "refused")
                            /\ UNCHANGED <<st, rec, prog, thr, stream, winners, finis>>
      ELSE IF st # "READY" THEN Refuse(t, "process-not-ready") /\ Mark(t, "refused")
                            /\ UNCHANGED <<st, rec, prog, thr, stream, winners, finis>>
      ELSE Done(t, "ok") /\ Mark(t, "ok") /\ UNCHANGED <<st, rec, prog, thr, stream, dead, winners, finis>>
Free(t) ==
   /\ Active(t) /\ Op(t) = "free" /\ phase[t] = 0
   /\ IF thr[t].finished THEN Refuse(t, "thread-finished") /\ Mark(t, "refused")
                            /\ UNCHANGED <<st, rec, prog, thr, stream, winners, finis>>
      ELSE IF ~thr[t].ready THEN Refuse(t, "thread-not-initialized") /\ Mark(t, "refused")
                            /\ UNCHANGED <<st, rec, prog, thr, stream, winners, finis>>
      ELSE /\ thr' = [thr EXCEPT ![t] = [ready |-> FALSE, finished |-> TRUE]]
           /\ Done(t, "ok") /\ Mark(t, "ok") /\ UNCHANGED <<st, rec, prog, stream, dead, winners, finis>>

ProcFiniCas(t) ==
   /\ Active(t) /\ Op(t) = "proc_fini" /\ phase[t] = 0
   /\ IF st = "READY"
      THEN /\ st' = "GONE" /\ phase' = [phase EXCEPT ![t] = 1] /\ finis' = finis \cup {t} /\ Mark(t, "won")
           /\ UNCHANGED <<rec, prog, ip, thr, stream, out, dead, winners>>
      ELSE /\ Refuse(t, "process-not-ready") /\ Mark(t, "refused")
           /\ UNCHANGED <<st, rec, prog, thr, stream, winners, finis>>
ProcFiniCleanup(t) ==
   /\ Active(t) /\ Op(t) = "proc_fini" /\ phase[t] = 1
   /\ Done(t, "ok") /\ Mark(t, "ok") /\ UNCHANGED <<st, rec, prog, thr, stream, dead, winners, finis>>

StepOf(t) == \/ ProcInitCas(t) \/ ProcInitStore(t) \/ ProcInitBody(t) \/ ProcInitPublish(t)
             \/ ThreadInitCheck(t) \/ ThreadInitSetup(t)
             \/ Emit(t) \/ NeedsReady(t, "flush") \/ NeedsReady(t, "cpu") \/ Free(t)
             \/ ProcFiniCas(t) \/ ProcFiniCleanup(t)

Init == /\ st = "UNINIT" /\ rec = "unset"
        /\ prog \in [Threads -> Programs]
        /\ ip = [t \in Threads |-> 1] /\ phase = [t \in Threads |-> 0]
        /\ thr = [t \in Threads |-> [ready |-> FALSE, finished |-> FALSE]]
        /\ stream = [t \in Threads |-> <<>>] /\ out = [t \in Threads |-> <<>>]
        /\ dead = [t \in Threads |-> FALSE] /\ winners = {} /\ finis = {} /\ last = <<>>
Next == \E t \in Threads : StepOf(t)
Spec == Init /\ [][Next]_vars

-----------------------------------------------------------------------------
(* C11 *)
\* process initialisation / finalisation take effect at most once; losers are refused
InitOnce == Cardinality(winners) <= 1
FiniOnce == Cardinality(finis) <= 1
\* a thread holding the record for writing excludes every reader: the record is
\* only read in steps that require st to have been READY (after the publish)
Reading(t) == \/ (Op(t) = "thread_init" /\ phase[t] = 1)
              \/ (Op(t) = "proc_fini" /\ phase[t] = 1)
Writing(t) == Op(t) = "proc_init" /\ phase[t] \in {1, 2}
RecordStableWhileRead ==
   \A t, u \in Threads : (Active(t) /\ Active(u) /\ Reading(t) /\ Writing(u)) => FALSE
\* nothing runs before READY: a thread is ready only if the process has been READY
NoOpBeforeReady == \A t \in Threads : thr[t].ready => st \in {"READY", "GONE"}
\* isolation: the stream of a thread holds exactly its own successful emits, in order
Emitted(t) == LET idx == {i \in 1..Len(out[t]) : prog[t][i] = "emit" /\ out[t][i] = "ok"}
              IN  Cardinality(idx)
Isolation == \A t \in Threads : stream[t] = [i \in 1..Emitted(t) |-> i]
\* the state word only moves forward
Forward == {<<"UNINIT", "INIT">>, <<"INIT", "READY">>, <<"READY", "GONE">>}
StMonotone == [][(st' = st) \/ (<<st, st'>> \in Forward)]_vars

(* Bounded instance *)
P1 == <<"proc_init", "thread_init", "emit", "flush", "free", "proc_fini">>
P2 == <<"thread_init", "emit", "emit", "free">>
P3 == <<"proc_init", "thread_init", "emit", "free">>
P4 == <<"thread_init", "cpu", "emit", "free", "proc_fini">>
P5 == <<"emit">>
P6 == <<"thread_init", "thread_init", "free", "free">>
P7 == <<"proc_init", "proc_fini", "proc_init">>
Progs == {P1, P2, P3, P4, P5, P6, P7}
\* programs that make threads meet in proc_init / proc_fini (schedule generation for the races)
R1 == <<"proc_init", "thread_init", "free", "proc_fini">>
R2 == <<"thread_init", "free", "proc_fini">>
R3 == <<"proc_init", "proc_fini">>
R4 == <<"proc_fini", "proc_init">>
R5 == <<"proc_init", "thread_init", "emit", "proc_fini", "flush", "free">>
RaceProgs == {R1, R2, R3, R4, R5}
=============================================================================
