#!/bin/sh
# Developer tool: run the given checks in the given tier and print exit status and wall time.
# usage: run_ids.sh <quick|thorough> <id> ...
cd "$(dirname "$0")/.."
tier=$1; shift
for id in "$@"; do
  s=$(date +%s)
  ./check $id --tier $tier > /tmp/runids_$id.out 2> /tmp/runids_$id.err; rc=$?
  e=$(date +%s)
  echo "$id rc=$rc wall=$((e-s))s $(grep -c '^VIOLATION' /tmp/runids_$id.out) violations $(grep -c '^KNOWN-FINDING' /tmp/runids_$id.out) known"
done
