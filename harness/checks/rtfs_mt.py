"""C09 / C10 with two threads in one process - RtFs2.tla.

Design: RtFs2 runs the file-system script of RtFs for two threads one after
the other (thread 2 starts when ovni_thread_free of thread 1 has returned)
with a crash between any two calls / one failing call, and judges the whole
trace directory the way the emulator does (every visible stream must be
finished and acceptable).

Binding: `rtdrive -mt` runs two scripts with that order (barriers).  strace
is told with -P to look only at the files of ONE thread, so the k-th
matching system call of that thread can be hit precisely (strace counts
injections per matching call): for every such call the run is repeated with
SIGKILL at its entry (C09) or with an error (C10).  What survives on disk is
projected per stream (bytes of stream.obs, state of stream.json, bytes the
thread had flushed), ovniemu -l gives its verdict on the temporary and the
final directory, and the record is judged by the multi-stream monitors of
RtFsTrace.tla.
"""
import json
import os
import re
import shutil

from vlib import core, emu, tv
from checks import rtfs

OHX = {1000: "00000000e8030000ed5e000000000000", 1001: "01000000e9030000ed5e000000000000"}
TIDS = (1000, 1001)


def body(name):
    if name == "small":
        return ["emitraw OB. -", "flush", "emitraw OB. -", "emitraw OHe -", "flush"]
    if name == "one":
        return ["emitraw OB. -", "emitraw OHe -", "flush"]
    if name == "boundary":
        # the end event finishes exactly at byte 4096 of the stream (see rtfs.scenario_script)
        return ["emitraw OB. -"] * 335 + ["emitraw OB. 0102"] * 2 + ["emitraw OHe -", "flush", "flush"]
    raise ValueError(name)


def scripts(a, b, late=False):
    head = ["proc_init 1 node0 1000", "thread_init 1000", "cpu 0 0", "cpu 1 1", "emitraw OHx " + OHX[1000]]
    if late:
        # the second thread is a late worker: it frees its stream only AFTER the first one has called
        # ovni_proc_fini (the library accepts that order)
        sa = head + body(a) + ["free", "barrier", "barrier", "fini", "barrier"]
        sb = ["barrier", "thread_init 1001", "emitraw OHx " + OHX[1001]] + body(b) + ["barrier", "barrier", "free"]
        return sa, sb
    sa = head + body(a) + ["free", "barrier", "barrier", "fini"]
    sb = ["barrier", "thread_init 1001", "emitraw OHx " + OHX[1001]] + body(b) + ["free", "barrier"]
    return sa, sb


def thread_paths(root, tid):
    d = os.path.join(root, "loom.node0", "proc.1000", "thread.%d" % tid)
    return [d, os.path.join(d, "stream.obs"), os.path.join(d, "stream.json")]


def literal_paths(root, tid):
    """the same paths as the library spells them (strace -P compares path arguments literally)"""
    return [p.replace("/proc.1000/", "/proc.1000//") for p in thread_paths(root, tid)]


def stream_state(tmpd, find, tid):
    st = {"obs": {}, "json": {}}
    for w, root in (("tmp", tmpd), ("fin", find)):
        if root is None:
            st["obs"][w] = -1
            st["json"][w] = "absent"
            continue
        d, po, pj = thread_paths(root, tid)
        st["obs"][w] = os.path.getsize(po) if os.path.exists(po) else -1
        st["json"][w] = rtfs.json_state(pj)
    return st


def flushed_of(calls, work_obs):
    """bytes the thread handed to write() on its own stream (work directory), from a strace log"""
    fd = None
    n = 0
    for c in calls:
        a = c["args"].replace("//", "/")
        if c["sys"] in ("openat", "open") and work_obs in a and "O_RDONLY" not in a:
            fd = c["ret"]
        elif c["sys"] == "write" and fd is not None and a.startswith("%d," % fd):
            if c["ret"] and c["ret"] > 0:
                n += c["ret"]
        elif c["sys"] == "close" and fd is not None and a.strip() == str(fd):
            fd = None
    return n


class Prog:
    def __init__(self, name, mode, a, b, drv, bdir):
        self.name, self.mode, self.drv, self.bdir = name, mode, drv, bdir
        self.sa, self.sb = scripts(a, b, late=name.endswith("-late"))

    def run(self, only=None, inject=None):
        """one run under strace -f; only = tid whose files strace looks at (None: everything)"""
        d = core.mkscratch("fsmt")
        try:
            args = []
            for k, sc in enumerate((self.sa, self.sb)):
                sp = os.path.join(d, "script%d" % k)
                open(sp, "w").write("\n".join(sc) + "\n")
                args += [sp, os.path.join(d, "log%d" % k)]
            find = os.path.join(d, "final")
            tmpd = os.path.join(d, "tmp") if self.mode == "tmp" else None
            env = {"OVNI_TRACEDIR": find}
            if tmpd:
                env["OVNI_TMPDIR"] = tmpd
            cmd = ["strace", "-f", "-o", os.path.join(d, "strace.log"), "-e", "trace=" + rtfs.TRACED]
            if only is not None:
                for root in (tmpd, find):
                    if root:
                        for p in thread_paths(root, only) + literal_paths(root, only):
                            cmd += ["-P", p]
            if inject:
                cmd += ["-e", "inject=" + inject]
            cmd += [self.drv, "-mt"] + args
            rc, out, err = core.run(cmd, timeout=90, env=env, cwd=d)
            calls = rtfs.parse_strace(os.path.join(d, "strace.log"))
            streams = [stream_state(tmpd, find, t) for t in TIDS]
            ev = {}
            for w, root in (("tmp", tmpd), ("fin", find)):
                if root and os.path.isdir(root):
                    cp = os.path.join(d, "emu_" + w)
                    shutil.copytree(root, cp)
                    ev[w] = rtfs.emu_verdict(self.bdir, cp)
                else:
                    ev[w] = "none"
            work = tmpd or find
            fl = {t: flushed_of(calls, thread_paths(work, t)[1]) for t in TIDS}
            return {"rc": rc, "calls": calls, "streams": streams, "emu": ev, "flushed": fl,
                    "stderr": err.decode("latin1", "replace")}
        finally:
            shutil.rmtree(d, ignore_errors=True)


def record(prog, kind, outcome, res, flushed):
    head = {"c": "scenario", "kind": kind, "mode": prog.mode, "flushes": [], "chunk": 4096, "rdorder": "obs_first"}
    streams = [dict(s, flushed=flushed[t]) for s, t in zip(res["streams"], TIDS)]
    end = {"c": outcome + "_mt", "streams": streams, "emu": res["emu"],
           "diag": bool(re.search(r"ERROR|FATAL|failed|abort", res["stderr"], re.I))}
    return [head, end]


ERRS = {"write": "ENOSPC", "mkdir": "EACCES", "openat": "EACCES", "open": "EACCES", "close": "EIO",
        "unlink": "EACCES", "rmdir": "EACCES", "read": "EIO", "getdents64": "EIO"}


def run(ck, pid, tier, bdir, drv):
    # ---- design
    for cfg, neg in ((("RtFs2_C09.cfg" if tier == "quick" else "RtFs2_C09_Thorough.cfg"), False), ("RtFs2_C09_Neg.cfg", True)) \
            if pid == "C09" else \
            ((("RtFs2_C10.cfg" if tier == "quick" else "RtFs2_C10_Thorough.cfg"), False), ("RtFs2_C10_Neg.cfg", True)):
        r = core.tlc("RtFs2", cfg, timeout=3000, heap="12g")
        core.tlc_expect_ok(r, cfg)
        ck.add_tlc(r, "RtFs2/" + cfg + (" (behaviour of the pinned commit; must fail)" if neg else " (two threads)"))
        if neg and not r.violated:
            raise core.MachineryError("negative configuration %s no longer fails" % cfg)
        if not neg and r.violated:
            ck.violation("RtFs2 model violates %s" % r.violated, {"tlc.out": r.out[-20000:]}, sig="rtfs2:model")
    # ---- conformance
    progs = [("mt-small+boundary-tmp", "tmp", "small", "boundary"), ("mt-boundary+one-tmp", "tmp", "boundary", "one"),
             ("mt-small+small-direct", "direct", "small", "small"), ("mt-small+boundary-tmp-late", "tmp", "small", "boundary")]
    if tier == "thorough":
        progs += [("mt-one+boundary-direct", "direct", "one", "boundary"), ("mt-boundary+boundary-tmp", "tmp", "boundary", "boundary")]
    kind = "mt09" if pid == "C09" else "mt"
    execs, owners = [], []
    njobs = 0
    for name, mode, a, b in progs:
        pg = Prog(name, mode, a, b, drv, bdir)
        ref = pg.run()
        if ref["rc"] != 0 and name.endswith("-late") and ref["rc"] == 3:
            # a library that refuses (with a diagnostic) to free a thread after ovni_proc_fini is not wrong:
            # the order is tolerated today, not promised
            ck.notes.setdefault("two_thread_programs_skipped", []).append(
                "%s: the library refuses the late ovni_thread_free: %s" % (name, ref["stderr"][-200:]))
            continue
        if ref["rc"] != 0:
            raise core.MachineryError("reference run of %s failed: rc=%s %s" % (name, ref["rc"], ref["stderr"][-400:]))
        full = dict(ref["flushed"])
        if not all(full[t] > 0 for t in TIDS):
            raise core.MachineryError("reference run of %s: flushed bytes not observed %r" % (name, full))
        execs.append(record(pg, kind, "returned", ref, full))
        owners.append((name, "reference", ref))
        jobs = []
        for t in TIDS:
            flt = pg.run(only=t)
            if flt["rc"] != 0 or not flt["calls"]:
                raise core.MachineryError("filtered reference run of %s (thread %d) failed: rc=%s, %d calls"
                                          % (name, t, flt["rc"], len(flt["calls"])))
            seen = {}
            for c in flt["calls"]:
                seen[c["sys"]] = seen.get(c["sys"], 0) + 1
                if c["sys"] == "mkdir" and "EEXIST" in c["rest"]:
                    continue
                act = "signal=KILL" if pid == "C09" else "error=" + ERRS.get(c["sys"], "EIO")
                jobs.append((t, "%s:%s:when=%d" % (c["sys"], act, seen[c["sys"]]),
                             "%s(%s)" % (c["sys"], c["args"][:60])))
            if pid == "C09":
                # ... and the error-injection family judged by the C09 monitors
                seen = {}
                for c in flt["calls"]:
                    seen[c["sys"]] = seen.get(c["sys"], 0) + 1
                    if c["sys"] in ("write", "close", "openat") and not (c["sys"] == "mkdir"):
                        jobs.append((t, "%s:error=%s:when=%d" % (c["sys"], ERRS[c["sys"]], seen[c["sys"]]),
                                     "%s(%s)" % (c["sys"], c["args"][:60])))
        njobs += len(jobs)
        results = core.pmap(lambda j, pg=pg: pg.run(only=j[0], inject=j[1]), jobs)
        for (t, inj, what), res in zip(jobs, results):
            ck.case("%s:thread%d:%s" % (name, t, inj), nontrivial=True)
            # the other thread is not observed by this strace run: thread 1000 ran to completion before
            # thread 1001 started (its flushed bytes are those of the reference run), thread 1001 has
            # not started while thread 1000 is running
            fl = {t: res["flushed"][t]}
            other = TIDS[1 - TIDS.index(t)]
            fl[other] = full[other] if other == 1000 else 0
            killed = res["rc"] in (137, -9)
            if killed:
                outcome = "killed"
            elif res["rc"] == 0:
                outcome = "returned"
                fl = dict(full)
            elif res["rc"] == 3:
                outcome = "aborted"
            elif pid == "C09":
                continue
            else:
                ck.violation("two-thread program %s with %s at %s of thread %d: driver ended with status %s\n%s"
                             % (name, inj, what, t, res["rc"], res["stderr"][-600:]), {"stderr.txt": res["stderr"]},
                             sig="mt-fault-exit-%s" % res["rc"])
                continue
            if outcome == "returned" and "KILL" in inj:
                continue        # injection point not reached
            execs.append(record(pg, kind, outcome, res, fl))
            owners.append((name, "thread %d %s at %s" % (t, inj, what), res))
    tvr = tv.validate("RtFsTrace", "RtFsTrace.cfg", execs, None, chunk=max(10, len(execs) // 8 + 1), parallel=8)
    ck.cov["traces_validated_against_impl"] += len(tvr.accepted)
    ck.cov["states"] += tvr.states
    ck.cov["transitions"] += tvr.generated
    ck.notes["two_thread_programs"] = {"programs": [p[0] for p in progs], "crash_or_fault_points": njobs,
                                       "executions": len(execs), "accepted": len(tvr.accepted),
                                       "rejected": len(tvr.rejected)}
    for (i, line, rec, tail, violated) in tvr.rejected:
        name, what, res = owners[i]
        end = execs[i][-1]
        bad = [k for k, x in enumerate(end["streams"]) if x["json"]["fin"] == "fin" and x["obs"]["fin"] < x["flushed"]]
        sig = "rtfs-mt:%s:%s" % (name, "finished-before-obs-complete" if bad else end["c"])
        ck.violation("two-thread program %s, %s: outcome violates the %s monitors\nend: %s\nstderr: %s"
                     % (name, what, pid, json.dumps(end), res["stderr"][-300:]),
                     {"execution.ndjson": "\n".join(json.dumps(x) for x in execs[i]), "tlc_tail.txt": tail}, sig=sig)
    ck.assumptions += ["two-thread programs run their threads one after the other (threads write disjoint directories); "
                       "strace -P restricts injection to the files of one thread, the other thread's state is the one of "
                       "the reference run (complete) or 'not started'"]
