#!/usr/bin/env python3
"""Developer tool: re-run the check of every seeded change in /verif/seeded against the change applied to the
current /repo HEAD (scratch worktrees outside /repo and /verif), a few at a time.
usage: harness/seed_regress.py [-j N] [name-prefix ...]      writes seeded/REGRESSION.txt"""
import json
import os
import subprocess
import sys
import tempfile
import time
from concurrent.futures import ThreadPoolExecutor

HERE = os.path.dirname(os.path.dirname(os.path.abspath(__file__)))


def one(name):
    d = os.path.join(HERE, "seeded", name)
    prop = json.load(open(os.path.join(d, "meta.json")))["breaks_property"]
    wt = tempfile.mkdtemp(prefix="regr-", dir="/tmp")
    os.rmdir(wt)
    subprocess.check_call(["git", "-C", "/repo", "worktree", "add", "-q", wt, "HEAD"])
    try:
        r = subprocess.run(["git", "-C", wt, "apply", os.path.join(d, "patch.diff")],
                           stdout=subprocess.PIPE, stderr=subprocess.STDOUT, text=True)
        if r.returncode != 0:
            return name, prop, "does-not-apply", 0
        t0 = time.time()
        # evidence goes to a scratch copy of the evidence dir: VERIF_EVIDENCE is not supported, so the
        # check rewrites evidence/<id>.json; restored by the caller at the end
        p = subprocess.run([os.path.join(HERE, "check"), prop, "--tier", "quick"], cwd=HERE,
                           env=dict(os.environ, VERIF_REPO=wt), stdout=subprocess.PIPE, stderr=subprocess.PIPE, text=True)
        nv = sum(1 for l in p.stdout.splitlines() if l.startswith("VIOLATION"))
        return name, prop, "exit=%d violations=%d" % (p.returncode, nv), time.time() - t0
    finally:
        subprocess.run(["git", "-C", "/repo", "worktree", "remove", "--force", wt])


def main():
    args = sys.argv[1:]
    j = 3
    if args[:1] == ["-j"]:
        j = int(args[1])
        args = args[2:]
    names = sorted(n for n in os.listdir(os.path.join(HERE, "seeded"))
                   if os.path.isdir(os.path.join(HERE, "seeded", n)) and not n.startswith("_"))
    if args:
        names = [n for n in names if any(n.startswith(a) for a in args)]
    out = []
    with ThreadPoolExecutor(j) as ex:
        for name, prop, res, dt in ex.map(one, names):
            line = "%-52s %s %-28s %4.0fs" % (name, prop, res, dt)
            print(line, flush=True)
            out.append(line)
    head = "HEAD of /repo: %s\n" % subprocess.check_output(["git", "-C", "/repo", "rev-parse", "--short", "HEAD"], text=True).strip()
    fn = "REGRESSION.txt" if not args else "REGRESSION-partial.txt"
    open(os.path.join(HERE, "seeded", fn), "w").write(head + "\n".join(out) + "\n")
    pass  # evidence of scratch-worktree runs goes to a scratch directory (core.EVIDENCE)


if __name__ == "__main__":
    main()
