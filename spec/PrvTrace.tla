------------------------------ MODULE PrvTrace ------------------------------
(* C13: well-formedness of the Paraver output, evaluated by TLC on the files
   the real emulator wrote.  One record per (accepted run, output file):
     [e |-> "prv", file, dur, nrows, last, lines, types, rows, streams, kind]
       dur, nrows : the .prv header (duration, number of rows)
       last       : time of the last replayed event (corrected - first)
       lines      : sequence of <<time, row, type, value>> in file order
       types      : sequence of [ty, vals]: the types declared in the .pcf with
                    the values that have a label
       rows       : the names in the .row file, in order
       streams    : the metadata of the trace (sequence, as in SystemOps)
       kind       : "thread" | "cpu"
   The expected row names come from SystemOps (documented order).          *)
EXTENDS SystemOps, IOUtils

Log == ndJsonDeserialize(IOEnv.TRACE)
VARIABLE l
Rec == Log[l]

\* state types whose non-zero values must have a label (emulator-defined)
StateTypes == {4, 6, 7, 13, 16, 17, 20, 25, 30, 36, 37, 39, 40, 41, 45, 50, 11}

Declared(r) == {r.types[i].ty : i \in 1..Len(r.types)}
Labelled(r, ty) == IF ty \notin Declared(r) THEN {}       \* (a type missing from the .pcf has no labels at all)
                   ELSE LET i == CHOOSE k \in 1..Len(r.types) : r.types[k].ty = ty
                        IN  {r.types[i].vals[k] : k \in 1..Len(r.types[i].vals)}

TimesNonDecreasing(r) == \A i \in 1..(Len(r.lines) - 1) : r.lines[i][1] <= r.lines[i + 1][1]
RowsInRange(r)    == \A i \in 1..Len(r.lines) : r.lines[i][2] >= 1 /\ r.lines[i][2] <= r.nrows
HeaderDuration(r) == r.dur = r.last
TypesDeclared(r)  == \A i \in 1..Len(r.lines) : r.lines[i][3] \in Declared(r)
StateValuesLabelled(r) ==
   \A i \in 1..Len(r.lines) :
      (r.lines[i][3] \in StateTypes /\ r.lines[i][4] # 0) => r.lines[i][4] \in Labelled(r, r.lines[i][3])
\* marks: values with a registered label only when labels were registered: not required by C13

ThreadName(x) == <<"TH", x[1], x[2]>>
NPhys(r) == LET e == Expected(r.streams) IN Cardinality({i \in 1..Len(e.crows) : e.crows[i][2] # -1})
ExpectedRows(r) ==
   LET e == Expected(r.streams) IN
   IF r.kind = "breakdown"      \* one row per physical CPU, named "~CPU n" .. "~CPU 1"
   THEN [i \in 1..NPhys(r) |-> <<"~CPU", NPhys(r) - i + 1, -1>>]
   ELSE IF r.kind = "thread" THEN [i \in 1..Len(e.trows) |-> <<"TH", e.trows[i][1], e.trows[i][2]>>]
   ELSE [i \in 1..Len(e.crows) |-> <<IF e.crows[i][2] = -1 THEN "vCPU" ELSE "CPU", e.crows[i][1], e.crows[i][2]>>]
RowFileMatches(r) ==
   /\ Len(r.rows) = r.nrows
   /\ Expected(r.streams).verdict = "ok" =>
        /\ Len(r.rows) = Len(ExpectedRows(r))
        /\ \A i \in 1..Len(r.rows) : <<r.rows[i][1], r.rows[i][2], r.rows[i][3]>> = ExpectedRows(r)[i]

WellFormed(r) == /\ TimesNonDecreasing(r) /\ RowsInRange(r) /\ HeaderDuration(r)
                 /\ TypesDeclared(r) /\ StateValuesLabelled(r) /\ RowFileMatches(r)

\* which clause fails (for the diagnostic)
Failing(r) == {n \in {"TimesNonDecreasing", "RowsInRange", "HeaderDuration", "TypesDeclared",
                      "StateValuesLabelled", "RowFileMatches"} :
                 ~ CASE n = "TimesNonDecreasing" -> TimesNonDecreasing(r)
                     [] n = "RowsInRange" -> RowsInRange(r)
                     [] n = "HeaderDuration" -> HeaderDuration(r)
                     [] n = "TypesDeclared" -> TypesDeclared(r)
                     [] n = "StateValuesLabelled" -> StateValuesLabelled(r)
                     [] n = "RowFileMatches" -> RowFileMatches(r)}

TInit == l = 1
TNext == /\ l <= Len(Log)
         /\ (WellFormed(Rec) \/ (PrintT(<<"FAILING", l, Failing(Rec)>>) /\ FALSE))
         /\ l' = l + 1
TSpec == TInit /\ [][TNext]_l

Accepted == TLCGet("stats").diameter - 1 = Len(Log)
Report == PrintT(<<"CONSUMED", TLCGet("stats").diameter - 1, Len(Log)>>) /\ Accepted
=============================================================================
