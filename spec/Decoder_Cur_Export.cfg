\* arithmetic of the current code, no invariant: export every transition with its boundary class
SPECIFICATION Spec
CONSTANTS
  W = 8
  MaxSize = 40
  Guarded = FALSE
  JSizes <- JSQuick
  JFlags <- JFQuick
  MaxStr = 6
ACTION_CONSTRAINT Export
CHECK_DEADLOCK FALSE
