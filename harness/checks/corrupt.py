"""C12 (structurally invalid or incomplete traces are rejected, never
emulated as ok) - Corrupt.tla.

TLC enumerates, for every seed trace defined in the specification, every
single corruption the property names (truncation of stream.obs at EVERY byte
offset, swap of adjacent events with different clocks, every header byte
altered, every metadata key removed / retyped / altered, unparsable JSON, MCV
substitutions (model not required, unknown code, known event), payload sizes
the handlers check, jumbo flag removed) and decides the verdict of each with
the acceptance function Judge + the reference semantics of the emulator
(EmuFull.StepAll); the property layer (TruncAlwaysRejected, ...) is checked
as invariants on the family and three negative configurations (acceptance
functions that do not require the threads to be dead / ignore the clock order
inside a stream / silently drop a trailing fragment) must be refuted.

When the build tree of /repo with the traces of its own test-suite is around
(optional), a few of those traces (written by the real runtime) are used as
additional OPAQUE seeds for the byte-level corruptions: CorruptBytes.tla gets
their decoded shape (offsets, sizes, clock order, which events are OHe) and
decides truncations, header bytes, swaps and decreasing clocks.

Conformance: the seeds are materialised byte for byte from the exported
abstract traces (the sizes are asserted against the ones the specification
computes), each corruption is applied on the bytes / the JSON tree, and
`ovniemu -l` runs on every one of them:
   reject       -> exit status 1, no "emulation finished ok", no signal
   ok           -> accepted
   unspecified  -> anything but a crash / timeout
Nothing is expected by the harness itself: verdicts come from TLC.
"""
import json
import os
import shutil
import struct

from vlib import core, obs, emu

NEG = [("Corrupt_Neg.cfg", "TruncAlwaysRejected",
        "acceptance function that does not require every thread to be dead at the end"),
       ("Corrupt_NegClock.cfg", "SwapAlwaysRejected",
        "acceptance function that ignores the clock order inside a stream"),
       ("Corrupt_NegFrag.cfg", "TruncAlwaysRejected",
        "acceptance function that silently drops a trailing fragment")]


# --------------------------------------------------------------------------
# concretisation of the abstract trace (encoding only)

def enc_int(v, width):
    return int(v).to_bytes(width, "little", signed=(v < 0))


def enc_event(e):
    """abstract event {m, a, j, clk, sz, fmt} -> bytes"""
    a = e["a"]
    if e.get("jsz") is not None:
        return obs.ev(e["m"], e["clk"], jumbo=b"\x01\x02\x03"[:e["jsz"]])
    if e["m"][1:] == "Yc" and len(a) >= 2:
        data = enc_int(a[0], 4) + ("T%d" % a[1]).encode() + b"\0"
        if e["j"]:
            return obs.ev(e["m"], e["clk"], jumbo=data)
        if e.get("jumbo_shaped"):
            data = enc_int(len(data), 4) + data      # what the jumbo event stored: u32 size, then the data
        pl = data.ljust(e["sz"], b"\0")[:e["sz"]]
        return obs.ev(e["m"], e["clk"], pl)
    if e["j"]:
        raise core.MachineryError("no encoding for jumbo event %s" % e["m"])
    fmt = e["fmt"]
    if len(a) > len(fmt):
        raise core.MachineryError("event %s has more arguments than its format %s" % (e["m"], fmt))
    # the arguments of a seed event are complete; a size corruption cuts or zero-pads the payload
    full = b"".join(enc_int(a[i] if i < len(a) else 0, w) for i, w in enumerate(fmt)) if a else b""
    pl = full.ljust(e["sz"], b"\0")[:e["sz"]]
    return obs.ev(e["m"], e["clk"], pl)


def untag(key, v):
    t = v[0]
    if t == "num":
        return v[1]
    if t == "str":
        return v[1]
    if t == "numstr":
        return str(v[1])
    if t == "frac":
        return v[1] + 0.5
    if t == "loom":
        return "node%d.x" % v[1]
    if t == "obj":
        return {k: untag(k, x) for k, x in v[1].items()} if isinstance(v[1], dict) else {}
    if t == "arr":
        return [{"index": c[0], "phyid": c[1]} for c in v[1]]
    if t == "marks":
        return {str(m["type"]): {"title": "mark%d" % m["type"],
                                 "chan_type": "stack" if m["stack"] else "single",
                                 "labels": {"1": "one", "5": "five"}} for m in v[1]}
    raise core.MachineryError("unknown tagged value %r for %s" % (v, key))


def meta_json(meta):
    """flattened tagged metadata -> JSON tree (insertion order of the keys kept)"""
    out = {}
    for k, v in meta.items():
        d = out
        parts = k.split(".")
        for p in parts[:-1]:
            d = d.setdefault(p, {})
        d[parts[-1]] = untag(k, v)
    return out


class Seed:
    def __init__(self, obj):
        self.id = obj["id"]
        self.streams = obj["streams"]
        self.evbytes = []
        self.dirs = []
        for st in self.streams:
            bs = [enc_event(e) for e in st["evs"]]
            if [len(b) for b in bs] != st["sizes"] or 8 + sum(len(b) for b in bs) != st["fsize"]:
                raise core.MachineryError(
                    "seed %d: the encoding of the harness has sizes %s / %d, the specification says %s / %d"
                    % (self.id, [len(b) for b in bs], 8 + sum(len(b) for b in bs), st["sizes"], st["fsize"]))
            self.evbytes.append(bs)
            m = st["meta"]
            self.dirs.append(os.path.join("loom.node%d.x" % m["ovni.loom"][1], "proc.%d" % m["ovni.pid"][1],
                                          "thread.%d" % m["ovni.tid"][1]))


def corrupt(seed, c):
    """returns list of (relative dir, stream.obs bytes, stream.json bytes) of the corrupted trace"""
    kind, k, p, q, val = c["kind"], c["stream"] - 1, c["p"], c["q"], c["val"]
    files = []
    for i, st in enumerate(seed.streams):
        hdr = bytes(st["hdr"])
        evs = list(seed.evbytes[i])
        meta = dict(st["meta"])
        js = None
        cut = None
        if i == k:
            if kind == "trunc":
                cut = p
            elif kind == "swap":
                evs[p - 1], evs[p] = evs[p], evs[p - 1]
            elif kind == "clock":
                b = evs[p - 1]
                evs[p - 1] = b[:4] + struct.pack("<Q", q) + b[12:]
            elif kind == "hdr":
                hdr = hdr[:p] + bytes([q]) + hdr[p + 1:]
            elif kind == "meta":
                if q == "removed":
                    del meta[p]
                else:
                    meta[p] = val
            elif kind == "req":
                tag, r = meta["ovni.require"]
                r = dict(r)
                if q == "removed":
                    del r[p]
                else:
                    r[p] = val
                meta["ovni.require"] = [tag, r]
            elif kind == "mcv":
                b = evs[p - 1]
                evs[p - 1] = b[:1] + mcv_bytes(q) + b[4:]
            elif kind == "pay":
                e = dict(st["evs"][p - 1])
                e["sz"] = q
                evs[p - 1] = enc_event(e)
            elif kind == "jsz":
                e = dict(st["evs"][p - 1])
                e["a"] = []
                e["jsz"] = q
                evs[p - 1] = enc_event(e)
            elif kind == "nojumbo":
                e = dict(st["evs"][p - 1])
                e["j"] = False
                e["sz"] = 12 if q == 1 else 8
                e["jumbo_shaped"] = q == 1
                evs[p - 1] = enc_event(e)
            elif kind == "json":
                text = json.dumps(meta_json(meta), indent=1).encode()
                js = {"truncated": text[:len(text) // 2], "garbage": b"\x7fELF\x01\x02 not json {{{ ]",
                      "empty": b"", "array": b"[1, 2, 3]\n", "trailing": text + b"\n xyz {{{ ]\n"}[p]
            elif kind != "none":
                raise core.MachineryError("unknown corruption kind %r" % kind)
        data = hdr + b"".join(evs)
        if cut is not None:
            data = data[:cut]
        if js is None:
            js = json.dumps(meta_json(meta), indent=1).encode()
        files.append((seed.dirs[i], data, js))
    return files


def run_files(bdir, files):
    """write the trace (list of (relative dir, stream.obs, stream.json)) and run ovniemu -l on it"""
    d = core.mkscratch("c12")
    try:
        td = os.path.join(d, "ovni")
        for rel, data, js in files:
            sd = os.path.join(td, rel)
            os.makedirs(sd)
            with open(os.path.join(sd, "stream.obs"), "wb") as f:
                f.write(data)
            with open(os.path.join(sd, "stream.json"), "wb") as f:
                f.write(js)
        return emu.ovniemu(bdir, td, ("-l",), timeout=120)
    finally:
        shutil.rmtree(d, ignore_errors=True)


def run_case(bdir, seed, c):
    files = corrupt(seed, c)
    return run_files(bdir, files), files


def compare(ck, what, exp, er, sig, bundle):
    """the verdict of the specification against the run of the emulator; bundle() builds the replay bundle.
    Returns True when they agree."""
    if er.signal or er.timeout or er.sanitizer:
        ck.violation("ovniemu %s on a corrupted trace (%s); expected verdict %s\n%s"
                     % (er.verdict, what, exp, "\n".join(er.last_errors(3))), bundle(), sig=sig + ":crash")
        return False
    if exp == "reject":
        if er.finished_ok or er.rc != 1:
            ck.violation("invalid trace not rejected (%s): ovniemu -l verdict '%s' (exit status %s%s), the "
                         "specification says reject"
                         % (what, er.verdict, er.rc, ", printed 'emulation finished ok'" if er.finished_ok else ""),
                         bundle(), sig=sig)
            return False
    elif exp == "ok":
        if not er.accepted:
            ck.violation("trace that is still valid after the change was refused (%s): ovniemu -l verdict '%s'\n%s"
                         % (what, er.verdict, "\n".join(er.last_errors(3))), bundle(), sig=sig + ":refused")
            return False
    elif exp == "unspecified":
        if er.rc not in (0, 1) or (er.rc == 0) != er.finished_ok:
            ck.violation("ovniemu ended with %s on a corrupted trace (%s)" % (er.verdict, what), bundle(),
                         sig=sig + ":exit")
            return False
    else:
        raise core.MachineryError("unknown verdict %r exported by the specification" % exp)
    return True


def mcv_bytes(q):
    """three code bytes of a substitute; "~xyz" / "^xyz" = xyz with bit 7 of the value / category byte set"""
    if len(q) == 4 and q[0] in "~^":
        b = bytearray(q[1:].encode("latin1"))
        b[2 if q[0] == "~" else 1] |= 0x80
        return bytes(b)
    return q.encode("latin1")


def describe(c):
    k = c["kind"]
    if k == "trunc":
        return "stream %d truncated to %d bytes" % (c["stream"], c["p"])
    if k == "swap":
        return "stream %d events %d and %d swapped (clocks stay with their events)" % (c["stream"], c["p"], c["p"] + 1)
    if k == "clock":
        return "stream %d event %d clock set to %d (below its predecessor)" % (c["stream"], c["p"], c["q"])
    if k == "hdr":
        return "stream %d header byte %d set to %d" % (c["stream"], c["p"], c["q"])
    if k == "meta":
        return "stream %d metadata key %s %s%s" % (c["stream"], c["p"], c["q"],
                                                     "" if c["q"] == "removed" else " -> %s" % json.dumps(c["val"]))
    if k == "req":
        return "stream %d metadata key ovni.require.%s %s%s" % (c["stream"], c["p"], c["q"],
                                                                 "" if c["q"] == "removed" else " -> %s" % json.dumps(c["val"]))
    if k == "json":
        return "stream %d stream.json %s" % (c["stream"], c["p"])
    if k == "mcv":
        return "stream %d event %d MCV replaced by %s" % (c["stream"], c["p"], c["q"])
    if k == "pay":
        return "stream %d event %d payload size set to %d" % (c["stream"], c["p"], c["q"])
    if k == "jsz":
        return "stream %d event %d jumbo data cut to %d bytes" % (c["stream"], c["p"], c["q"])
    if k == "nojumbo":
        return "stream %d event %d jumbo flag removed%s" % (c["stream"], c["p"],
                                                             " (payload = size, id, label)" if c["q"] == 1 else "")
    return "no corruption"


def sig_of(seed, c):
    k = c["kind"]
    if k in ("meta", "req"):
        return "c12:%s:%s:%s" % (k, c["p"], c["q"])
    if k == "json":
        return "c12:json:%s" % c["p"]
    if k == "mcv":
        return "c12:mcv:%s" % c["q"]
    if k in ("pay", "nojumbo", "jsz"):
        return "c12:%s:%s" % (k, seed.streams[c["stream"] - 1]["evs"][c["p"] - 1]["m"])
    if k == "hdr":
        return "c12:hdr:%d" % c["p"]
    return "c12:" + k


def bundle_of(c, files, r):
    b = {"case.json": c, "emu_stderr.txt": r.text[-6000:]}
    for rel, data, js in files:
        b[os.path.join("ovni", rel, "stream.obs")] = data
        b[os.path.join("ovni", rel, "stream.json")] = js
    return b


# --------------------------------------------------------------------------
# traces of the repository's own test-suite (opaque: bytes only), CorruptBytes.tla

SUITE = ["ovni/emu-ovni-mp-simple", "nosv/emu-nosv-attach", "nosv/emu-nosv-mp-rank", "mpi/emu-mpi-func",
         "nanos6/emu-nanos6-task-types", "tampi/emu-tampi-ss-comm", "ovni/emu-ovni-libovni-mark"]


def suite_root():
    for base in (os.path.join(core.REPO, "_build"), "/repo/_build"):
        p = os.path.join(base, "test", "emu")
        if os.path.isdir(p):
            return p
    return None


class SuiteTrace:
    def __init__(self, tid, name, path):
        self.id = tid
        self.name = name
        self.streams = []
        for d in obs.find_streams(path):
            with open(os.path.join(d, "stream.obs"), "rb") as f:
                data = f.read()
            with open(os.path.join(d, "stream.json"), "rb") as f:
                js = f.read()
            self.streams.append({"rel": os.path.relpath(d, path), "data": data, "json": js,
                                 "evs": obs.decode(data)})
        if not self.streams or any(not st["evs"] for st in self.streams):
            raise obs.DecodeError("no streams / empty stream")

    def shape(self):
        clocks = sorted(set(e["clock"] for st in self.streams for e in st["evs"]))
        rank = {c: i for i, c in enumerate(clocks)}
        return {"id": self.id,
                "streams": [{"fsize": len(st["data"]), "offs": [e["off"] for e in st["evs"]],
                             "sizes": [e["size"] for e in st["evs"]],
                             "ranks": [rank[e["clock"]] for e in st["evs"]],
                             "ends": [1 if e["mcv"] == "OHe" else 0 for e in st["evs"]]} for st in self.streams]}

    def describe(self, c):
        st = self.streams[c["stream"] - 1]
        if c["kind"] == "hdr":
            return describe(dict(c, q=(st["data"][c["p"]] + c["q"]) % 256))
        if c["kind"] == "clock":
            return describe(dict(c, q=st["evs"][c["p"] - 2]["clock"] - 1))
        return describe(c)

    def files(self, c=None):
        out = []
        for i, st in enumerate(self.streams):
            data = st["data"]
            if c is not None and i == c["stream"] - 1:
                k, p, q = c["kind"], c["p"], c["q"]
                evs = st["evs"]
                if k == "trunc":
                    data = data[:p]
                elif k == "hdr":
                    data = data[:p] + bytes([(data[p] + q) % 256]) + data[p + 1:]
                elif k == "swap":
                    a, b = evs[p - 1], evs[p]
                    data = (data[:a["off"]] + data[b["off"]:b["off"] + b["size"]]
                            + data[a["off"]:a["off"] + a["size"]] + data[b["off"] + b["size"]:])
                elif k == "clock":
                    e = evs[p - 1]
                    data = (data[:e["off"] + 4] + struct.pack("<Q", evs[p - 2]["clock"] - 1)
                            + data[e["off"] + 12:])
                else:
                    raise core.MachineryError("unknown byte corruption %r" % k)
            out.append((st["rel"], data, st["json"]))
        return out


SUITE_QUICK = 4


def load_suite(bdir, ck, tier):
    """valid traces of the test-suite, when a build tree with the tests is around (optional)"""
    root = suite_root()
    traces, skipped = [], []
    if root is None:
        ck.notes["suite_traces"] = "no _build/test/emu tree: byte-level corruptions of suite traces skipped"
        return traces
    for name in (SUITE[:SUITE_QUICK] if tier == "quick" else SUITE):
        path = os.path.join(root, name + ".dir", "ovni")
        if not os.path.isdir(path):
            skipped.append(name + " (missing)")
            continue
        try:
            t = SuiteTrace(len(traces) + 1, name, path)
        except (obs.DecodeError, OSError, ValueError) as ex:
            skipped.append("%s (%s)" % (name, ex))
            continue
        # a seed must be a valid trace: the unmodified copy is accepted
        r = run_files(bdir, t.files())
        if not r.accepted:
            skipped.append("%s (not accepted by ovniemu -l as it is: %s)" % (name, r.verdict))
            continue
        traces.append(t)
    ck.notes["suite_traces"] = {"used": [t.name for t in traces], "skipped": skipped}
    return traces


def main(pid, tier):
    ck = core.Check(pid, "model_checking", tier)
    bdir = core.build("hooks")
    cfg = "Corrupt.cfg" if tier == "quick" else "Corrupt_Thorough.cfg"

    suite = load_suite(bdir, ck, tier)
    sdir = core.mkscratch("c12shapes")
    shapes = os.path.join(sdir, "shapes.ndjson")
    with open(shapes, "w") as f:
        for t in suite:
            f.write(json.dumps(t.shape()) + "\n")
    bcfg = "CorruptBytes.cfg" if tier == "quick" else "CorruptBytes_Thorough.cfg"

    # the family and, concurrently, the negative configurations and the byte-level family
    jobs = [("Corrupt", cfg, 10, None)] + [("Corrupt", n[0], 2, None) for n in NEG]
    if suite:
        jobs += [("CorruptBytes", bcfg, 2, {"SHAPES": shapes}), ("CorruptBytes", "CorruptBytes_Neg.cfg", 1, {"SHAPES": shapes})]
    try:
        rs = core.pmap(lambda j: core.tlc(j[0], j[1], workers=j[2], env=j[3], tags=("TR", "SEED"), timeout=3000,
                                          heap="8g"), jobs, threads=True)
    finally:
        shutil.rmtree(sdir, ignore_errors=True)
    r = rs[0]
    core.tlc_expect_ok(r, cfg)
    ck.add_tlc(r, "Corrupt/%s (every single corruption of the seed traces, one behaviour each)" % cfg)
    if r.violated:
        # the specification does not depend on /repo: an inconsistency between its property layer and its
        # acceptance function is a defect of the machinery
        raise core.MachineryError("Corrupt.tla: the corruption family violates %s\n%s" % (r.violated, r.out[-3000:]))
    for (ncfg, inv, what), rn in zip(NEG, rs[1:1 + len(NEG)]):
        core.tlc_expect_ok(rn, ncfg)
        ck.add_tlc(rn, "Corrupt/%s (negative: %s)" % (ncfg, what))
        if rn.violated != inv:
            raise core.MachineryError("negative configuration %s is not refuted (%s): expected %s violated, got %r"
                                      % (ncfg, what, inv, rn.violated))
    bcases = []
    if suite:
        rb, rbn = rs[-2], rs[-1]
        core.tlc_expect_ok(rb, bcfg)
        core.tlc_expect_ok(rbn, "CorruptBytes_Neg.cfg")
        ck.add_tlc(rb, "CorruptBytes/%s (byte-level corruptions of %d traces of the test-suite)" % (bcfg, len(suite)))
        ck.add_tlc(rbn, "CorruptBytes/CorruptBytes_Neg.cfg (negative: a thread may end without OHe)")
        if rb.violated:
            raise core.MachineryError("CorruptBytes.tla violates %s\n%s" % (rb.violated, rb.out[-3000:]))
        if rbn.violated != "TruncLosesEnd":
            raise core.MachineryError("negative configuration CorruptBytes_Neg.cfg is not refuted: %r" % rbn.violated)
        ub = {}
        for tg, o in rb.lines:
            if tg == "TR":
                ub.setdefault(json.dumps([o["trace"], o["kind"], o["stream"], o["p"], o["q"]]), o)
        bcases = list(ub.values())
        if not bcases:
            raise core.MachineryError("CorruptBytes export is empty")
    ck.notes["negative_configurations"] = [{"cfg": n[0], "refuted_by": n[1], "what": n[2]} for n in NEG]
    ck.phase("tlc")

    seeds = {o["id"]: Seed(o) for tg, o in r.lines if tg == "SEED"}
    cases = [o for tg, o in r.lines if tg == "TR"]
    # several workers may print the same final state twice
    uniq = {}
    for c in cases:
        uniq.setdefault(json.dumps([c["seed"], c["kind"], c["stream"], c["p"], c["q"], c["val"]], sort_keys=True), c)
    cases = list(uniq.values())
    if not seeds or not cases:
        raise core.MachineryError("Corrupt export is empty")
    if any(c["seed"] not in seeds for c in cases):
        raise core.MachineryError("a case refers to a seed that was not exported")
    if not any(c["kind"] == "none" for c in cases):
        raise core.MachineryError("the uncorrupted seeds are not part of the family")

    results = core.pmap(lambda c: run_case(bdir, seeds[c["seed"]], c), cases)
    ck.phase("emulator")

    agree = 0
    table = {}
    for c, (er, files) in zip(cases, results):
        seed = seeds[c["seed"]]
        exp = c["verdict"]
        key = "%s/%s" % (c["kind"], exp)
        table[key] = table.get(key, 0) + 1
        ck.case(json.dumps([c["seed"], c["kind"], c["stream"], c["p"], c["q"], c["val"]]),
                nontrivial=c["kind"] != "none")
        what = "seed %d, %s" % (c["seed"], describe(c))
        if compare(ck, what, exp, er, sig_of(seed, c), lambda: bundle_of(c, files, er)):
            agree += 1
    ck.phase("compare")

    # byte-level corruptions of the suite traces
    by_id = {t.id: t for t in suite}
    bres = core.pmap(lambda c: run_files(bdir, by_id[c["trace"]].files(c)), bcases) if bcases else []
    for c, er in zip(bcases, bres):
        t = by_id[c["trace"]]
        exp = c["verdict"]
        key = "suite:%s/%s" % (c["kind"], exp)
        table[key] = table.get(key, 0) + 1
        ck.case(json.dumps(["suite", t.name, c["kind"], c["stream"], c["p"], c["q"]]), nontrivial=True)
        what = "test-suite trace %s, %s" % (t.name, t.describe(c))
        if compare(ck, what, exp, er, "c12:suite:" + c["kind"], lambda: bundle_of(c, t.files(c), er)):
            agree += 1
    ck.phase("suite_traces")
    ck.cov["traces_validated_against_impl"] = agree
    ck.notes["cases_by_kind_and_expected_verdict"] = dict(sorted(table.items()))
    ck.notes["seeds"] = {str(s.id): {"streams": len(s.streams),
                                     "events": [len(st["evs"]) for st in s.streams],
                                     "file_sizes": [st["fsize"] for st in s.streams]} for s in seeds.values()}
    for c in cases[:2] + cases[-2:]:
        ck.sample(c)
    ck.assumptions += [
        "an 'ovni.part' other than \"thread\", a thread / process / loom id replaced by a fresh one, a require entry or "
        "CPU list of the wrong JSON type and a trace in which no stream requires the base model are Unspecified "
        "(only crashes are reported)",
        "the trailing-fragment rule is observed through the verdict only: the harness does not look at which "
        "diagnostic rejected the trace",
        "model versions: the seeds require exactly the version of each model; \"99.0.0\" is the incompatible one"]
    return ck.finish(rule="cases = every single corruption TLC enumerates for the seed traces defined in Corrupt.tla "
                          "(truncation at every byte offset, adjacent swaps, header bytes, metadata keys x "
                          "{removed, retyped, altered}, unparsable JSON, MCV substitutions, checked payload sizes, jumbo "
                          "flag), each run through ovniemu -l; non-trivial = all but the uncorrupted seeds; distinct "
                          "by (seed, corruption)")
