#!/usr/bin/env python3
"""Writes /verif/MANIFEST.json from the table below (single source of truth)."""
import json
import os

HERE = os.path.dirname(os.path.dirname(os.path.abspath(__file__)))

ALL = ["C%02d" % i for i in range(1, 21)]

CHECKS = {
 "C01": dict(
    level="model_checking", ref="DESIGN.md §4 C01",
    technique="TLA+ spec RtStream/RtStreamAbs checked by TLC + TLC-generated call sequences replayed through libovni and validated against the spec (trace validation)",
    text="TLC explores every call sequence of the scaled faithful model (CAP=56) and every fill level of the real 2 MiB buffer in the size-abstracted model; invariants Fidelity, OnlyMarkers, HeaderFirst, Tiling, BufferBound. The spec is bound to src/rt/ovni.c by replaying every call at every one of the last 64 fill levels plus TLC -simulate walks through the real library and validating the recorded file sizes and the decoded stream with RtStreamTrace.tla.",
    note="Payload/jumbo bytes are opaque ids in TLA+; their byte equality (MCV, clock, payload, jumbo data) is checked by the harness decoder against the driver's emit log. Logical clock abstracts CLOCK_MONOTONIC. Exhaustive only within the stated constants."),
 "C02": dict(
    level="model_checking", ref="DESIGN.md §4 C02",
    technique="TLA+ spec RtStream/RtStreamAbs checked by TLC (ClockMonotone, FlushPaired, NoNestedFlush) + negative configurations + replay of TLC-generated protocol-conformant programs through libovni, trace validation and ovniemu -l",
    text="Same models as C01 with the validity invariants (tiling, monotone clocks, paired non-nested flush markers); the arithmetic of the pinned commit is kept as a negative configuration that TLC must refute. Every generated program is run against the real library, its stream validated by RtStreamTrace.tla (observed markers paired, clocks monotone, sizes) and the directory is fed to ovniemu -l which must accept.",
    note="Programs are single-threaded protocol-conformant scripts (multi-thread isolation is C11). Exhaustive within constants; the emulator is part of the observation."),

 "C04": dict(
    level="model_checking", ref="DESIGN.md §4 C04",
    technique="TLA+ spec EmuCore/EmuFull (thread state machine) explored by TLC; one ovniemu history per model transition (accepted and rejected, with legal completion); observed thread.prv timelines and verdict validated by EmuTrace.tla",
    text="TLC enumerates the full state graph of 2 threads x {OHx,OHp,OHr,OHc,OHw,OHe} x 3 CPU targets with invariants (TidShownIffActive, CpuIffStarted, ...). Every transition of the graph becomes a synthetic trace replayed by the real ovniemu; trace validation compares the state/TID/CPU timelines after every event and the final verdict with the specification, so both directions of the 'accepted exactly when legal' claim are exercised.",
    note="Bounded: 2 threads, histories up to the graph diameter; rows identified through .row names. A dead thread executing again is Unspecified."),
 "C05": dict(
    level="model_checking", ref="DESIGN.md §4 C05",
    technique="TLA+ spec EmuCore (CPU occupancy, local/remote affinity) explored by TLC; transition-cover histories replayed on ovniemu; cpu.prv/thread.prv timelines validated by EmuTrace.tla",
    text="Bounded model with 4 threads in 3 processes and 2 looms, physical and virtual CPUs, OHx/OHp/OHr/OHe/OAs/OAr incl. malformed payloads and foreign looms; invariants NoPhysOversubscription, CpuMirrorsThreads. Sampled (quick) or full (thorough) transition cover replayed on the emulator and validated event by event (nrunning, TID, PID per CPU).",
    note="OAr to the CPU the thread is already on is Unspecified (refused by a duplicate rule the property does not mention)."),
 "C06": dict(
    level="model_checking", ref="DESIGN.md §4 C06",
    technique="TLA+ spec Emu (View = function of thread state, binding and raw channel values) explored by TLC over all interleavings of value/state/affinity events; histories replayed on ovniemu for every published channel of every model; views validated by EmuTrace.tla",
    text="Property layer View(thread/CPU, quantity, tracking mode) is checked on the real Paraver output after every event of TLC-generated histories (one channel per tracking mode ANY/RUN/ACT, stack and single), and the accepted histories are re-instantiated for each of the 19 published channels of the 8 models (table spec/data/events.json).",
    note="The implementation-layer patch bay (dirty list / mux callbacks) is not yet a separate TLA+ refinement; the code is bound directly to the property layer. CPU idle default (Resting) is allowed where the property allows it."),
 "C07": dict(
    level="model_checking", ref="DESIGN.md §4 C07",
    technique="TLA+ spec EmuFull (task/body state machine of task.c/body.c with the nOS-V and Nanos6 rules) explored by TLC with invariants; transition cover replayed on ovniemu; task id/type/body/app/rank timelines validated by EmuTrace.tla",
    text="Bounded nOS-V model (normal, parallel and second normal task, 2 threads, rank) and Nanos6 model (relaxed nesting) explored exhaustively with BodyRunsOnAtMostOneThread, OnlyTopRuns, TaskChansMirrorBodies, ParallelNeverPaused; 8000 (quick) histories incl. every rejected transition class replayed on the emulator.",
    note="Task types compared through PCF labels; a Nanos6 task started directly over TASK_BODY is Unspecified."),
 "C08": dict(
    level="model_checking", ref="DESIGN.md §4 C08",
    technique="TLA+ spec Emu (stack machine over committed event tables EventData.tla) explored by TLC per model; transition cover + every enter/leave pair of all 8 models in 10 shapes + depth probes replayed on ovniemu -l and validated by EmuTrace.tla",
    text="For each model a bounded instance (3 region kinds, bystander thread, thread state changes) is explored and replayed; additionally all 149 push/pop pairs of the tables are exercised (enter/leave/mismatch/empty/lint/state precondition/nesting) and the 512-deep stack limit is probed; the value shown for the innermost region comes from the committed table.",
    note="Tables are committed data (spec/data/events.json) transcribed from documentation and model tables; immediate re-entry is Unspecified."),
 "C17": dict(
    level="model_checking", ref="DESIGN.md §4 C17",
    technique="TLA+ spec EmuFull (mark channels: stack/single, ACTIVE/RUNNING tracking) explored by TLC; transition cover replayed on ovniemu and validated by EmuTrace.tla; runtime side through drivers/rtdrive",
    text="Bounded model with a stack and a single mark type, two threads, pause/cool/migrate; push on single, set on stack, zero values, undefined types and mismatched pops must be rejected; timelines of types 101/102 on thread and CPU rows validated after every event.",
    note="Runtime-side refusals and label merging are covered by the runtime mark programs (see evidence notes)."),
}

NA_REASON = "check not built yet in this round (planned, see DESIGN.md §4/§8); not claimed until its machinery exists"


def main():
    checks = []
    for pid in ALL:
        if pid not in CHECKS:
            continue
        c = CHECKS[pid]
        checks.append({
            "property_id": pid,
            "quick_cmd": "./check %s --tier quick" % pid,
            "thorough_cmd": "./check %s --tier thorough" % pid,
            "evidence_file": "evidence/%s.json" % pid,
            "replay_cmd_template": "./check %s --replay {path}" % pid,
            "engine": "tlc",
            "level_claimed": {"category": c["level"], "text": c["text"], "design_ref": c["ref"]},
            "level_note": c["note"],
            "technique": c["technique"],
        })
    man = {
        "version": 1,
        "setup_cmd": "./setup.sh",
        "hooks": {
            "guard": "OVNI_VERIF",
            "enable": "checks configure /repo out of tree into /verif/.cache/build/<variant>-<tree hash> with -DCMAKE_C_FLAGS=-DOVNI_VERIF (variants: hooks, asan, tsan)",
            "baseline_off_cmd": "cmake --build /repo/_build && ctest --test-dir /repo/_build -j8 --timeout 900",
            "source_commits": HOOK_COMMITS,
            "add_only": True,
        },
        "engines": [
            {"name": "tlc", "path": "/usr/local/bin/tlc",
             "serves_properties": sorted(CHECKS), "kind_free_text": "TLA+ explicit-state model checker (TLC 1.8.0) on the specs in /verif/spec, used for exhaustive bounded exploration, behaviour generation and trace validation"},
        ],
        "checks": checks,
        "not_applicable": [{"property_id": p, "reason": NA_REASON} for p in ALL if p not in CHECKS],
        "notes": "Fix commits in /repo (unguarded, 'fix:'): see known-findings.txt. ./check <id> exits 2 on machinery failure (never a VIOLATION).",
    }
    with open(os.path.join(HERE, "MANIFEST.json"), "w") as f:
        json.dump(man, f, indent=1)
        f.write("\n")


HOOK_COMMITS = []

if __name__ == "__main__":
    main()
