--------------------------- MODULE RtStreamAbs ---------------------------
(* Size-abstracted model of the runtime staging buffer at the REAL capacity.
   State = fill level only (plus the "a flush happened while the flush
   markers were being added" monitor), so that every position of the 2 MiB
   buffer-full boundary relative to the event being added is visited
   exhaustively.  Same arithmetic module as RtStream.                     *)
EXTENDS Naturals, RtArith, Json, TLC

CONSTANTS PaySizes, JumboSizes

VARIABLES evlen, nested, last   \* last: ghost, the call that produced the state
vars == <<evlen, nested, last>>

R(l, n) == [l |-> l, n |-> n]

RECURSIVE AEvAdd(_, _, _)
AEvAdd(l, size, depth) ==
   IF NeedFlush(l, size)
   THEN LET r1 == AEvAdd(size, HdrSize, depth + 1)
            r2 == AEvAdd(r1.l, HdrSize, depth + 1)
        IN  R(r2.l, depth > 0 \/ r1.n \/ r2.n)
   ELSE R(l + size, FALSE)

AEvAddJumbo(l, size) ==
   IF NeedFlush(l, size)
   THEN IF Reserve /\ ~MarkersFit(size)
        THEN LET r1 == AEvAdd(0, HdrSize, 1)
                 r2 == AEvAdd(r1.l, HdrSize, 1)
             IN  R(r2.l, r1.n \/ r2.n)
        ELSE LET r1 == AEvAdd(size, HdrSize, 1)
                 r2 == AEvAdd(r1.l, HdrSize, 1)
             IN  R(r2.l, r1.n \/ r2.n)
   ELSE R(l + size, FALSE)

Init == evlen = 0 /\ nested = FALSE /\ last = <<"init", 0>>

Emit(p) == LET r == AEvAdd(evlen, NormalSize(p), 0)
           IN evlen' = r.l /\ nested' = (nested \/ r.n) /\ last' = <<"emit", p>>
EmitJumbo(n) == /\ ~JumboTooLarge(n)
                /\ LET r == AEvAddJumbo(evlen, JumboSize(n))
                   IN evlen' = r.l /\ nested' = (nested \/ r.n) /\ last' = <<"jumbo", n>>
Flush == LET r1 == AEvAdd(0, HdrSize, 0)
             r2 == AEvAdd(r1.l, HdrSize, 0)
         IN evlen' = r2.l /\ nested' = (nested \/ r1.n \/ r2.n) /\ last' = <<"flush", 0>>

Next == \/ \E p \in PaySizes : Emit(p)
        \/ \E n \in JumboSizes : EmitJumbo(n)
        \/ Flush
Spec == Init /\ [][Next]_vars

View == <<evlen, nested>>

\* the buffer never overflows and a flush never happens while the markers of
\* another flush are being added (=> markers paired, clocks monotone: see
\* RtStream, where the two are shown equivalent on the faithful model)
BufferBound   == evlen < CAP
NoNestedFlush == ~nested

(* Transition export for the conformance step: every call issued at every
   fill level of the last Window bytes before the capacity (all alignments
   of the buffer-full boundary relative to the event being added).  All
   these fill levels are reachable: the full run of Spec visits them.     *)
CONSTANT Window
WInit == evlen \in (CAP - Window)..(CAP - 1) /\ nested = FALSE /\ last = <<"init", 0>>
WSpec == WInit /\ [][Next]_vars
OnlyFirst == last[1] = "init"
ExportW == last[1] = "init" /\ PrintT(<<"TR", ToJson([evlen |-> evlen, op |-> last'[1], arg |-> last'[2],
                                  after |-> evlen'])>>)
=============================================================================
