SPECIFICATION MCSpec
CONSTANTS
  System <- SysC04
  Alphabet <- AlphaC04
  MaxLen = 30
  Lint = TRUE
VIEW MCView
INVARIANT Inv
ACTION_CONSTRAINT Export
CHECK_DEADLOCK FALSE
