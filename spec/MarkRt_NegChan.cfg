SPECIFICATION Spec
CONSTANTS
  NT = 2
  DefCalls <- DefsD
  EvCalls <- EvD
  MaxDefs <- MaxDefsDq
  MaxEv <- MaxEvD
  Variant = "neg_chan"
VIEW View
INVARIANT ConflictsRefused
CHECK_DEADLOCK FALSE
