"""Independent encoder/decoder of ovni streams (stream.obs + stream.json).

Written from doc/user/runtime/trace_spec.md, not from libovni: synthetic
traces for the emulator-side checks never go through the runtime, and
streams produced by the runtime are decoded here for projection.
"""
import json
import os
import struct

MAGIC = b"ovni"
HDR = MAGIC + struct.pack("<I", 1)
JUMBO = 0x10


def ev(mcv, clock, payload=b"", jumbo=None, flags_hi=0):
    """Encode one event. payload: 0 or 2..16 bytes; jumbo: bytes or None."""
    m = mcv.encode("latin1") if isinstance(mcv, str) else mcv
    assert len(m) == 3
    if jumbo is not None:
        pl = struct.pack("<I", len(jumbo))
        fl = JUMBO | ((len(pl) - 1) & 0x0F)
        return struct.pack("<B3sQ", fl | flags_hi, m, clock) + pl + jumbo
    n = len(payload)
    assert n == 0 or 2 <= n <= 16, n
    fl = 0 if n == 0 else (n - 1) & 0x0F
    return struct.pack("<B3sQ", fl | flags_hi, m, clock & 0xFFFFFFFFFFFFFFFF) + payload


def i32(*v):
    return b"".join(struct.pack("<i", x) for x in v)


def u32(*v):
    return b"".join(struct.pack("<I", x & 0xFFFFFFFF) for x in v)


def i64(*v):
    return b"".join(struct.pack("<q", x) for x in v)


class DecodeError(Exception):
    pass


def decode(data, strict=True):
    """Decode a stream. Returns list of dicts:
       {off, flags, mcv, clock, payload(bytes), jumbo(bool), jdata(bytes), size}
       Raises DecodeError if the file does not tile (strict)."""
    if len(data) < 8:
        raise DecodeError("short header")
    if data[:4] != MAGIC:
        raise DecodeError("bad magic")
    if struct.unpack("<I", data[4:8])[0] != 1:
        raise DecodeError("bad version")
    out = []
    off = 8
    n = len(data)
    while off < n:
        if off + 12 > n:
            if strict:
                raise DecodeError("truncated header at %d" % off)
            break
        fl, m, clk = struct.unpack("<B3sQ", data[off:off + 12])
        e = {"off": off, "flags": fl, "mcv": m.decode("latin1"), "clock": clk,
             "jumbo": bool(fl & JUMBO), "jdata": b""}
        if fl & JUMBO:
            if off + 16 > n:
                if strict:
                    raise DecodeError("truncated jumbo size at %d" % off)
                break
            js = struct.unpack("<I", data[off + 12:off + 16])[0]
            size = 16 + js
            e["payload"] = data[off + 12:off + 16]
            e["jdata"] = data[off + 16:off + 16 + js]
        else:
            ps = fl & 0x0F
            if ps:
                ps += 1
            size = 12 + ps
            e["payload"] = data[off + 12:off + 12 + ps]
        if off + size > n:
            if strict:
                raise DecodeError("truncated event at %d (size %d, left %d)" % (off, size, n - off))
            break
        e["size"] = size
        out.append(e)
        off += size
    return out


# --------------------------------------------------------------------------
# synthetic traces

def thread_meta(tid, pid, loom, app_id=1, cpus=None, rank=None, nranks=None,
                require=None, finished=True, extra=None, version=3):
    ov = {"lib": {"version": "1.11.0", "commit": "verif"}, "part": "thread",
          "tid": tid, "pid": pid, "loom": loom}
    if app_id is not None:
        ov["app_id"] = app_id
    ov["require"] = dict(require if require is not None else {"ovni": "1.1.0"})
    if rank is not None:
        ov["rank"] = rank
    if nranks is not None:
        ov["nranks"] = nranks
    if cpus is not None:
        ov["loom_cpus"] = [{"index": i, "phyid": p} for (i, p) in cpus]
    if finished:
        ov["finished"] = 1
    meta = {"version": version, "ovni": ov}
    if extra:
        for k, v in extra.items():
            _dotset(meta, k, v)
    return meta


def _dotset(d, key, v):
    parts = key.split(".")
    for p in parts[:-1]:
        d = d.setdefault(p, {})
    d[parts[-1]] = v


def stream_dir(root, loom, pid, tid):
    return os.path.join(root, "loom.%s" % loom, "proc.%d" % pid, "thread.%d" % tid)


def write_stream(root, loom, pid, tid, meta, events_bytes, header=HDR, subdir=None):
    d = subdir if subdir else stream_dir(root, loom, pid, tid)
    os.makedirs(d, exist_ok=True)
    with open(os.path.join(d, "stream.obs"), "wb") as f:
        f.write(header + events_bytes)
    with open(os.path.join(d, "stream.json"), "w") as f:
        if isinstance(meta, (bytes, str)):
            f.write(meta if isinstance(meta, str) else meta.decode("latin1"))
        else:
            json.dump(meta, f, indent=1)
    return d


def find_streams(root):
    out = []
    for d, dn, fn in os.walk(root):
        dn.sort()
        if "stream.json" in fn:
            out.append(d)
    return sorted(out)


def read_stream(d):
    with open(os.path.join(d, "stream.obs"), "rb") as f:
        data = f.read()
    with open(os.path.join(d, "stream.json")) as f:
        meta = json.load(f)
    return meta, data
