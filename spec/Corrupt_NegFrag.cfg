SPECIFICATION CSpec
CONSTANTS
  Variant = "nofragment"
  SeedIds = {5}
  Deep = FALSE
INVARIANTS TruncAlwaysRejected
CHECK_DEADLOCK FALSE
