"""C13 (Paraver output well-formed and self-consistent) - PrvTrace.tla.

Accepted runs of ovniemu over (a) TLC-generated histories of every bounded
emulator model (all models, marks, tasks, ranks, two looms) and (b) the
metadata-distribution family of System.tla are projected (header, lines,
declared types and labelled values, row names) and every clause of the
property is evaluated by TLC on the REAL files; the expected row names and
their order come from SystemOps.tla.
"""
import json
import os
import random
import re
import shutil

from vlib import core, emu, emuhist, synth, tv
from checks import system as syscheck

MODEL_CFGS_QUICK = ["EmuMC_C07V.cfg", "EmuMC_C076.cfg", "EmuMC_C08D.cfg", "EmuMC_C08M.cfg", "EmuMC_C08T.cfg",
                    "EmuMC_C08P.cfg", "EmuMC_C08K.cfg"]
MODEL_CFGS = MODEL_CFGS_QUICK + ["EmuMC_C05.cfg", "EmuMC_C08V.cfg", "EmuMC_C086.cfg", "EmuMC_C06.cfg", "EmuMC_C17.cfg"]


def parse_rowname(n):
    m = re.match(r"TH (\d+)\.(\d+)$", n)
    if m:
        return ["TH", int(m.group(1)), int(m.group(2))]
    m = re.match(r" CPU (\d+)\.(\d+)$", n)
    if m:
        return ["CPU", int(m.group(1)), int(m.group(2))]
    m = re.match(r"vCPU (\d+)\.\*$", n)
    if m:
        return ["vCPU", int(m.group(1)), -1]
    m = re.match(r"~CPU\s+(\d+)$", n)
    if m:
        return ["~CPU", int(m.group(1)), -1]
    return [n, -1, -1]


def project(td, kind, streams, last, base=None):
    base = base or kind
    prv = emu.Prv(os.path.join(td, base + ".prv"))
    pcf = emu.Pcf(os.path.join(td, base + ".pcf"))
    row = emu.Row(os.path.join(td, base + ".row"))
    if prv.bad:
        raise ValueError("unparsable PRV lines: %r" % prv.bad[:3])
    return {"e": "prv", "kind": kind, "dur": prv.duration if prv.duration is not None else -1,
            "nrows": prv.nrows if prv.nrows is not None else -1, "last": last,
            "lines": [[t, r, ty, v if abs(v) < 2**31 else 1 + (v % 1000000007)] for (t, r, ty, v) in prv.lines],
            "types": [{"ty": ty, "vals": [v if abs(v) < 2**31 else 1 + (v % 1000000007) for v in sorted(vals)]}
                      for ty, (title, vals) in sorted(pcf.types.items())],
            "rows": [parse_rowname(n) for n in row.thread_rows["names"]],
            "streams": streams}


def streams_of_system(system):
    out = []
    declared = set()
    for t in system["threads"]:
        cpus = []
        if t["loom"] not in declared:
            declared.add(t["loom"])
            cpus = [[c["idx"], c["phy"]] for c in system["cpus"] if c["loom"] == t["loom"] and not c["virt"]]
        out.append({"loom": t["loom"], "pid": t["pid"], "tid": t["tid"], "app": t["app"],
                    "rank": t.get("rank", -1), "nranks": (system.get("nranks", 4) if t.get("rank", -1) >= 0 else 0),
                    "cpus": cpus})
    return out


def run_model_history(bdir, system, events, breakdown=False, fsize_blocks=None):
    d = core.mkscratch("prv")
    try:
        td = os.path.join(d, "ovni")
        conc = [emuhist.concretise(e) for e in events]
        extra = emuhist.meta_extra_for(system)
        if breakdown:
            for k in range(1, len(system["threads"]) + 1):
                extra.setdefault(k, {})["nosv.can_breakdown"] = True
        clocks = synth.materialise(td, system, conc, models=emuhist.require_for(set(system["models"])),
                                   meta_extra=extra)
        r = emu.ovniemu(bdir, td, ("-b", "-l") if breakdown else ("-l",), fsize_blocks=fsize_blocks)
        if not r.accepted:
            return None, r
        last = max(clocks) - min(clocks)
        st = streams_of_system(system)
        out = [project(td, "thread", st, last), project(td, "cpu", st, last)]
        if breakdown:
            for name in ("nosv-breakdown", "nanos6-breakdown"):
                if os.path.exists(os.path.join(td, name + ".prv")):
                    out.append(project(td, "breakdown", st, last, base=name))
        return out, r
    except ValueError as ex:
        return [{"e": "prv", "kind": "unparsable", "error": str(ex)}], None
    finally:
        shutil.rmtree(d, ignore_errors=True)


def run_sys_case(bdir, case):
    d = core.mkscratch("prv")
    try:
        td = os.path.join(d, "ovni")
        syscheck.materialise(td, case["streams"])
        r = emu.ovniemu(bdir, td, ("-l",))
        if not r.accepted:
            return None, r
        n = len(case["streams"])
        last = (1000 + (n - 1) * 100 + 50) - 1000
        return [project(td, "thread", case["streams"], last), project(td, "cpu", case["streams"], last)], r
    finally:
        shutil.rmtree(d, ignore_errors=True)


def special_families():
    """harness-enumerated inputs for configurations the bounded models do not have: task types shared and
    private to several processes, and breakdown traces (-b) over two looms"""
    def E(th, m, a=None, j=False):
        return {"th": th, "m": m, "mc": m[0], "a": a or [], "j": j}
    jobs = []
    for mc, ex in (("V", lambda t, k: E(t, "VTx", [k, 0])), ("6", lambda t, k: E(t, "6Tx", [k]))):
        Y, Tc = mc + "Yc", mc + "Tc"
        end = (lambda t, k: E(t, "VTe", [k, 0])) if mc == "V" else (lambda t, k: E(t, "6Te", [k]))
        for nl in (1, 2):
            system = {"threads": [{"tid": 101, "pid": 1001, "app": 1, "loom": 1, "rank": -1},
                                  {"tid": 201, "pid": 2001, "app": 2, "loom": nl, "rank": -1}],
                      "cpus": [{"loom": 1, "idx": 0, "phy": 10, "virt": False}, {"loom": 1, "idx": 1, "phy": 11, "virt": False},
                               {"loom": 1, "idx": -1, "phy": -1, "virt": True}] +
                              ([{"loom": 2, "idx": 0, "phy": 20, "virt": False}, {"loom": 2, "idx": 1, "phy": 21, "virt": False},
                                {"loom": 2, "idx": -1, "phy": -1, "virt": True}] if nl == 2 else []),
                      "marks": [], "models": ["O", mc]}
            for order in ((5, 6, 5, 7), (5, 6, 7, 5), (6, 5, 5, 7)):
                # process 1 declares labels a,b ; process 2 declares c,d (one shared, one private)
                a, b, c, d = order
                evs = [E(1, "OHx", [0, 101, 7]), E(2, "OHx", [1 if nl == 1 else 0, 201, 7])]
                for t, (l1, l2) in ((1, (a, b)), (2, (c, d))):
                    evs += [E(t, Y, [1, l1], True), E(t, Y, [2, l2], True), E(t, Tc, [1, 1]), E(t, Tc, [2, 2])]
                for t in (1, 2):
                    for k in (1, 2):
                        evs += [ex(t, k), end(t, k)]
                evs += [E(1, "OHe"), E(2, "OHe")]
                jobs.append(("model:multiproc-task-types", system, evs))
                jobs.append(("breakdown:multiproc-%dlooms" % nl, system, evs))
        # task types whose label hashes to a boundary of the gid arithmetic (emuhist.BOUNDARY_LABELS)
        system = {"threads": [{"tid": 101, "pid": 1001, "app": 1, "loom": 1, "rank": -1}],
                  "cpus": [{"loom": 1, "idx": 0, "phy": 10, "virt": False}, {"loom": 1, "idx": -1, "phy": -1, "virt": True}],
                  "marks": [], "models": ["O", mc]}
        nb = len(emuhist.BOUNDARY_LABELS)
        evs = [E(1, "OHx", [0, 101, 7])]
        for k in range(nb):
            evs += [E(1, Y, [k + 1, 900 + k], True), E(1, Tc, [k + 1, k + 1])]
        for k in range(nb):
            evs += [ex(1, k + 1), end(1, k + 1)]
        evs += [E(1, "OHe")]
        jobs.append(("model:boundary-task-type-labels", system, evs))
        jobs.append(("breakdown:boundary-task-type-labels", system, evs))
        # histories the specification REJECTS, continued with uses of what the rejected event would have created
        # (a task of an undeclared type that runs, a task that was never created): if the emulator accepts one,
        # what it writes is judged like any other accepted trace
        for bad in ([E(1, Tc, [1, 9])], []):
            evs = [E(1, "OHx", [0, 101, 7]), E(1, Y, [1, 5], True)] + bad + [ex(1, 1), end(1, 1), E(1, "OHe")]
            jobs.append(("model-rejected:uses-of-a-refused-creation", system, evs))
    return jobs


def main(pid, tier):
    ck = core.Check(pid, "model_checking", tier)
    bdir = core.build("hooks")
    rng = random.Random(core.seed())
    emuhist.calibrate_types(bdir)
    per = 120 if tier == "quick" else 1500
    jobs = []
    for cfg in (MODEL_CFGS_QUICK if tier == 'quick' else MODEL_CFGS):
        r, g = emuhist.explore(cfg)
        ck.add_tlc(r, "EmuMC/" + cfg)
        allhs = g.histories()
        hs = [x for x in allhs if x[0] == "accept"]
        # "every accepted trace" is what the EMULATOR accepts: histories the specification rejects (with their
        # legal completion) are run as well; should the emulator accept one, its output is judged like any other
        rej = [x for x in allhs if x[0] == "reject+completion"]
        rng.shuffle(rej)
        seen_ev = set()
        nrej = 0
        for kind, events, t in rej:
            key = json.dumps(t["ev"], sort_keys=True)
            if key in seen_ev or nrej >= per // 2:
                continue
            seen_ev.add(key)
            nrej += 1
            jobs.append(("model-rejected:" + cfg, emuhist.sys_with_rank(g.system), events))
        rng.shuffle(hs)
        # prefer long histories (more PRV content)
        hs.sort(key=lambda x: -len(x[1]))
        system = emuhist.sys_with_rank(g.system)
        for n_, (kind, events, t) in enumerate(hs[:per]):
            jobs.append(("model:" + cfg, system, events))
            if n_ % 4 == 1:
                # the same history followed by events that are accepted in any thread state and change no
                # timeline (thread-creation records): the trace lasts until the last of them
                trail = [{"th": events[-1]["th"], "m": "OHC", "mc": "O", "a": [0, 5 + k_, 0], "j": False}
                         for k_ in range(1 + n_ % 3)]
                jobs.append(("model:" + cfg + ":trailing-silent-events", system, events + trail))
    ck.phase("tlc_models")
    rs = core.tlc("System", "System_Tiny.cfg" if tier == "quick" else "System.cfg", timeout=3000, heap="12g")
    core.tlc_expect_ok(rs, "System")
    ck.add_tlc(rs, "System/System.cfg (metadata distributions)")
    if rs.violated:
        ck.violation('System model violates %s' % rs.violated, {'tlc.out': rs.out[-20000:]})
    syscases = [o for tg, o in rs.lines if tg == "TR" and o["exp"]["verdict"] == "ok"]
    rng.shuffle(syscases)
    for c in syscases[:(150 if tier == "quick" else 5000)]:
        jobs.append(("system", None, c))
    ck.phase("tlc_system")
    # implementation layer of the writer: stack channels, prv.c (duplicate / zero / NEXT rules, one line
    # per emitted change, non-decreasing times, header = last advance) and track.c, replayed in process
    from checks import chanprv
    chanprv.run(ck, tier, bdir)
    ck.phase("chanprv_layer")

    jobs += special_families()

    # output faults: the longest histories once more with the output files limited to 512 / 1536 bytes
    # (writes beyond that fail): either the emulator reports the failure, or what it wrote is well-formed
    longest = sorted([j for j in jobs if j[0].startswith("model:")], key=lambda j: -len(j[2]))[:12]
    ck.notes["histories_rejected_by_the_spec_run_anyway"] = sum(1 for j in jobs if j[0].startswith("model-rejected:"))
    jobs += [("fault:" + j[0] + ":%d" % nb, j[1], j[2]) for j in longest for nb in (1, 3)]

    def one(j):
        if j[0] == "system":
            return run_sys_case(bdir, j[2])
        if j[0].startswith("fault:"):
            return run_model_history(bdir, j[1], j[2], fsize_blocks=int(j[0].rsplit(":", 1)[1]))
        return run_model_history(bdir, j[1], j[2], breakdown=j[0].startswith("breakdown"))

    results = core.pmap(one, jobs)
    execs = []
    owners = []
    for j, (recs, r) in zip(jobs, results):
        ck.case(json.dumps(j[2], sort_keys=True)[:3000], nontrivial=recs is not None)
        if recs is None:
            continue       # not accepted (a matter for other properties): C13 speaks of accepted traces
        for rec in recs:
            if rec.get("kind") == "unparsable":
                ck.violation("unparsable Paraver output: %s\n%s" % (rec["error"], json.dumps(j[2])[:1500]),
                             {"case.json": j[2]})
                continue
            execs.append([rec])
            owners.append(j)
    tvr = tv.validate("PrvTrace", "PrvTrace.cfg", execs, None, chunk=max(20, len(execs) // 10 + 1), parallel=10)
    ck.cov["traces_validated_against_impl"] = len(tvr.accepted)
    ck.cov["states"] += tvr.states
    ck.cov["transitions"] += tvr.generated
    ck.notes["files_checked"] = len(execs)
    ck.notes["lines_checked"] = sum(len(e[0]["lines"]) for e in execs)
    for (i, line, rec, tail, violated) in tvr.rejected:
        j = owners[i]
        ms = [x for x in re.findall(r'<<"FAILING", \d+, (\{.*?\})>>', tail) if x != "{}"]
        clause = ms[-1] if ms else "?"
        what = ("%s.prv/.pcf/.row of an accepted trace is not well-formed: failing clause(s) %s\nsource: %s\n"
                "header dur=%s nrows=%s last=%s rows=%s\ninput: %s"
                % (rec["kind"], clause, j[0], rec["dur"], rec["nrows"], rec["last"], rec["rows"],
                   json.dumps(j[2])[:1200]))
        ck.violation(what, {"record.json": rec, "input.json": j[2], "tlc_tail.txt": tail},
                     sig="prv:%s:%s" % (rec["kind"], clause))
    if execs:
        s0 = dict(execs[0][0])
        s0["lines"] = s0["lines"][:12]
        ck.sample(s0)
    ck.phase("validate")
    ck.assumptions += ["values beyond 32 bits (task-type gids) are folded before being handed to TLC; labels are compared on the folded values",
                       "C13 speaks of accepted traces: inputs the emulator rejects are skipped here"]
    return ck.finish(rule="cases = emulator runs over TLC-generated histories of 12 bounded models + the metadata "
                          "family; non-trivial = the run was accepted and its thread and cpu Paraver files were "
                          "validated clause by clause; distinct by input")
