"""C16 - ovnisort yields a stable sorted permutation and touches only what it must.

Spec: spec/OvniSort.tla (property layer + the algorithm of src/emu/ovnisort.c),
spec/OvniSortMC.tla (bounded instances), spec/OvniSortCases.tla (pinned streams),
spec/OvniSortTrace.tla (recorded runs).

1. TLC checks `Impl => Property` on ALL streams within the bounds of several
   instances (thorough: one process per ring size), and refutes the
   deliberately wrong variants (negative configurations).
2. Generated direction: every (stream, ring) exported by TLC is materialised
   byte for byte with vlib.obs, `ovnisort -n <ring>` is run on it and the
   decoded result is compared with what TLC exported: the expected class
   ("sorted" / "mayfail" / "unspec"), the id order of the stable sort, the
   first event that may move.  Then `ovnisort -c`, a second `ovnisort`, and
   `ovniemu -l` (for streams that start/end like a thread stream).
3. Recorded direction: random larger streams are sorted by the real tool and
   the recorded (input, output, ring, statuses) are judged by TLC evaluating
   the property-layer operators (OvniSortTrace.tla).

No expected value is computed here: the harness encodes inputs, runs the
binaries and projects the two files to ids/offsets.
"""
import bisect
import json
import os
import pickle
import random
import re
import shutil
import struct
import sys
import tempfile
from collections import deque
from concurrent.futures import ThreadPoolExecutor

from vlib import core, obs, emu, tv

TID = 1000
LOOM = "node0"
BASE = 1000000          # clock of model time 0


# --------------------------------------------------------------------------
# inputs: model stream -> bytes

def _fill(n, i):
    return bytes(((i * 131 + j * 29 + 7) & 0xFF) for j in range(n))


BIGTICK = 2200000000    # one model tick > 2^31 ns: clock differences do not fit in an int


def scale_of(ks, cs, ring):
    """deterministic: every third case is written with clocks seconds apart"""
    return BIGTICK if (len(ks) * 7 + sum(cs) + ring) % 3 == 0 else 1


def base_of(ks, cs, ring):
    """clock of model time 0: a fifth of the cases starts at clock ZERO (a legal clock value)"""
    return 0 if (len(ks) * 3 + sum(cs) * 5 + ring) % 5 == 0 else BASE


def encode(ks, cs, wrap, scale=1, base=BASE):
    """One byte string per event.  Every event that carries a payload has
    its (1-based) input position in it, so all such events differ bytewise.
    The region markers are the real ones: OU[ / OU] without payload.
    wrap: first/last normal event are written as OHx / OHe (for ovniemu)."""
    n = len(ks)
    out = []
    for i, (k, c) in enumerate(zip(ks, cs), 1):
        clk = base + c * scale
        if k == "b":
            b = obs.ev("OU[", clk)
        elif k == "e":
            b = obs.ev("OU]", clk)
        elif k == "j":
            b = obs.ev("OB.", clk, jumbo=struct.pack("<I", i) + _fill(17 + (i * 37) % 211, i))
        elif k != "n":
            raise core.MachineryError("unknown event kind %r" % (k,))
        elif wrap and i == 1:
            b = obs.ev("OHx", clk, struct.pack("<iiQ", 0, TID, i))
        elif wrap and i == n:
            b = obs.ev("OHe", clk)
        elif ((i // 2) + sum(cs) + n) % 2 == 0:
            # about half of the normal events carry no payload at all (12 bytes, the size of the markers);
            # two of them with the same clock are bytewise identical, hence interchangeable
            b = obs.ev("OB.", clk)
        else:
            b = obs.ev("OB.", clk, struct.pack("<I", i) + _fill((i * 7) % 13, i))
        out.append(b)
    return out


def _status(r):
    if r.rc == 0:
        return "ok"
    if r.rc == 1:
        return "fail"
    if r.signal == 6:
        return "die"
    return "other"


_ROOT = None       # per-run scratch root for the thousands of tiny trace directories


def scratch_root():
    """tmpfs when there is one (the tools run ~3x faster there and the shared
    .cache/scratch may be cleaned by a concurrent run), else the usual scratch"""
    global _ROOT
    if _ROOT is None:
        if os.path.isdir("/dev/shm") and os.access("/dev/shm", os.W_OK):
            try:
                _ROOT = tempfile.mkdtemp(prefix="verif-c16-", dir="/dev/shm")
            except OSError:
                _ROOT = None
        if _ROOT is None:
            _ROOT = core.mkscratch("c16")
    return _ROOT


def drop_scratch_root():
    global _ROOT
    if _ROOT is not None:
        shutil.rmtree(_ROOT, ignore_errors=True)
        _ROOT = None


def observe(bdir, ks, cs, ring, wrap, want_bytes=False, timeout=120, prelude=False):
    """Materialise, run the tools, project.  Returns the record judged by TLC
    (keys without '_') plus diagnostics (keys with '_').
    prelude: the trace has a second, already sorted stream that the tool processes FIRST (smaller
    relative path); streams are sorted independently, so the judged stream must behave as when alone
    and the other stream must stay byte-identical."""
    d = tempfile.mkdtemp(prefix="c-", dir=scratch_root())
    try:
        td = os.path.join(d, "ovni")
        scale = scale_of(ks, cs, ring)
        evs = encode(ks, cs, wrap, scale, base_of(ks, cs, ring))
        meta = obs.thread_meta(TID, TID, LOOM, cpus=[(0, 0)])
        pre_path = pre_bytes = None
        if prelude:
            # "thread.1" sorts before "thread.<TID>" (processed first); prelude == "after": "thread.2" sorts
            # after it, the already sorted stream is processed LAST (a failure on the stream under test must
            # still be the outcome of the run)
            ptid = 2 if prelude == "after" else 1
            # (prelude == "empty": a stream without a single event, as a thread that only calls
            # ovni_thread_init and ovni_thread_free leaves behind)
            pevs = b"" if prelude == "empty" else \
                b"".join(obs.ev("OB.", BASE + 50 + 3 * i, struct.pack("<I", 900 + i)) for i in range(14))
            pdir = obs.write_stream(td, LOOM, TID, ptid, obs.thread_meta(ptid, TID, LOOM), pevs)
            pre_path = os.path.join(pdir, "stream.obs")
            pre_bytes = open(pre_path, "rb").read()
        sdir = obs.write_stream(td, LOOM, TID, TID, meta, b"".join(evs))
        path = os.path.join(sdir, "stream.obs")
        with open(path, "rb") as f:
            din = f.read()
        off = [len(obs.HDR)]
        for b in evs:
            off.append(off[-1] + len(b))
        if off[-1] != len(din):
            raise core.MachineryError("encoder/offset mismatch")
        r1 = emu.runtool(bdir, "ovnisort", ["-n", str(ring), td], timeout=timeout)
        with open(path, "rb") as f:
            dout = f.read()
        st = _status(r1)
        # identity of output events = input event with the same bytes (events with
        # identical bytes, i.e. markers with equal clocks, are interchangeable:
        # k-th occurrence in the output <-> k-th occurrence in the input)
        pool = {}
        for i, b in enumerate(evs, 1):
            pool.setdefault(b, deque()).append(i)
        oid = []
        tiles = True
        try:
            dec = obs.decode(dout)
        except obs.DecodeError:
            dec = []
            tiles = False
        for e in dec:
            q = pool.get(dout[e["off"]:e["off"] + e["size"]])
            oid.append(q.popleft() if q else 0)
        fdiff = -1 if din == dout else len(os.path.commonprefix([din, dout]))
        rc_ = emu.runtool(bdir, "ovnisort", ["-c", td], timeout=timeout)
        chk = {"ok": "ok", "fail": "fail"}.get(_status(rc_), "other")
        st2, same2, r2text = "na", True, ""
        if st == "ok":
            r2 = emu.runtool(bdir, "ovnisort", ["-n", str(ring), td], timeout=timeout)
            st2 = _status(r2)
            r2text = r2.text
            with open(path, "rb") as f:
                same2 = f.read() == dout
        ev = "na"
        evtext = ""
        if wrap and st == "ok":
            er = emu.ovniemu(bdir, td, ("-l",), timeout=timeout)
            ev = "ok" if er.accepted else "fail"
            evtext = er.text
        rec = {"n": ring, "k": list(ks), "c": list(cs), "off": off, "oid": oid, "_scale": scale,
               "st": st, "msg": bool(re.search(r"ERROR|FATAL", r1.text)),
               "fszo": len(dout), "fdiff": fdiff, "chk": chk, "st2": st2, "same2": same2,
               "emu": ev,
               "_wrap": wrap, "_rc": r1.rc, "_tiles": tiles,
               "_stderr": r1.text[-1500:], "_chk_stderr": rc_.text[-600:],
               "_stderr2": r2text[-600:], "_emu_stderr": evtext[-1200:]}
        if want_bytes:
            rec["_in"] = din
            rec["_out"] = dout
        if prelude:
            rec["_prelude_changed"] = open(pre_path, "rb").read() != pre_bytes
        return rec
    finally:
        shutil.rmtree(d, ignore_errors=True)


def public(rec):
    return {k: v for k, v in rec.items() if not k.startswith("_")}


def show(ks, cs):
    name = {"n": "", "j": "J", "b": "OU[", "e": "OU]"}
    return " ".join("%s@%d" % (name[k] or "ev", c) if k in "be" else "%s%d@%d" % (name[k] or "e", i, c)
                    for i, (k, c) in enumerate(zip(ks, cs), 1))


def bundle(bdir, ks, cs, ring, wrap, extra=None):
    o = observe(bdir, ks, cs, ring, wrap, want_bytes=True)
    b = {"case.json": {"ring": ring, "kinds": ks, "clocks": cs, "clock_base": base_of(ks, cs, ring), "clock_scale": scale_of(ks, cs, ring), "wrap_OHx_OHe": wrap,
                       "run": "ovnisort -n %d <dir>; ovnisort -c <dir>; ovnisort -n %d <dir>; ovniemu -l <dir>"
                              % (ring, ring)},
         "observed.json": {k: v for k, v in o.items() if k not in ("_in", "_out")},
         "loom.%s/proc.%d/thread.%d/stream.obs" % (LOOM, TID, TID): o["_in"],
         "loom.%s/proc.%d/thread.%d/stream.json" % (LOOM, TID, TID):
             json.dumps(obs.thread_meta(TID, TID, LOOM, cpus=[(0, 0)]), indent=1),
         "stream.after-ovnisort.obs": o["_out"]}
    if extra:
        b.update(extra)
    return b


# --------------------------------------------------------------------------
# generated direction: compare with what TLC exported

def judge(t, o):
    """t: TLC export line; o: observation.  Returns [(sig, text)] of disagreements
    with the property as instantiated by TLC for this stream."""
    p = []
    n = len(t["k"])
    st = o["st"]
    if not o["_tiles"] or sorted(o["oid"]) != list(range(1, n + 1)):
        p.append(("events-lost-or-altered",
                  "the output is not a permutation of the input events (observed ids %s)" % o["oid"]))
    if o["fszo"] != o["off"][-1]:
        p.append(("file-size-changed", "file size %d -> %d" % (o["off"][-1], o["fszo"])))
    lim = o["off"][t["fm"] - 1]
    if o["fdiff"] != -1 and o["fdiff"] < lim:
        p.append(("prefix-touched", "byte %d changed although the first event that has to move (#%d) starts at "
                                    "byte %d" % (o["fdiff"], t["fm"], lim)))
    if st == "other":
        p.append(("bad-exit", "ovnisort ended with status %s" % o["_rc"]))
    if st in ("fail", "die") and not o["msg"]:
        p.append(("silent-failure", "ovnisort failed without an ERROR/FATAL message"))
    exp = t["exp"]
    if st == "ok" and o["oid"] == t["iorder"] and not t["isorted"]:
        p.append(("ok-but-unsorted", "exit 0 but the stream is not sorted (TLC: Sorted(out) is false): "
                                     "when it cannot sort it must fail and say so"))
    elif st == "ok" and sorted(o["oid"]) == list(range(1, n + 1)) and \
            any(t["c"][o["oid"][i] - 1] > t["c"][o["oid"][i + 1] - 1] for i in range(n - 1)):
        # (the conjunct  st = "ok" => Sorted(out)  of Verdict in OvniSort.tla, on the observed order)
        p.append(("ok-but-unsorted", "exit 0 but the clocks of the stream it left (%s) are not non-decreasing: "
                                     "when it cannot sort it must fail and say so"
                  % [t["c"][i - 1] for i in o["oid"]]))
    if exp == "sorted" and st != "ok":
        p.append(("must-sort", "only regions are unsorted and the look back (-n %d) suffices, but ovnisort "
                               "did not succeed (%s): %s" % (t["n"], st, o["_stderr"][-300:])))
    if exp == "mayfail" and st == "die":
        p.append(("abort", "look back too short: ovnisort must fail with exit 1, it aborted"))
    if exp in ("sorted", "mayfail") and st == "ok":
        if o["oid"] != t["order"]:
            p.append(("wrong-order", "exit 0 but the stream is not the stable sort: ids %s, expected %s"
                      % (o["oid"], t["order"])))
        # the second run must not change the file; it must succeed when TLC says the
        # look back still suffices for the sorted stream (t["again"]), else it may fail loudly
        if not o["same2"] or o["st2"] not in ("ok", "fail") or (t["again"] and o["st2"] != "ok"):
            p.append(("not-idempotent", "second ovnisort: status %s, file %s"
                      % (o["st2"], "unchanged" if o["same2"] else "CHANGED")))
        if t["emu"] and o["emu"] != "ok":
            p.append(("emulator-rejects", "ovniemu -l rejects the sorted stream: %s" % o["_emu_stderr"][-400:]))
    # ovnisort -c against TLC's Sorted() of the order that was observed
    if o["chk"] == "other":
        p.append(("check-mode", "ovnisort -c ended abnormally: %s" % o["_chk_stderr"][-300:]))
    elif o["oid"] == t["order"] and o["chk"] != "ok":
        p.append(("check-mode", "ovnisort -c fails on the stably sorted stream: %s" % o["_chk_stderr"][-300:]))
    elif o["oid"] == t["iorder"] and (o["chk"] == "ok") != t["isorted"]:
        p.append(("check-mode", "ovnisort -c says %s, Sorted(out) is %s" % (o["chk"], t["isorted"])))
    return p


# --------------------------------------------------------------------------
# recorded direction: random streams

def gen_stream(rng, nev, ring, flavour):
    """Random stream: sorted backbone with ties and regions of late, internally
    unordered events.  The insertion depth of a region is steered relative to
    the ring: flavour 'ok' keeps every region within the look back, 'edge' puts
    one region exactly at / just beyond the limit, 'deep' beyond it, 'garbage'
    adds disorder outside regions.  (This only steers the inputs; whether a
    stream satisfies the preconditions is decided by TLC.)  First and last
    event are the lowest / highest: they are written as OHx / OHe."""
    ks, cs, base = ["n"], [0], [0]
    t = 0
    special = rng.randint(0, max(0, nev // 10))     # which region gets the edge/deep depth

    def push(k, c):
        ks.append(k)
        cs.append(c)
        bisect.insort(base, c)

    nreg = 0
    while len(ks) < nev - 1:
        room = nev - 1 - len(ks)
        if rng.random() < 0.12 and room >= 2:
            t += rng.choice((0, 0, 1, 2))
            m = min(rng.choice((0, 1, 1, 2, 2, 3, 5, 9)), room - 2, max(0, ring - 3))
            push("b", t)
            tc = t + rng.choice((0, 0, 1, 3))
            limit = ring - 2                                   # deepest depth that can work
            if flavour in ("edge", "deep") and nreg == special:
                want = limit + (rng.choice((0, 0, 1, 2)) if flavour == "edge" else rng.randint(1, ring))
            else:
                want = rng.randint(m + 1, max(m + 1, limit))
            back = max(1, want - m)                            # events in front (OU[ included) to pass
            lo = min(base[max(0, len(base) - back)], t)
            if want <= limit:
                while len(base) - bisect.bisect_left(base, lo) + m > limit and lo < t:
                    lo += 1                                    # ties made it deeper than wanted
            cl = [lo] + [rng.randint(lo, tc) for _ in range(m - 1)] if m else []
            rng.shuffle(cl)
            for c in cl:
                push("j" if rng.random() < 0.08 else "n", c)
            if flavour in ("garbage", "garbage+") and rng.random() < 0.3:
                push("n", tc + 4)          # later than the closing marker
            push("e", tc)
            t = tc
            nreg += 1
        else:
            t += rng.choice((0, 0, 1, 1, 2, 6))
            if flavour in ("garbage", "garbage+") and rng.random() < (0.02 if flavour == "garbage" else 0.12) and t > 3:
                push("n", t - 3)           # disorder outside any region
            else:
                push("j" if rng.random() < 0.03 else "n", t)
    if rng.random() < 0.1 and len(ks) < nev:
        push("b", t)                       # region left open at the end of the stream
    push("n", t + 1)
    return ks, cs


def random_cases(rng, tier):
    small = 160 if tier == "quick" else 1600
    big = 4 if tier == "quick" else 24
    bigmax = 2000 if tier == "quick" else 6000
    cases = []
    fl = ["ok"] * 5 + ["edge"] * 3 + ["deep"] + ["garbage"]
    for i in range(small):
        nev = rng.choice((rng.randint(4, 40), rng.randint(40, 300)))
        ring = rng.choice((rng.randint(3, 12), rng.randint(4, 64), rng.randint(10, 1000)))
        cases.append(gen_stream(rng, nev, ring, rng.choice(fl)) + (ring,))
    # streams with disorder OUTSIDE the regions (they cannot be sorted) mixed with legal regions before and after it
    for i in range(60 if tier == "quick" else 600):
        nev = rng.randint(8, 60)
        ring = rng.randint(6, 64)
        cases.append(gen_stream(rng, nev, ring, "garbage+") + (ring,))
    for i in range(big):
        nev = rng.randint(1000, bigmax)
        ring = rng.randint(10, 1000)
        cases.append(gen_stream(rng, nev, ring, rng.choice(fl[:9])) + (ring,))
    # a stream dominated by ONE long region of late events that belong near the start: the look back needed is
    # most of the stream (thousands of events), well within the default window of a million entries
    for i in range(2 if tier == "quick" else 8):
        nb = rng.randint(200, 400)
        nr = rng.randint(2300, 3200)
        ks, cs = ["n"], [0]
        for k_ in range(1, nb):
            ks.append("n")
            cs.append(cs[-1] + rng.choice((1, 1, 2, 3)))
        t = cs[-1]
        lo = cs[rng.randint(5, 40)]
        ks.append("b")
        cs.append(t)
        late = [lo] + [rng.randint(lo, t) for _ in range(nr - 1)]
        rng.shuffle(late)
        ks += ["n"] * nr
        cs += late
        ks += ["e", "n"]
        cs += [t, t + 1]
        cases.append((ks, cs, 1000000 if i % 2 == 0 else len(ks) + 50))
    return cases


# --------------------------------------------------------------------------
# TLC jobs (run in a forked helper process while the replays use the other cores)

def tlc_jobs(tier):
    jobs = []
    if tier == "quick":
        # few, larger TLC processes (JVM start-up and warm-up dominate small runs)
        jobs.append({"name": "OvniSortMC/OvniSort_B_Quick.cfg rings 3,5,8 (<=5 events, clocks 0..3, 1 region, "
                             "jumbo anywhere)", "cfg": "OvniSort_B_Quick.cfg", "env": {}, "neg": False, "workers": 4})
        jobs.append({"name": "OvniSortMC/OvniSort_Free.cfg rings 2,3,4,5,8 (<=4 events, clocks 0..2, stray OU] / "
                             "nested OU[)", "cfg": "OvniSort_Free.cfg", "env": {}, "neg": False, "workers": 2})
    else:
        cfgs = [("OvniSort_Thorough.cfg", "<=7 events, clocks 0..2, <=2 regions, jumbo inside"),
                ("OvniSort_Thorough63.cfg", "<=6 events, clocks 0..3, <=2 regions, jumbo inside"),
                ("OvniSort_B.cfg", "<=5 events, clocks 0..3, 1 region, jumbo anywhere"),
                ("OvniSort_Free_Thorough.cfg", "<=5 events, clocks 0..2, stray OU] / nested OU[")]
        for cfg, label in cfgs:
            for ring in (2, 3, 4, 5, 6, 7, 8):
                jobs.append({"name": "OvniSortMC/%s ring=%d (%s)" % (cfg, ring, label), "cfg": cfg,
                             "env": {"C16_RING": ring}, "neg": False, "workers": 4})
    if tier != "quick":
        jobs.append({"name": "OvniSortMC/OvniSort_Witness_SecondRun.cfg ring=5 (witness: a second run with the same -n "
                             "can exit 1 on the sorted stream; not a requirement)", "cfg": "OvniSort_Witness_SecondRun.cfg",
                     "env": {"C16_RING": 5}, "neg": False, "witness": True, "workers": 3})
    for cfg, what in (("OvniSort_Neg_Unstable.cfg", "unstable sort"),
                      ("OvniSort_Neg_NoFullCheck.cfg", "full ring taken for the start of the stream"),
                      ("OvniSort_Neg_NoRebuild.cfg", "ring not rebuilt after a sort"),
                      ("OvniSort_Neg_LessEq.cfg", "<= instead of < in find_destination"),
                      ("OvniSort_Neg_NoFinalCheck.cfg", "exit 0 although the stream is still unsorted (pinned code)")):
        jobs.append({"name": "OvniSortMC/%s (%s; must fail)" % (cfg, what), "cfg": cfg, "env": {},
                     "neg": True, "workers": 2})
    return jobs


def start_tlc_helper(jobs, tier):
    """Fork a helper that runs the TLC jobs (a few at a time) and pickles the
    results; returns (pid, path)."""
    d = tempfile.mkdtemp(prefix="tlc-", dir=scratch_root())
    path = os.path.join(d, "results.pkl")
    sys.stdout.flush()
    sys.stderr.flush()
    pid = os.fork()
    if pid:
        return pid, path
    code = 1
    try:
        os.setpgid(0, 0)
        def one(j):
            r = core.tlc("OvniSortMC", j["cfg"], workers=j["workers"], env=j["env"], tags=(),
                         heap="3g", timeout=1500 if tier == "quick" else 7200)
            r.out = r.out[-6000:]
            return r
        # negative configurations first (short), then the big ones
        order = sorted(range(len(jobs)), key=lambda i: (not jobs[i]["neg"], i))
        with ThreadPoolExecutor(max_workers=3 if tier == "quick" else 4) as ex:
            rs = list(ex.map(lambda i: (i, one(jobs[i])), order))
        with open(path + ".tmp", "wb") as f:
            pickle.dump(dict(rs), f)
        os.replace(path + ".tmp", path)
        code = 0
    except BaseException as ex_:   # noqa
        try:
            with open(path + ".err", "w") as f:
                f.write(repr(ex_))
        except OSError:
            pass
    finally:
        os._exit(code)


def collect_tlc_helper(pid, path):
    _, status = os.waitpid(pid, 0)
    if status != 0 or not os.path.exists(path):
        why = open(path + ".err").read() if os.path.exists(path + ".err") else "status %s" % status
        raise core.MachineryError("TLC helper failed: %s" % why)
    with open(path, "rb") as f:
        res = pickle.load(f)
    shutil.rmtree(os.path.dirname(path), ignore_errors=True)
    return res


# --------------------------------------------------------------------------

def kill_helper(hpid):
    for kill in (os.killpg, os.kill):
        try:
            kill(hpid, 9)
        except OSError:
            pass
    try:
        os.waitpid(hpid, 0)
    except OSError:
        pass


def export_streams(ck, tier):
    """The exhaustive instance that also prints the streams to replay (all ring sizes
    in one TLC process), plus the pinned streams."""
    cfg = "OvniSort_Export.cfg" if tier == "quick" else "OvniSort_Export_Thorough.cfg"
    # quick: one TLC process for all ring sizes; thorough: one per ring size
    rings = ("2,3,4,5,8",) if tier == "quick" else (2, 3, 4, 5, 8)

    def one(ring):
        return core.tlc("OvniSortMC", cfg, tags=("TR",), heap="4g", timeout=3000,
                        workers=8 if tier == "quick" else 3,
                        env={} if tier == "quick" else {"C16_RING": ring})
    with ThreadPoolExecutor(max_workers=len(rings)) as ex:
        rxs = list(ex.map(one, rings))
    exported = []
    for ring, rx in zip(rings, rxs):
        core.tlc_expect_ok(rx, "OvniSort export ring=%s" % ring)
        ck.add_tlc(rx, "OvniSortMC/%s ring=%s (%s; selected streams exported)"
                   % (cfg, ring, "<=6 events, clocks 0..2, <=2 regions, jumbo inside" if tier == "quick"
                      else "<=6 events, clocks 0..2, <=2 regions, jumbo anywhere"))
        if rx.violated:
            ck.violation("the model of ovnisort.c (spec/OvniSort.tla, implementation layer) violates %s (ring %s)"
                         % (rx.violated, ring), {"tlc.out": rx.out[-20000:]}, sig="model-" + str(rx.violated))
        exported += [t for tg, t in rx.lines if isinstance(t, dict)]
    if len(exported) < 1000 and not any(rx.violated for rx in rxs):
        raise core.MachineryError("only %d streams exported:\n%s" % (len(exported), rxs[-1].out[-1500:]))
    # pinned streams (beyond the export bounds), evaluated by TLC in the same way
    rp = core.tlc("OvniSortCases", "OvniSortCases.cfg", tags=("TR",), workers=1, timeout=600)
    core.tlc_expect_ok(rp, "OvniSortCases")
    pinned = [t for tg, t in rp.lines if isinstance(t, dict)]
    if rp.violated or len(pinned) < 10:
        raise core.MachineryError("OvniSortCases: %s, %d cases\n%s" % (rp.violated, len(pinned), rp.out[-1500:]))
    ck.add_tlc(rp, "OvniSortCases (%d pinned streams evaluated by both layers)" % len(pinned))
    ck.phase("tlc_export")
    return pinned + exported, pinned


def main(pid, tier):
    scratch_root()
    try:
        return _main(pid, tier)
    finally:
        drop_scratch_root()


def _main(pid, tier):
    ck = core.Check(pid, "model_checking", tier)
    rng = random.Random(core.seed())
    bdir = core.build("hooks")
    for tname in ("ovnisort", "ovniemu"):
        if not os.path.exists(core.tool(bdir, tname)):
            raise core.MachineryError("no %s in the build" % tname)

    # ---- TLC: Impl => Property on the other instances and the negative configurations, in the
    # background (a forked helper, a few TLC processes at a time)
    jobs = tlc_jobs(tier)
    hpid, hpath = start_tlc_helper(jobs, tier)

    try:
        exported, pinned = export_streams(ck, tier)
    except BaseException:
        kill_helper(hpid)
        raise

    try:
        # ---- generated direction
        def replay(t):
            return observe(bdir, t["k"], t["c"], t["n"], bool(t["emu"]), timeout=15)
        obs_ = core.pmap(replay, exported, workers=max(4, core.NCPU - 6))
        ck.phase("replay")
        agree = 0
        fidelity = 0
        fid_samples = []
        classes = {}
        nbundles = 0
        for t, o in zip(exported, obs_):
            key = json.dumps([t["n"], t["k"], t["c"]])
            moved = t["fm"] <= len(t["k"])
            ck.case(key, nontrivial=(t["nreg"] > 0 and (moved or t["exp"] != "sorted")) or t["exp"] == "mayfail")
            ckey = "%s/%s" % (t["exp"], o["st"])
            classes[ckey] = classes.get(ckey, 0) + 1
            probs = judge(t, o)
            if not probs:
                agree += 1
            if (o["st"], o["oid"]) != (t["impl"], t["iorder"]):
                fidelity += 1
                if len(fid_samples) < 5:
                    fid_samples.append({"ring": t["n"], "stream": show(t["k"], t["c"]),
                                        "model": [t["impl"], t["iorder"]], "tool": [o["st"], o["oid"]]})
            for sig, text in probs:
                what = ("ovnisort -n %d on the stream [%s] (precondition class: %s): %s"
                        % (t["n"], show(t["k"], t["c"]), t["exp"], text))
                bd = None
                if nbundles < 8:
                    nbundles += 1
                    bd = bundle(bdir, t["k"], t["c"], t["n"], bool(t["emu"]), {"tlc_expected.json": t})
                ck.violation(what, bd, sig=sig)
        ck.notes["replay"] = {"streams": len(exported), "pinned": len(pinned), "agree": agree,
                              "by_class_and_status": classes,
                              "second_run_exit1_on_sorted_stream": sum(1 for o in obs_ if o["st2"] == "fail"),
                              "emulator_runs": sum(1 for o in obs_ if o["emu"] != "na"),
                              "second_runs": sum(1 for o in obs_ if o["st2"] != "na"),
                              "tool_differs_from_impl_model": fidelity,
                              "tool_differs_from_impl_model_samples": fid_samples}
        if fidelity:
            core.log("[C16] note: the tool's (status, order) differs from the implementation-layer model on "
                     "%d exported streams (not a violation by itself)" % fidelity)
        for t, o in list(zip(exported, obs_))[:4] + list(zip(exported, obs_))[-2:]:
            ck.sample({"ring": t["n"], "stream": show(t["k"], t["c"]), "class": t["exp"],
                       "expected_order": t["order"], "observed": [o["st"], o["oid"]]})

        # ---- several streams in one trace: ovnisort keeps one look-back ring for the whole trace, every
        # stream must be sorted as if it were alone (prefer the cases that insert at the very start)
        multi = sorted(exported, key=lambda t: (t["fm"] != 1, t["exp"] != "sorted"))[:(1500 if tier == "quick" else 12000)]
        # + streams that cannot (or need not) be sorted, followed by a sorted stream that is processed last
        hard = [t for t in exported if t["exp"] != "sorted" and not t["isorted"]]
        rng.shuffle(hard)
        hard = [dict(t, _after=True) for t in hard[:(400 if tier == "quick" else 5000)]]
        multi = multi + hard
        mobs = core.pmap(lambda t: observe(bdir, t["k"], t["c"], t["n"], False, timeout=15,
                                           prelude="after" if t.get("_after") else
                                           ("empty", "after", True)[(len(t["k"]) + t["n"]) % 3]), multi,
                         workers=max(4, core.NCPU - 6))
        magree = 0
        for t, o in zip(multi, mobs):
            ck.case("2streams:" + json.dumps([t["n"], t["k"], t["c"]]), nontrivial=t["nreg"] > 0)
            t2 = dict(t, emu=0)
            probs = judge(t2, o)
            if o.get("_prelude_changed"):
                probs.append(("other-stream-touched", "the already sorted stream processed before was modified"))
            if not probs:
                magree += 1
            for sig, text in probs:
                ck.violation("ovnisort -n %d on a trace with two streams, second stream [%s] (class %s): %s"
                             % (t["n"], show(t["k"], t["c"]), t["exp"], text), None, sig="2streams:" + sig)
        ck.notes["replay_two_streams"] = {"streams": len(multi), "agree": magree}
        agree_total_extra = magree

        # ---- recorded direction
        cases = random_cases(rng, tier)

        def rec_one(c):
            ks, cs, ring = c
            return observe(bdir, ks, cs, ring, True)
        recs = core.pmap(rec_one, cases, workers=max(4, core.NCPU - 6))
        # cross-check of the two directions: a sample of the replays goes to TLC as well
        idx = list(range(len(obs_)))
        rng.shuffle(idx)
        cross = [obs_[i] for i in idx[:400 if tier == "quick" else 6000]]
        ck.phase("record")
        execs = [[public(r)] for r in recs] + [[public(r)] for r in cross]
        # spread the long streams evenly over the TLC runs
        order = sorted(range(len(execs)), key=lambda i: -len(execs[i][0]["k"]))
        nch = 6 if tier == "quick" else 12
        perm = [order[i] for c in range(nch) for i in range(c, len(order), nch)]
        execs_p = [execs[i] for i in perm]
        csize = (len(execs_p) + nch - 1) // nch
        tvr = tv.validate("OvniSortTrace", "OvniSortTrace.cfg", execs_p, None, chunk=csize, parallel=nch,
                          timeout=3000)
        ck.phase("trace_validation")
        ck.cov["states"] += tvr.states
        ck.cov["transitions"] += tvr.generated
        nrec = len(recs)
        acc = set(perm[i] for i in tvr.accepted)
        rejected = []
        for (i, line, rec, tail, inv) in tvr.rejected:
            j = perm[i]
            m = re.search(r'"REJECT",\s*\d+,\s*\{([^}]*)\}', tail, re.S)
            clauses = re.findall(r'"([^"]+)"', m.group(1)) if m else ["?"]
            rejected.append((j, clauses, tail))
        ck.notes["recorded"] = {"random_streams": nrec, "replays_cross_checked": len(cross),
                                "accepted": len(acc), "rejected": len(rejected), "tlc_runs": tvr.tlc_runs,
                                "events_min_max": [min(len(c[0]) for c in cases), max(len(c[0]) for c in cases)],
                                "status": {s_: sum(1 for r in recs if r["st"] == s_)
                                           for s_ in ("ok", "fail", "die", "other")}}
        for k_, r in enumerate(recs):
            ck.case("rnd:%d:%d:%d" % (core.seed(), k_, len(r["k"])),
                    nontrivial=r["fdiff"] != -1 or r["st"] != "ok")
        for j, clauses, tail in rejected:
            if j < nrec:
                ks, cs, ring = cases[j]
                r = recs[j]
                what = ("recorded run not accepted by OvniSortTrace (%s): ovnisort -n %d on a random stream of %d "
                        "events (seed %d, #%d), status %s; first events [%s ...]"
                        % (", ".join(clauses), ring, len(ks), core.seed(), j, r["st"], show(ks[:12], cs[:12])))
                ck.violation(what, bundle(bdir, ks, cs, ring, True,
                                          {"record.json": public(r), "tlc_tail.txt": tail}),
                             sig=clauses[0] if clauses else "rejected")
            else:
                o = cross[j - nrec]
                what = ("replayed run not accepted by OvniSortTrace (%s): ovnisort -n %d on [%s], status %s, ids %s"
                        % (", ".join(clauses), o["n"], show(o["k"], o["c"]), o["st"], o["oid"]))
                ck.violation(what, bundle(bdir, o["k"], o["c"], o["n"], o["_wrap"],
                                          {"record.json": public(o), "tlc_tail.txt": tail}),
                             sig=clauses[0] if clauses else "rejected")
        ck.cov["traces_validated_against_impl"] = agree + sum(1 for j in acc if j < nrec)
    except BaseException:
        kill_helper(hpid)
        raise

    # ---- model-checking results
    res = collect_tlc_helper(hpid, hpath)
    ck.phase("tlc_model_checking")
    for i, j in enumerate(jobs):
        r = res[i]
        ck.add_tlc(r, j["name"])
        if j["neg"]:
            if not r.violated:
                raise core.MachineryError("negative configuration %s is no longer refuted (%s):\n%s"
                                          % (j["cfg"], r.error, r.out[-1500:]))
            continue
        core.tlc_expect_ok(r, j["name"])
        if j.get("witness"):
            ck.notes["second_run_may_fail_witness_found"] = bool(r.violated)
            continue
        if r.violated:
            ck.violation("the model of ovnisort.c (spec/OvniSort.tla, implementation layer) violates %s in %s"
                         % (r.violated, j["name"]), {"tlc.out": r.out}, sig="model-" + str(r.violated))
    ck.assumptions += [
        "qsort() of the libc is stable (glibc merge sort); the model sorts stably",
        "pointers are modelled as byte offsets, MAP_PRIVATE pages reflect pwrite() (Linux page cache)",
        "events with identical bytes (region markers with equal clocks) are interchangeable",
        "streams outside precondition 1 (disorder outside closed regions, or a region event later than its "
        "closing OU]) are Unspecified: only event survival, untouched prefix, loud failure and the "
        "agreement of ovnisort -c with Sorted() are required",
        "TLC results are exhaustive within the stated bounds (stream length, clocks, ring sizes)"]
    return ck.finish(rule="cases = (stream, ring) pairs exported by TLC and replayed on ovnisort, plus random "
                          "recorded streams judged by OvniSortTrace; non-trivial = the stream has a non-empty "
                          "closed region whose sort has to move bytes or must be refused (look back too short), "
                          "resp. the recorded run changed the file or failed; distinct by (ring, kinds, clocks)")
