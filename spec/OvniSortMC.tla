----------------------------- MODULE OvniSortMC -----------------------------
(* Model-checking instance of OvniSort: the set of ring sizes can be narrowed
   through the environment (C16_RINGS = one ring size) so that the harness
   runs one TLC process per ring size in parallel; without the variable all
   ring sizes 2..5 are explored by one process.                            *)
EXTENDS OvniSort, IOUtils

MCRings == IF "C16_RING" \in DOMAIN IOEnv THEN {atoi(IOEnv.C16_RING)} ELSE {2, 3, 4, 5}
=============================================================================
