--------------------------- MODULE BreakdownTrace ---------------------------
(* Trace validation of `ovniemu -b -l` against Breakdown (C20).

   One execution = a "sys" record (system, enabled models, task type
   tokens), one "ev" record per replayed event carrying what the SAME run
   shows after that event:
     view  cells of thread.prv / cpu.prv (as in EmuTrace)
     rows  the value of every row of <model>-breakdown.prv (-1: no line yet)
     wr    the breakdown lines written at the time of the event <<row, value>>
   and an "end" record with the emulator's verdict.

   After every accepted event:
     1. the thread/CPU timelines are the ones of the reference semantics;
     2. the rows are a sorted arrangement (non-decreasing from the first row
        to the last) of one value per physical CPU, where the value of a CPU
        is BOTH what the tri rule gives for the subsystem / task type / idle
        cells that cpu.prv shows for that CPU AND what the specification
        predicts from the event history;
     3. only rows whose value changes are written.                        *)
EXTENDS Breakdown, Json, IOUtils

CONSTANT AllowStale     \* accept the value of a stale mux selection (see Breakdown)

Log == ndJsonDeserialize(IOEnv.TRACE)

VARIABLES l,
          prow           \* rows shown before the event (-1: never written)
tvars == <<bdVars, l, prow>>

Rec == Log[l]
Is(k) == l <= Len(Log) /\ Rec.e = k /\ l' = l + 1

SysOf(r) == [threads |-> r.threads, cpus |-> r.cpus, marks |-> r.marks,
             models |-> {r.models[i] : i \in 1..Len(r.models)}, gids |-> r.gids]

EmptySys == [threads |-> <<>>, cpus |-> <<>>, marks |-> <<>>, models |-> {}, gids |-> <<>>]
TInit == l = 1 /\ InitAll(EmptySys, TRUE) /\ InitSel(EmptySys) /\ prow = <<>>

NPhysOf(s) == Cardinality({c \in 1..Len(s.cpus) : ~s.cpus[c].virt})

TSys == /\ Is("sys")
        /\ ResetAll(SysOf(Rec), Rec.lint)
        /\ ResetSel(SysOf(Rec))
        /\ prow' = [i \in 1..NPhysOf(SysOf(Rec)) |-> -1]

ObsView(r) == {<<c[1], c[2], c[3], c[4]>> : c \in {r.view[i] : i \in 1..Len(r.view)}}

\* value of a CPU cell of the observed view (0 = nothing shown)
ObsVal(V, c, ty) ==
   LET S == {x \in V : x[1] = "c" /\ x[2] = c /\ x[3] = ty}
   IN  IF S = {} THEN 0 ELSE (CHOOSE x \in S : TRUE)[4]

\* the tri rule applied to what cpu.prv shows (task types are shown by label code)
ObsSS(V, c)   == ObsVal(V, c, ChanInfo[SSK].ty)
ObsTT(V, c)   == LET k == ObsVal(V, c, ChanInfo[TTK].ty) IN IF k = 0 THEN 0 ELSE Gid(k)
ObsIdle(V, c) == ObsVal(V, c, ChanInfo[IDK].ty)
ObsCand(V, c) ==
   {Tri(ObsIdle(V, c), PureTr(ObsSS(V, c), ObsTT(V, c)))}
   \cup (IF AllowStale THEN {Tri(ObsIdle(V, c), MuxTr(sel'[c], ObsSS(V, c), ObsTT(V, c)))} ELSE {})

NullIs0(x) == IF x = -1 THEN 0 ELSE x
RowsShown(r) == [i \in 1..Len(r.rows) |-> NullIs0(r.rows[i])]

\* the record against the state AFTER the event (sys is not changed by events)
RowsOK(r) ==
   LET V == ObsView(r)
       Both(c) == ObsCand(V, c) \cap Cand(c, AllowStale)'
   IN  /\ Len(r.rows) = Cardinality(PhysCpus)
       /\ \E f \in Choices(Both) : RowsShown(r) = RowsOf(f)

\* the rows are NOT explained by the tri formula alone (only evaluated with AllowStale)
NeedsStale(r) ==
   LET V == ObsView(r)
       Strict(c) == {Tri(ObsIdle(V, c), PureTr(ObsSS(V, c), ObsTT(V, c)))} \cap Cand(c, FALSE)'
   IN  ~\E f \in Choices(Strict) : RowsShown(r) = RowsOf(f)

\* only rows that change are written (a row without any line yet holds "nothing")
WrittenOK(r) ==
   /\ \A i \in 1..Len(r.wr) : /\ r.wr[i][1] \in 1..Len(prow)
                              /\ r.wr[i][2] # prow[r.wr[i][1]]
   /\ \A i, j \in 1..Len(r.wr) : i # j => r.wr[i][1] # r.wr[j][1]

TEv == /\ Is("ev")
       /\ StepAll([th |-> Rec.th, m |-> Rec.m, mc |-> Rec.mc, a |-> Rec.a, j |-> Rec.j])
       /\ SelStep([th |-> Rec.th, m |-> Rec.m, mc |-> Rec.mc, a |-> Rec.a, j |-> Rec.j])
       /\ (~failed' /\ ~unspec' /\ Rec.hasview) =>
             /\ (ObsView(Rec) \ CpuDefaultCells') = ViewAll'
             /\ RowsOK(Rec)
             /\ WrittenOK(Rec)
             /\ (AllowStale /\ NeedsStale(Rec)) => PrintT(<<"STALE", ToString(l)>>)
       /\ prow' = IF Len(Rec.rows) = Len(prow) THEN Rec.rows ELSE prow

TEnd == /\ Is("end")
        /\ unspec \/ Rec.verdict = VerdictAll
        /\ UNCHANGED <<bdVars, prow>>

TNext == TSys \/ TEv \/ TEnd
TSpec == TInit /\ [][TNext]_tvars

Accepted == TLCGet("stats").diameter - 1 = Len(Log)
Report == PrintT(<<"CONSUMED", TLCGet("stats").diameter - 1, Len(Log)>>) /\ Accepted
=============================================================================
