\* arithmetic of the current code, no invariant: export every transition with its boundary class
SPECIFICATION Spec
CONSTANTS
  W = 8
  Sizes <- SzExport
  Guarded = FALSE
  JSizes <- JSAll
  JFlags <- JFQuick
  MaxStr = 6
ACTION_CONSTRAINT Export
VIEW ExportView
CHECK_DEADLOCK FALSE
