----------------------------- MODULE PlayerHeap -----------------------------
(* HeapPlayer => Merge for ALL sorted streams over the given clock values,
   plus the structural invariants of the pointer heap.

   The implementation never looks further ahead than the one loaded event
   per stream, so the contents of the files are revealed one event at a
   time: when a stream is stepped the environment answers with its next raw
   clock (>= the previous one: streams are sorted) or with "end of file".
   The streams therefore have ANY length (incl. empty) and any clock values
   of `Clocks`, equal clocks inside and across streams included.

   env = [rawlast, ended];  the Merge state for streams revealed on demand
   is the ghost g (specification side):
     pend[s]  stream s has a revealed event that was not emitted yet (the
              head of s; the cursor of s stands just before it)
     ckey[s]  its corrected time, computed by the specification (Corr)
     lastc    corrected time of the last emitted event, first = of the first
     viol     names of the checks that failed in the step leading here      *)
EXTENDS Player

VARIABLES hsys, env, ps, g
hvars == <<hsys, env, ps, g>>

Answers(e, s) == IF e.ended[s] THEN {None} ELSE {None} \cup {c \in Clocks : c >= e.rawlast[s]}

Reveal(sys, e, gg, s, a) ==       \* returns <<env', g'>>
   IF a = None THEN <<[e EXCEPT !.ended[s] = TRUE, !.rawlast[s] = MinOf(Clocks)], gg>>
   ELSE <<[e EXCEPT !.rawlast[s] = a],
          [gg EXCEPT !.pend[s] = TRUE, !.ckey[s] = Corr(sys, s, a),
                     !.viol = IF gg.pend[s] THEN gg.viol \cup {"SteppedOverUnemitted"} ELSE gg.viol]>>

Heads(gg) == [s \in DOMAIN gg.pend |-> IF gg.pend[s] THEN gg.ckey[s] ELSE None]

\* the implementation delivered the current event of stream s with sclock and dclock:
\* judge it with the property layer
Judge(gg, s, sclock, dclock) ==
   LET hd == Heads(gg)
       c  == gg.ckey[s]
       first == IF gg.first = None THEN c ELSE gg.first
       bad == (IF ~gg.pend[s] THEN {"ExactlyOnce"} ELSE {})                           \* nothing of s is waiting
              \cup (IF gg.pend[s] /\ ~MergeEnabled(hd, s) THEN {"MergeStep"} ELSE {})  \* not a minimal head
              \cup (IF gg.pend[s] /\ gg.lastc # None /\ c < gg.lastc THEN {"NonDecreasing"} ELSE {})
              \cup (IF gg.pend[s] /\ sclock # c THEN {"CorrectedClock"} ELSE {})
              \cup (IF gg.pend[s] /\ dclock # c - first THEN {"OutputTime"} ELSE {})
   IN  IF gg.pend[s]
       THEN [gg EXCEPT !.pend[s] = FALSE, !.ckey[s] = 0, !.lastc = c, !.first = first, !.viol = gg.viol \cup bad]
       ELSE [gg EXCEPT !.viol = gg.viol \cup bad]

LazySystems == {[loom |-> lm, off |-> of, base |-> Base, tool |-> "emu"] :
                  lm \in LoomAssignments(NS), of \in [Looms -> Offsets]}

HInit == /\ hsys \in LazySystems
         /\ env = [rawlast |-> [s \in 1..NS |-> MinOf(Clocks)], ended |-> [s \in 1..NS |-> FALSE]]
         /\ ps = PlayerInit(NS)
         /\ g = [pend |-> [s \in 1..NS |-> FALSE], ckey |-> [s \in 1..NS |-> 0],
                 lastc |-> None, first |-> None, viol |-> {}]

\* player_init: the list is sorted by path, stream i is the i-th
HInitStep ==
   /\ ps.phase = "init"
   /\ LET s == ps.i IN
      \E a \in Answers(env, s) :
         LET eg == Reveal(hsys, env, g, s, a) IN
         /\ ps' = PInitOne(hsys, ps, s, a, s = NS)
         /\ env' = eg[1]
         /\ g' = eg[2]
   /\ UNCHANGED hsys

\* player_step
HStep ==
   /\ ps.phase = "run"
   /\ LET c == ps.cur
          con == Consults(ps, c)
      IN
      \E a \in (IF con THEN Answers(env, c) ELSE {None}) :
         LET eg == IF con THEN Reveal(hsys, env, [g EXCEPT !.viol = {}], c, a) ELSE <<env, [g EXCEPT !.viol = {}]>>
             p2 == PStep(hsys, ps, a)
             \* the heads known when the implementation pops
             gpop == IF PVariant = "popfirst" THEN [g EXCEPT !.viol = {}] ELSE eg[2]
             j  == Judge(gpop, p2.cur, p2.lastclock, p2.deltaclock)
         IN
         /\ ps' = p2
         /\ env' = eg[1]
         /\ g' = IF p2.phase = "done" THEN eg[2]
                 ELSE IF PVariant = "popfirst"
                 THEN [j EXCEPT !.pend[c] = IF c # 0 /\ con /\ a # None THEN TRUE ELSE @,
                                !.ckey[c] = IF c # 0 /\ con /\ a # None THEN eg[2].ckey[c] ELSE @,
                                !.viol = @ \cup eg[2].viol]
                 ELSE j
   /\ UNCHANGED hsys

HNext == HInitStep \/ HStep
HSpec == HInit /\ [][HNext]_hvars

\* ---- what TLC checks on HeapPlayer
HeapStructure == ps.phase # "done" => HeapWellFormed(ps.h, ps.key, InHeap(ps))
HeapHoldsPending == HeapNodes(ps.h) = {s \in 1..NS : g.pend[s]}
RefinesMerge == "MergeStep" \notin g.viol          \* every emission is an enabled Merge step
HNonDecreasing == "NonDecreasing" \notin g.viol
HPerStreamOrder == "SteppedOverUnemitted" \notin g.viol  \* the head of a stream is emitted before its successor is read
HNoDuplicate == "ExactlyOnce" \notin g.viol              \* only events that wait are emitted
HCorrectedClock == "CorrectedClock" \notin g.viol   \* sclock = raw + offset of the stream's loom
HOutputTime == "OutputTime" \notin g.viol           \* dclock = corrected - first
HNoError == ~ps.err                                 \* sorted streams are never refused
\* at termination every stream was read to its end and everything revealed was emitted
HExactlyOnce == ps.phase = "done" => \A s \in 1..NS : env.ended[s] /\ ~g.pend[s]
HTerminates == ps.phase = "done" \/ ENABLED HNext
=============================================================================
