---------------------------- MODULE CorruptBytes ----------------------------
(* C12, byte-level corruptions of OPAQUE valid traces (traces written by the
   runtime in the repository's own test-suite).  The events of such a trace
   are not interpreted; the specification only sees the decoded shape of
   each stream.obs (IOEnv.SHAPES, one JSON line per trace):

      [id, streams : << [fsize, offs, sizes, ranks, ends] >>]
        offs[n], sizes[n] : offset and length in bytes of event n
        ranks[n]          : clock of event n, order-preservingly compressed
                            (TLC integers are 32 bits)
        ends[n]           : 1 iff event n is OHe (the thread ends)

   and decides what the structural part of the acceptance function of
   Corrupt.tla says about a truncation, a header byte, a swap of adjacent
   events or a clock set below its predecessor:

     - a file shorter than the header, a cut strictly inside an event, an
       altered header byte, a clock that decreases inside a stream: reject;
     - a cut at an event boundary: the tail is lost.  If no OHe of the
       stream is left the thread cannot reach the dead state (EmuCore: OHe is
       the only event leading to "dead") and VerdictAll requires AllDead:
       reject.  Otherwise the remaining trace may be another valid one:
       unspecified.
   Large files are explored in a window at both ends plus every Stride-th
   event boundary (and the bytes around it).                              *)
EXTENDS Naturals, Integers, Sequences, FiniteSets, TLC, Json, IOUtils

CONSTANTS Window, Stride,
          Variant    \* "code"; "deadoptional": wrong acceptance function that lets a thread end without OHe (negative cfg)

Shapes == ndJsonDeserialize(IOEnv.SHAPES)

VARIABLE bCase          \* <<trace index, kind, stream, p, q, verdict>>

NEv(st) == Len(st.offs)
Bnd(st) == {8, st.fsize} \cup {st.offs[n] : n \in 1..NEv(st)}
EndLost(st, c) == \A n \in 1..NEv(st) : st.ends[n] = 1 => st.offs[n] + st.sizes[n] > c

TruncVerdict(st, c) == IF c < 8 THEN "reject"
                       ELSE IF c \notin Bnd(st) THEN "reject"
                       ELSE IF EndLost(st, c) /\ Variant # "deadoptional" THEN "reject"
                       ELSE "unspecified"

Picked(st) == {n \in 1..NEv(st) : n <= 3 \/ n > NEv(st) - 3 \/ n % Stride = 0}
Cuts(st) == IF st.fsize <= 2 * Window THEN 0..(st.fsize - 1)
            ELSE (0..(Window - 1)) \cup ((st.fsize - Window)..(st.fsize - 1))
                 \cup {c \in UNION {{st.offs[n] - 1, st.offs[n], st.offs[n] + 1, st.offs[n] + 11, st.offs[n] + 12}
                                    : n \in Picked(st)} : c >= 0 /\ c < st.fsize}
Swaps(st) == {n \in Picked(st) : n < NEv(st) /\ st.ranks[n] # st.ranks[n + 1]}
Clocks(st) == {n \in Picked(st) : n >= 2}

CasesOf(t) ==
   LET T == Shapes[t].streams IN
   UNION {{<<t, "trunc", k, c, 0, TruncVerdict(T[k], c)>> : c \in Cuts(T[k])}
          \cup {<<t, "hdr", k, b, 1, "reject">> : b \in 0..7}            \* q: added to the byte (mod 256)
          \cup {<<t, "swap", k, n, 0, "reject">> : n \in Swaps(T[k])}
          \cup {<<t, "clock", k, n, 0, "reject">> : n \in Clocks(T[k])}   \* clock := clock of event n-1, minus 1
          : k \in 1..Len(T)}

BInit == \E t \in 1..Len(Shapes) : bCase \in CasesOf(t)
BNext == UNCHANGED bCase
BSpec == BInit /\ [][BNext]_bCase

\* sanity of the shapes the harness decoded: events tile the file
ShapesTile == \A t \in 1..Len(Shapes) : \A k \in 1..Len(Shapes[t].streams) :
                 LET st == Shapes[t].streams[k] IN
                 /\ NEv(st) > 0 /\ st.offs[1] = 8
                 /\ \A n \in 1..NEv(st) : st.offs[n] + st.sizes[n] = (IF n = NEv(st) THEN st.fsize ELSE st.offs[n + 1])
                 /\ \A n \in 1..(NEv(st) - 1) : st.ranks[n] <= st.ranks[n + 1]
ASSUME ShapesTile

\* every truncation that loses the last event of a stream that ends with OHe (and has no other) is rejected
TruncLosesEnd == (bCase[2] = "trunc") =>
                    LET st == Shapes[bCase[1]].streams[bCase[3]] IN
                    (st.ends[NEv(st)] = 1 /\ \A n \in 1..(NEv(st) - 1) : st.ends[n] = 0) => bCase[6] = "reject"

ExportInv == PrintT(<<"TR", ToJson([trace |-> Shapes[bCase[1]].id, kind |-> bCase[2], stream |-> bCase[3],
                                    p |-> bCase[4], q |-> bCase[5], verdict |-> bCase[6]])>>)
=============================================================================
