-------------------------- MODULE RtStreamTrace --------------------------
(* Trace validation for RtStream: every line of the log recorded by
   drivers/rtdrive.c (one per public API call, with the size of stream.obs
   observed after the call) must be explained by the corresponding RtStream
   action, and the stream decoded from disk at the end must be exactly the
   model's disk.  Several executions are concatenated with "reset" lines. *)
EXTENDS RtStream, Json, IOUtils, TLC

Log == ndJsonDeserialize(IOEnv.TRACE)

VARIABLE l
tvars == <<vars, l>>

TInit == Init /\ l = 1

IsOp(o) == l <= Len(Log) /\ Log[l].op = o /\ l' = l + 1

TReset == /\ IsOp("reset")
          /\ st' = "fresh" /\ evlen' = 0 /\ buf' = <<>> /\ disk' = <<>> /\ dbytes' = 0
          /\ now' = 1 /\ emitted' = <<>> /\ nflush' = 0 /\ nested' = FALSE /\ calls' = 0

\* The implementation layer (when exactly the buffer is flushed, hence the file
\* size after each call and the position of the markers) is NOT demanded of the
\* code: a different but valid flush policy satisfies C01/C02.  The recorded
\* calls drive the model only to know WHAT was handed to the library; the
\* stream decoded from disk is judged by the property layer alone.
TThreadInit == IsOp("thread_init") /\ ThreadInit /\ Log[l].fsize = StreamHdr   \* header written, nothing else
TEmit  == IsOp("emit")  /\ Log[l].pay \in LegalPay /\ Emit(Log[l].pay, Log[l].kind)
                        /\ emitted'[Len(emitted')] = Log[l].id
TJumbo == IsOp("jumbo") /\ EmitJumbo(Log[l].n) /\ emitted'[Len(emitted')] = Log[l].id
TFlush == IsOp("flush") /\ Flush
TFree  == IsOp("free")  /\ Free

\* everything the thread handed over, with the size each event must have on disk
Handed == SelectSeq(disk \o buf, IsUser)

\* the stream decoded from disk by the independent decoder, after flush + free
ObsUser(s) == SelectSeq(s, LAMBDA e : e.k \in {"u", "j", "m"})
ObsMonotone(s) == \A i \in 1..(Len(s) - 1) : s[i].clk <= s[i + 1].clk
ObsPaired(s) == LET m == SelectSeq(s, LAMBDA e : e.k \in {"b", "e"}) IN
                /\ Len(m) % 2 = 0
                /\ \A i \in 1..Len(m) : m[i].k = (IF i % 2 = 1 THEN "b" ELSE "e")
ObsSum(s) == LET RECURSIVE Sum(_)
                 Sum(i) == IF i = 0 THEN 0 ELSE s[i].sz + Sum(i - 1)
             IN  Sum(Len(s))
TFinal == /\ IsOp("final")
          /\ LET s == Log[l].stream
                 u == ObsUser(s)
                 h == SelectSeq(disk, IsUser)      \* model: what is on disk after the last flush
             IN
             \* C01 fidelity: exactly the events handed over before the last flush, once, in order,
             \* with their kind and size; nothing else but flush markers
             /\ Len(u) = Len(h)
             /\ \A i \in 1..Len(u) : u[i].id = h[i].id /\ u[i].k = h[i].k /\ u[i].sz = h[i].sz
             /\ \A i \in 1..Len(s) : s[i].k \in {"u", "j", "m", "b", "e"}
             \* C02 validity: tiling, monotone clocks, paired non-nested markers
             /\ Log[l].fsize = StreamHdr + ObsSum(s)
             /\ ObsMonotone(s)
             /\ ObsPaired(s)
          /\ UNCHANGED vars

\* ovni_ev_jumbo_emit refuses (die) a jumbo that can never fit the buffer
TJumboDie == IsOp("jumbo_die") /\ st = "ready" /\ JumboTooLarge(Log[l].n) /\ UNCHANGED vars

TNext == TJumboDie \/ TReset \/ TThreadInit \/ TEmit \/ TJumbo \/ TFlush \/ TFree \/ TFinal
TSpec == TInit /\ [][TNext]_tvars

\* acceptance: all lines consumed (one state per line + the initial state)
Accepted == TLCGet("stats").diameter - 1 = Len(Log)
Report == PrintT(<<"CONSUMED", TLCGet("stats").diameter - 1, Len(Log)>>) /\ Accepted
=============================================================================
