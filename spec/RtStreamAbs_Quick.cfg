SPECIFICATION Spec
CONSTANTS
  CAP = 2097152
  Window = 64
  Reserve = TRUE
  PaySizes = {0,2,3,8,15,16}
  JumboSizes = {0,1,5,40,1048560,1048576,2097076,2097096,2097110,2097111,2097112,2097113,2097122,2097123,2097124,2097125,2097134,2097135}
VIEW View
INVARIANTS BufferBound NoNestedFlush
CHECK_DEADLOCK FALSE
