SPECIFICATION Spec
CONSTANTS
  Tiny = FALSE
  WithOrders = TRUE
  SampleMod = 200
INVARIANTS MergeMatchesUnion ValidAreAccepted RowsIndependent ExportInv
CHECK_DEADLOCK FALSE
