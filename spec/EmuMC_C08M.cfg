SPECIFICATION MCSpec
CONSTANTS
  System <- SysC08M
  Alphabet <- AlphaC08M
  MaxLen = 7
  Lint = TRUE
VIEW MCView
INVARIANT Inv
ACTION_CONSTRAINT Export
CHECK_DEADLOCK FALSE
