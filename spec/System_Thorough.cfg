SPECIFICATION Spec
CONSTANTS
  Tiny = FALSE
  WithOrders = TRUE
  SampleMod = 200
INVARIANTS MergeMatchesUnion ValidAreAccepted RowsIndependent MixedAccepted MixedRowsIndependent ExportInv
CHECK_DEADLOCK FALSE
