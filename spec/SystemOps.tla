----------------------------- MODULE SystemOps -----------------------------
(* Metadata merge of the emulator (C15): src/emu/system.c create_system,
   loom.c load_cpus, proc.c load_appid / load_rank, sort criteria, global
   indices.

   A trace is a SEQUENCE of stream metadata records, in the order the
   emulator processes them:
     [loom, pid, tid, app, rank, nranks, cpus]
       loom   : 1..9     (loom name "node<loom>.x")
       app    : app id, 0 = attribute absent
       rank   : -1 = absent;  nranks : 0 = absent
       cpus   : sequence of <<index, phyid>>, <<>> = attribute absent

   Property layer: Consistent(S) and Rows(S) are functions of the UNION of
   the metadata (they do not look at positions in S).
   Implementation layer: Merge(S) folds the streams one by one with the
   first-come conflict detection of the code, then sorts.
   Checked by TLC for every distribution / order / single contradiction:
   Merge(S) agrees with the property layer.                              *)
EXTENDS Naturals, Integers, Sequences, FiniteSets, TLC, Json

Range(s) == {s[i] : i \in 1..Len(s)}
Max(S) == CHOOSE x \in S : \A y \in S : y <= x
Min(S) == CHOOSE x \in S : \A y \in S : x <= y

\* sort a finite set of integers ascending
RECURSIVE SortSet(_)
SortSet(S) == IF S = {} THEN <<>> ELSE <<Min(S)>> \o SortSet(S \ {Min(S)})

-----------------------------------------------------------------------------
(* Property layer *)
LoomsOf(S) == {m.loom : m \in Range(S)}
ProcsOf(S, l) == {m.pid : m \in {x \in Range(S) : x.loom = l}}
OfProc(S, l, p) == {i \in 1..Len(S) : S[i].loom = l /\ S[i].pid = p}
OfLoom(S, l) == {i \in 1..Len(S) : S[i].loom = l}

Apps(S, l, p)   == {S[i].app : i \in OfProc(S, l, p)} \ {0}
Ranks(S, l, p)  == {S[i].rank : i \in {j \in OfProc(S, l, p) : S[j].rank # -1}}
\* every stream that carries a rank count counts ("different ... rank count within a process"),
\* whether or not it also carries the rank
NRanks(S, l, p) == {S[i].nranks : i \in OfProc(S, l, p)} \ {0}
CpuPairs(S, l)  == UNION {Range(S[i].cpus) : i \in OfLoom(S, l)}

ProcHasRank(S, l, p) == Ranks(S, l, p) # {}
LoomHasRank(S, l) == \E p \in ProcsOf(S, l) : ProcHasRank(S, l, p)

Consistent(S) ==
   /\ \A l \in LoomsOf(S) : \A p \in ProcsOf(S, l) :
        /\ Cardinality(Apps(S, l, p)) = 1 /\ \A a \in Apps(S, l, p) : a > 0
        /\ Cardinality(Ranks(S, l, p)) <= 1
        /\ \A r \in Ranks(S, l, p) : r >= 0
        /\ Cardinality(NRanks(S, l, p)) <= 1
        /\ \A n \in NRanks(S, l, p) : n > 0
        /\ ProcHasRank(S, l, p) =>
              /\ Cardinality(NRanks(S, l, p)) = 1
              /\ \A n \in NRanks(S, l, p) : \A r \in Ranks(S, l, p) : r < n
        \* no two streams of a process with the same tid
        /\ \A i, j \in OfProc(S, l, p) : i # j => S[i].tid # S[j].tid
   /\ \A l \in LoomsOf(S) :
        LET P == CpuPairs(S, l) IN
        /\ P # {}
        /\ \A a, b \in P : (a[1] = b[1]) <=> (a[2] = b[2])          \* index <-> phyid bijection
        /\ \A a \in P : a[1] >= 0 /\ a[2] >= 0
        /\ {a[1] : a \in P} = 0..(Cardinality(P) - 1)              \* indices are 0..n-1
        \* an explicitly empty CPU list is refused, modelled as cpus = <<<<-1,-1>>>>
        /\ LoomHasRank(S, l) => \A p \in ProcsOf(S, l) : ProcHasRank(S, l, p)

TheApp(S, l, p)  == CHOOSE a \in Apps(S, l, p) : TRUE
TheRank(S, l, p) == CHOOSE r \in Ranks(S, l, p) : TRUE
RankMin(S, l) == Min({TheRank(S, l, p) : p \in ProcsOf(S, l)})

SortByRank(S) == \A l \in LoomsOf(S) : LoomHasRank(S, l)

\* loom order: by minimum rank when every loom has ranks, else by name
\* (names node1.x .. node9.x sort like the numbers)
LoomKey(S, l) == IF SortByRank(S) THEN RankMin(S, l) ELSE l
\* equal keys: order not defined by the property
AmbiguousOrder(S) ==
   \/ \E l1, l2 \in LoomsOf(S) : l1 # l2 /\ LoomKey(S, l1) = LoomKey(S, l2)
   \/ \E l \in LoomsOf(S) : LoomHasRank(S, l) /\
         \E p1, p2 \in ProcsOf(S, l) : p1 # p2 /\ TheRank(S, l, p1) = TheRank(S, l, p2)

RECURSIVE SortBy(_, _)
SortBy(X, key) ==          \* key: a function on X
   IF X = {} THEN <<>>
   ELSE LET x == CHOOSE a \in X : \A b \in X : key[a] <= key[b]
        IN  <<x>> \o SortBy(X \ {x}, key)

LoomOrder(S) == SortBy(LoomsOf(S), [l \in LoomsOf(S) |-> LoomKey(S, l)])
ProcOrder(S, l) == IF LoomHasRank(S, l)
                   THEN SortBy(ProcsOf(S, l), [p \in ProcsOf(S, l) |-> TheRank(S, l, p)])
                   ELSE SortSet(ProcsOf(S, l))
TidsOf(S, l, p) == SortSet({S[i].tid : i \in OfProc(S, l, p)})

RECURSIVE Concat(_)
Concat(ss) == IF ss = <<>> THEN <<>> ELSE Head(ss) \o Concat(Tail(ss))

\* thread rows: <<app id, tid>>  (row label "TH <app>.<tid>")
ThreadRows(S) ==
   Concat([i \in 1..Len(LoomOrder(S)) |->
      LET l == LoomOrder(S)[i] IN
      Concat([j \in 1..Len(ProcOrder(S, l)) |->
         LET p == ProcOrder(S, l)[j] IN
         [k \in 1..Len(TidsOf(S, l, p)) |-> <<TheApp(S, l, p), TidsOf(S, l, p)[k]>>]])])

\* cpu rows: <<loom position (0-based), phyid>>, phyid -1 = the virtual CPU, last per loom
CpuRows(S) ==
   Concat([i \in 1..Len(LoomOrder(S)) |->
      LET l == LoomOrder(S)[i]
          phys == SortSet({a[2] : a \in CpuPairs(S, l)}) IN
      [k \in 1..Len(phys) |-> <<i - 1, phys[k]>>] \o <<<<i - 1, -1>>>>])

Expected(S) == IF ~Consistent(S) THEN [verdict |-> "reject", trows |-> <<>>, crows |-> <<>>]
               ELSE IF AmbiguousOrder(S) THEN [verdict |-> "unspecified", trows |-> <<>>, crows |-> <<>>]
               ELSE [verdict |-> "ok", trows |-> ThreadRows(S), crows |-> CpuRows(S)]

-----------------------------------------------------------------------------
(* Implementation layer: sequential merge as in create_system().
   State of the fold: [ok, looms (first-come sequence), procs, cpus, tids]
     procs : function <<l,p>> -> [app, rank, nranks]
     cpus  : function l -> set of <<index, phyid>>
     tids  : set of <<l, p, tid>>                                        *)
St0 == [ok |-> TRUE, looms |-> <<>>, procs |-> <<>>, cpus |-> <<>>, tids |-> {}]

Has(f, k) == k \in DOMAIN f
Put(f, k, v) == (k :> v) @@ f

\* load_cpus for one stream: first-come, conflicts refused
RECURSIVE LoadCpus(_, _, _)
LoadCpus(cs, list, i) ==      \* cs: [ok, set]
   IF i > Len(list) \/ ~cs.ok THEN cs
   ELSE LET idx == list[i][1]  phy == list[i][2]
            byPhy == {a \in cs.set : a[2] = phy}
            byIdx == {a \in cs.set : a[1] = idx}
        IN  IF idx < 0 THEN [cs EXCEPT !.ok = FALSE]
            ELSE IF byPhy # {} THEN
                 IF \A a \in byPhy : a[1] = idx THEN LoadCpus(cs, list, i + 1)   \* duplicate, ignored
                 ELSE [cs EXCEPT !.ok = FALSE]                                    \* mismatch index
            ELSE IF byIdx # {} THEN [cs EXCEPT !.ok = FALSE]                      \* index redefined
            ELSE IF phy < 0 THEN [cs EXCEPT !.ok = FALSE]
            ELSE LoadCpus([cs EXCEPT !.set = cs.set \cup {<<idx, phy>>}], list, i + 1)

MergeOne(st, m) ==
   IF ~st.ok THEN st
   ELSE
   LET l == m.loom
       looms1 == IF l \in Range(st.looms) THEN st.looms ELSE Append(st.looms, l)
       cs0 == [ok |-> TRUE, set |-> IF Has(st.cpus, l) THEN st.cpus[l] ELSE {}]
       cs == LoadCpus(cs0, m.cpus, 1)
       pk == <<l, m.pid>>
       p0 == IF Has(st.procs, pk) THEN st.procs[pk] ELSE [app |-> 0, rank |-> -1, nranks |-> 0]
       \* load_appid
       appBad == m.app # 0 /\ ((p0.app # 0 /\ p0.app # m.app) \/ m.app <= 0)
       p1 == IF m.app # 0 THEN [p0 EXCEPT !.app = m.app] ELSE p0
       \* load_rank ("fix: emu: merge the rank and the rank count of a process independently")
       rankBad == \/ (m.rank # -1 /\ (m.rank < 0 \/ (p1.rank >= 0 /\ p1.rank # m.rank)))
                  \/ (m.nranks # 0 /\ (m.nranks < 0 \/ (p1.nranks > 0 /\ p1.nranks # m.nranks)))
       p2 == [p1 EXCEPT !.rank = IF m.rank # -1 THEN m.rank ELSE @,
                        !.nranks = IF m.nranks # 0 THEN m.nranks ELSE @]
       tk == <<l, m.pid, m.tid>>
   IN
   IF ~cs.ok \/ appBad \/ rankBad \/ tk \in st.tids THEN [st EXCEPT !.ok = FALSE]
   ELSE [ok |-> TRUE, looms |-> looms1, procs |-> Put(st.procs, pk, p2),
         cpus |-> Put(st.cpus, l, cs.set), tids |-> st.tids \cup {tk}]

RECURSIVE Fold(_, _, _)
Fold(st, S, i) == IF i > Len(S) THEN st ELSE Fold(MergeOne(st, S[i]), S, i + 1)

\* set_sort_criteria / loom_set_rank_min / *_init_end
InitEndOk(st) ==
   /\ \A pk \in DOMAIN st.procs : st.procs[pk].app > 0
   /\ \A pk \in DOMAIN st.procs :         \* proc_init_end: a rank needs a rank count that contains it
        st.procs[pk].rank >= 0 => (st.procs[pk].nranks > 0 /\ st.procs[pk].rank < st.procs[pk].nranks)
   /\ \A l \in Range(st.looms) :
        LET P == st.cpus[l]
            procs == {pk \in DOMAIN st.procs : pk[1] = l}
            some == \E pk \in procs : st.procs[pk].rank >= 0 IN
        /\ P # {}
        /\ \A a \in P : a[1] < Cardinality(P)
        /\ \A a, b \in P : a[1] = b[1] => a = b
        /\ some => \A pk \in procs : st.procs[pk].rank >= 0

ImplVerdict(S) == LET st == Fold(St0, S, 1) IN
                  IF st.ok /\ InitEndOk(st) THEN "ok" ELSE "reject"

\* the implementation computes the same rows from its merged tables: the
\* sorts are total orders on the merged data except for equal keys
ImplAgrees(S) ==
   LET e == Expected(S) IN
   CASE e.verdict = "reject" -> ImplVerdict(S) = "reject"
     [] e.verdict = "ok" -> ImplVerdict(S) = "ok"
     [] OTHER -> TRUE
=============================================================================
