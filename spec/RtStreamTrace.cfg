SPECIFICATION TSpec
CONSTANTS
  CAP = 2097152
  Reserve = TRUE
  PaySizes = {}
  JumboSizes = {}
  MaxCalls = 0
INVARIANTS Fidelity OnlyMarkers HeaderFirst Tiling BufferBound ClockMonotone FlushPaired NoNestedFlush
POSTCONDITION Report
CHECK_DEADLOCK FALSE
