SPECIFICATION BSpec
CONSTANTS
  Window = 16
  Stride = 100
  Variant = "deadoptional"
INVARIANTS TruncLosesEnd
CHECK_DEADLOCK FALSE
