SPECIFICATION FSpec
CONSTANTS
  Threads = {1, 2, 3}
  Programs = {}
  AtomicCas = TRUE
CONSTRAINT Consistent
CONSTRAINT Note
INVARIANTS InitOnce FiniOnce
POSTCONDITION Report
CHECK_DEADLOCK FALSE
