SPECIFICATION GSpec
CONSTANTS
  Threads = {1, 2, 3}
  Programs <- RaceProgs
  AtomicCas = TRUE
CONSTRAINT Export
CHECK_DEADLOCK FALSE
