"""C03: the emulator replays all streams as one time-ordered, loss-free sequence.

Design level (TLC):
  PlayerHeap   HeapPlayer (player.c + heap.h + stream_step) => Merge for all
               sorted streams over the clock values, structural invariants of
               the pointer heap (PtrHeap.tla), per-loom clock offsets
  HeapOps      the pointer heap alone under all insert/pop sequences
  PlayerMerge  the property layer itself (non-decreasing, per-stream order,
               exactly once, output times)
  PlayerEnum   whole replays as a function of the directory enumeration order
  + the negative configurations of each, which TLC must refute.

Bound to the code:
  heap      TLC-exported op sequences replayed on the real heap.h by
            drivers/heapharness.c; popped key / size against what the property
            layer demands (exported by TLC), pointer structure against the
            implementation layer (faithfulness of the model, informative)
  replay    TLC-exported systems (streams, looms, offset tables) written as
            real trace directories in several creation orders (tmpfs lists in
            reverse creation order) and under an nftw-permuting shim, replayed
            by ovnidump / ovnitop / ovniemu; the observed order and the times
            of thread.prv are validated against Merge by PlayerTrace.tla and
            the outputs of all enumeration orders must be identical.

No expected value is computed here: this module encodes inputs, runs the
tools and projects what they print.
"""
import json
import os
import random
import re
import shutil
import struct
import subprocess
import tempfile
from concurrent.futures import ThreadPoolExecutor

from vlib import core, obs, emu, tv

BASE = 1000          # raw clock origin on disk (model clock c is written as BASE + c)
MARK_TYPE = 1
PRV_MARK = 100 + MARK_TYPE
NNODES = 7           # MaxNodes of the HeapOps export configurations

# --------------------------------------------------------------------------
# TLC jobs

POS = {
    "quick": [
        ("PlayerHeap", "PlayerHeap.cfg", 6, "HeapPlayer => Merge, 4 streams of any length, 2 looms, clocks 0..3, offsets {-2,0,3}"),
        ("PlayerHeap", "PlayerHeap_N5.cfg", 3, "HeapPlayer => Merge, 5 streams of any length, 1 loom"),
        ("HeapOps", "HeapOps.cfg", 3, "pointer heap, every reachable heap of <= 7 nodes, keys {0,1}"),
        ("PlayerMerge", "PlayerMerge.cfg", 2, "Merge (property layer), 3 streams, <= 2 events, clocks 0..2, offsets {-2,0}"),
        ("PlayerEnum", "PlayerEnum.cfg", 2, "whole replay x enumeration orders, 3 streams, <= 2 events, offsets {-2,0}"),
    ],
    "thorough": [
        ("PlayerHeap", "PlayerHeap_Thorough.cfg", 8, "HeapPlayer => Merge, 5 streams of any length, 2 looms, clocks 0..3, offsets {-2,0,3}"),
        ("PlayerHeap", "PlayerHeap_N6.cfg", 4, "HeapPlayer => Merge, 6 streams of any length, 2 looms, clocks 0..2, offsets {-2,0}"),
        ("HeapOps", "HeapOps_Thorough.cfg", 5, "pointer heap, every reachable heap of <= 7 nodes, keys 0..2"),
        ("HeapOps", "HeapOps_Thorough6.cfg", 3, "pointer heap, every reachable heap of <= 6 nodes, keys 0..3"),
        ("PlayerMerge", "PlayerMerge_Thorough.cfg", 2, "Merge (property layer), 3 streams, <= 2 events, clocks 0..2, offsets {-2,0,3}"),
        ("PlayerEnum", "PlayerEnum_Thorough.cfg", 3, "whole replay x enumeration orders, 3 streams, <= 2 events, offsets {-2,0,3}"),
    ],
}

NEG = [
    ("PlayerHeap", "PlayerHeap_Neg_nosift.cfg", "heap_pop_max without heap_max_heapify"),
    ("PlayerHeap", "PlayerHeap_Neg_wrongchild.cfg", "heap_max_heapify compares the right child with the parent only"),
    ("PlayerHeap", "PlayerHeap_Neg_relink.cfg", "heap_insert forgets to re-link a swapped subtree"),
    ("PlayerHeap", "PlayerHeap_Neg_popfirst.cfg", "player_step pops before re-inserting the stepped stream"),
    ("PlayerHeap", "PlayerHeap_Neg_rawkey.cfg", "heap keyed by the raw clock (offset not applied)"),
    ("PlayerHeap", "PlayerHeap_Neg_wrongsign.cfg", "clock offset applied with the wrong sign"),
    ("PlayerHeap", "PlayerHeap_Neg_firstloaded.cfg", "firstclock taken from the first loaded stream"),
    ("HeapOps", "HeapOps_Neg_relink.cfg", "heap_insert forgets to re-link a swapped subtree"),
    ("HeapOps", "HeapOps_Neg_nosift.cfg", "heap_pop_max without heap_max_heapify"),
    ("HeapOps", "HeapOps_Neg_wrongchild.cfg", "heap_max_heapify compares the right child with the parent only"),
    ("PlayerMerge", "PlayerMerge_Neg.cfg", "a merge that may pick any stream"),
    ("PlayerEnum", "PlayerEnum_Neg_nosort.cfg", "stream list not sorted by path"),
]


def tlc_jobs(tier):
    jobs = []
    for mod, cfg, w, label in POS[tier]:
        jobs.append({"kind": "pos", "mod": mod, "cfg": cfg, "w": w, "label": label, "kw": {}})
    th = tier != "quick"
    jobs.append({"kind": "export", "name": "heap_short", "mod": "HeapOps",
                 "cfg": "HeapOps_Export_Thorough.cfg" if th else "HeapOps_Export.cfg", "w": 3,
                 "label": "all op sequences of %d ops, keys 0..3" % (7 if th else 6), "kw": {}})
    jobs.append({"kind": "export", "name": "heap_filldrain", "mod": "HeapOps",
                 "cfg": "HeapOps_FillDrain_Thorough.cfg" if th else "HeapOps_FillDrain.cfg", "w": 3,
                 "label": "all fill (<= 7 inserts) then drain sequences", "kw": {}})
    jobs.append({"kind": "export", "name": "heap_walk", "mod": "HeapOps", "cfg": "HeapOps_Walk.cfg", "w": 2,
                 "label": "random walks of 40 ops", "kw": {"simulate": 400 if th else 60, "depth": 41,
                                                          "seed_": core.seed()}})
    jobs.append({"kind": "export", "name": "sys_small", "mod": "PlayerEnum", "cfg": "PlayerEnum_Export.cfg", "w": 2,
                 "label": "every system of <= 3 streams, <= 2 events, clocks 0..2, offsets {-2,0,3}", "kw": {}})
    jobs.append({"kind": "export", "name": "sys_walk", "mod": "PlayerEnum", "cfg": "PlayerEnum_Gen.cfg", "w": 2,
                 "label": "random systems of <= 5 streams, <= 4 events, clocks 0..3",
                 "kw": {"simulate": 1500 if th else 250, "depth": 40, "seed_": core.seed()}})
    for mod, cfg, label in NEG:
        jobs.append({"kind": "neg", "mod": mod, "cfg": cfg, "w": 2, "label": label, "kw": {}})
    return jobs


def run_tlc(jobs, tier):
    def one(j):
        for attempt in (1, 2):
            j["r"] = core.tlc(j["mod"], j["cfg"], workers=j["w"], timeout=3400, **j["kw"])
            # a TLC *failure* (not a verdict), e.g. its scratch directory vanished: once more
            if not (j["r"].error and not j["r"].violated and j["r"].error != "timeout"):
                break
            core.log("[C03] TLC failed on %s (%s), attempt %d" % (j["cfg"], str(j["r"].error)[:200], attempt))
        return j
    # heavy jobs first; 16 cores shared by the JVMs
    order = sorted(jobs, key=lambda j: -j["w"])
    with ThreadPoolExecutor(max_workers=7 if tier == "quick" else 5) as ex:
        list(ex.map(one, order))
    return jobs


# --------------------------------------------------------------------------
# heap replay

def ops_line(seq):
    return " ".join(("i %d" % e[1]) if e[0] == "i" else "p" for e in seq)


def heap_replay(ck, bdir, seqs):
    """seqs: TLC lines, each a list of [op, k, want, got, node, size, struct]."""
    drv = core.cc_driver(bdir, "heapharness.c", emu=True)
    uniq = {}
    for s in seqs:
        if isinstance(s, list) and s:
            uniq.setdefault(ops_line(s), s)
    keys = sorted(uniq)
    d = core.mkscratch("heap")
    stats = {"sequences": len(keys), "ops": 0, "pops": 0, "structure_identical_ops": 0,
             "structure_different_ops": 0, "crashed_sequences": 0, "max_size": 0}
    try:
        path = os.path.join(d, "ops.txt")
        with open(path, "w") as f:
            for k in keys:
                f.write(k + "\n")
        observed = {}
        first = 0
        crashes = []
        while first < len(keys):
            rc, out, err = core.run([drv, path, str(first), str(NNODES)], timeout=300)
            lines = out.decode("latin1").splitlines()
            for i, ln in enumerate(lines):
                try:
                    observed[first + i] = json.loads(ln)
                except ValueError:
                    raise core.MachineryError("heapharness printed garbage: %r" % ln[:200])
            if rc == 0:
                if first + len(lines) != len(keys):
                    raise core.MachineryError("heapharness: %d lines for %d sequences" % (first + len(lines), len(keys)))
                break
            if rc == 2:
                raise core.MachineryError("heapharness usage/IO error: %s" % err.decode("latin1")[-300:])
            # the sequence after the last complete line killed the process
            bad = first + len(lines)
            crashes.append((bad, rc, err.decode("latin1")[-400:]))
            first = bad + 1
            if len(crashes) >= 25:
                break
        stats["crashed_sequences"] = len(crashes)
        for bad, rc, errtxt in crashes:
            what = ("real heap (src/include/heap.h) crashed or hung (status %s) on the op sequence:\n%s\n%s"
                    % ("timeout" if rc is None else rc, keys[bad], errtxt))
            ck.violation(what, {"ops.txt": keys[bad] + "\n", "stderr.txt": errtxt}, sig="heap-crash")
        for i, k in enumerate(keys):
            want = uniq[k]
            got = observed.get(i)
            nontriv = sum(1 for e in want if e[0] == "p" and e[2] >= 0) > 0
            ck.case("heap:" + k, nontrivial=nontriv)
            if got is None:
                continue
            if len(got) != len(want):
                raise core.MachineryError("heapharness: op count mismatch on %r" % k)
            for n, (w, o) in enumerate(zip(want, got)):
                stats["ops"] += 1
                stats["max_size"] = max(stats["max_size"], w[5])
                prob = None
                if w[0] == "p":
                    stats["pops"] += 1
                    if o[2] != w[2]:
                        prob = ("heap_pop_max returned key %s, the minimum of the heap is %s"
                                % ("NULL" if o[2] < 0 else o[2], "none (empty heap)" if w[2] < 0 else w[2]))
                if prob is None and o[4] != w[5]:
                    prob = "heap size is %d, the heap holds %d elements" % (o[4], w[5])
                if prob:
                    what = ("real heap (src/include/heap.h): %s after op #%d of the sequence:\n%s"
                            % (prob, n + 1, k))
                    ck.violation(what, {"ops.txt": k + "\n", "observed.json": got, "model.json": want},
                                 sig="heap-order")
                    break
                if o[3] == w[4] and o[5] == w[6]:
                    stats["structure_identical_ops"] += 1
                else:
                    stats["structure_different_ops"] += 1
                    if stats["structure_different_ops"] <= 3:
                        core.log("[C03] note: pointer structure of the real heap differs from PtrHeap.tla after op #%d "
                                 "of %r: real %s model %s" % (n + 1, k, o[5], w[6]))
    finally:
        shutil.rmtree(d, ignore_errors=True)
    return stats


# --------------------------------------------------------------------------
# end-to-end replay

def loom_name(l, sysd=None, proc=0):
    # looms that share a host: "nodeH.<l>" (the offset table is keyed by host = name before the first dot)
    if sysd is not None and sysd.get("_samehost"):
        return "nodeH.%d" % l
    # _split: the model loom is the HOST; every process of it is a loom of its own ("node<l>.p<k>", one loom
    # per MPI process), and every process carries a rank, placed round-robin over the hosts
    if sysd is not None and sysd.get("_split"):
        return "node%d.p%d" % (l, proc)
    return "%s.x" % host_name(l, sysd)


def host_name(l, sysd=None):
    # _prefixhost: the name of one host is a proper prefix of the name of the next ("node1", "node10", "node100")
    if sysd is not None and sysd.get("_prefixhost"):
        return "node1" + "0" * (l - 1)
    return "node%d" % l


def K(sysd):
    """clock scale of the materialised trace: model clock c is written as (BASE + c) * K (and offsets as o * K);
    a large K makes neighbouring events seconds apart (more than 2^31 ns), as in long real traces"""
    return sysd.get("_scale", 1)


def layout(sysd):
    """Names of the streams; the order of the relative paths is the order of
    the stream indices of the model (loom, then proc, then thread)."""
    out = []
    per = {}
    tot = {}
    for l in sysd["loom"]:
        tot[l] = tot.get(l, 0) + 1
    split = bool(sysd.get("_split"))
    for i, l in enumerate(sysd["loom"], 1):
        j = per.get(l, 0)
        per[l] = j + 1
        pid = 1000 * l + 1 + j // 2
        tid = 100 + i
        out.append({"i": i, "loom": l, "pid": pid, "tid": tid, "cpu": j, "app": 10 * l + 1 + j // 2,
                    "first_of_loom": j == 0, "ncpus": tot[l], "proc": j // 2 if split else 0,
                    "rel": "loom.%s/proc.%d/thread.%d" % (loom_name(l, sysd, j // 2), pid, tid)})
    if split:
        procs = sorted({(st["proc"], st["loom"]) for st in out})      # round-robin over the hosts
        for st in out:
            mates = [x for x in out if (x["loom"], x["proc"]) == (st["loom"], st["proc"])]
            st["cpu"] = mates.index(st)
            st["first_of_loom"] = st["cpu"] == 0
            st["ncpus"] = len(mates)
            st["rank"] = procs.index((st["proc"], st["loom"]))
            st["nranks"] = len(procs)
    return out


def stream_bytes(st, clocks, k_=1):
    if not clocks:
        return b""                      # header only: a stream with zero events
    b = obs.ev("OHx", (BASE + clocks[0]) * k_, struct.pack("<iiQ", st["cpu"], st["tid"], 0))
    for k, c in enumerate(clocks, 1):
        b += obs.ev("OM=", (BASE + c) * k_, struct.pack("<qi", 100 * st["i"] + k, MARK_TYPE))
    b += obs.ev("OHe", (BASE + clocks[-1]) * k_)
    return b


def offsets_table(sysd):
    txt = _offsets_table(sysd)
    # _nonewline: the last line of the table has no line terminator (a table written by hand or cut by a tool)
    return txt[:-1] if sysd.get("_nonewline") and txt.endswith("\n") else txt


def _offsets_table(sysd):
    looms = sorted(set(sysd["loom"]))
    txt = "rank       hostname             offset_median        offset_mean          offset_std\n"
    if sysd.get("_samehost"):
        # one row for the host shared by all the looms (they have the same offset in this system)
        o = sysd["off"][looms[0] - 1] * K(sysd)
        return txt + "%-10d %-20s %-20d %-20.6f %-20.6f\n" % (0, "nodeH", o, 500.25 - 3 * o, 3.5)
    for r, l in enumerate(looms):
        o = sysd["off"][l - 1] * K(sysd)
        # only the median is the offset; mean and deviation are made unrelated on purpose.
        # The median is a real number for the parser: some tables spell it in exponent or fixed notation
        med = {"exp": "%.12e" % o, "fix": "%.3f" % o}.get(sysd.get("_offfmt"), "%d" % o)
        txt += "%-10d %-20s %-20s %-20.6f %-20.6f\n" % (r, host_name(l, sysd), med, 500.25 * (r + 1) - 3 * o, 3.5 + r)
        if sysd.get("_blankline") and r == 0:
            txt += "   \t \n"          # a line with blanks only (hand-edited tables, CRLF files)
    return txt


def materialise(root, sysd, order, table_in_dir):
    lay = layout(sysd)
    for idx in order:
        st = lay[idx]
        extra = {}
        if st["i"] == 1:
            extra = {"ovni.mark.%d.title" % MARK_TYPE: "event id",
                     "ovni.mark.%d.chan_type" % MARK_TYPE: "single"}
        cpus = [(j, 10 * st["loom"] + j) for j in range(st["ncpus"])] if st["first_of_loom"] else None
        meta = obs.thread_meta(st["tid"], st["pid"], loom_name(st["loom"], sysd, st["proc"]), app_id=st["app"],
                               cpus=cpus, extra=extra, rank=st.get("rank"), nranks=st.get("nranks"))
        obs.write_stream(root, loom_name(st["loom"], sysd, st["proc"]), st["pid"], st["tid"], meta,
                         stream_bytes(st, sysd["clocks"][idx], K(sysd)))
    if table_in_dir:
        with open(os.path.join(root, "clock-offsets.txt"), "w") as f:
            f.write(offsets_table(sysd))
    if sysd.get("_emptypart"):
        # a stream that is not a thread (the emulator ignores it) and holds no event at all
        d = os.path.join(root, "loom.%s" % loom_name(lay[0]["loom"], sysd, lay[0]["proc"]), "proc.%d" % lay[0]["pid"], "aux.0")
        os.makedirs(d, exist_ok=True)
        with open(os.path.join(d, "stream.json"), "w") as f:
            json.dump({"version": 3, "ovni": {"part": "aux", "lib": {"version": "1.11.0", "commit": "x"}}}, f)
        with open(os.path.join(d, "stream.obs"), "wb") as f:
            f.write(obs.HDR)
    if sysd.get("_symlink"):
        # traces gathered from several nodes with `ln -s`: the loom (or thread) directory of the last stream
        # lives outside the trace directory and is reached through a symbolic link of the same name
        st = lay[max(order)]
        ldir = os.path.join(root, "loom.%s" % loom_name(st["loom"], sysd, st["proc"]))
        target = ldir if sysd["_symlink"] == "loom" else os.path.join(ldir, "proc.%d" % st["pid"], "thread.%d" % st["tid"])
        if os.path.isdir(target) and not os.path.islink(target):
            ext = root.rstrip("/") + ".ext"
            os.makedirs(ext, exist_ok=True)
            dst = os.path.join(ext, os.path.basename(target) + ".%d" % len(os.listdir(ext)))
            shutil.move(target, dst)
            os.symlink(dst, target)
    return lay


_SHM = None


def trace_scratch():
    """tmpfs if there is one (readdir order = reverse creation order, so the
    creation order of the stream directories is what the tools enumerate)."""
    global _SHM
    if _SHM is None:
        _SHM = ""
        try:
            with open("/proc/mounts") as f:
                for ln in f:
                    p = ln.split()
                    if len(p) > 2 and p[1] == "/dev/shm" and p[2] == "tmpfs" and os.access("/dev/shm", os.W_OK):
                        _SHM = "/dev/shm"
        except OSError:
            pass
    if _SHM:
        return tempfile.mkdtemp(prefix="verif-c03-", dir=_SHM)
    return core.mkscratch("c03")


_DUMP_RE = re.compile(r"^\s*(-?\d+)\s+(\S{3})\s+(\S+)\s*(\S*)\s*$")


def parse_dump(text, lay):
    """ovnidump -x lines of the mark events -> list of (id, raw clock)."""
    rel = {st["rel"]: st["i"] for st in lay}
    out = []
    bad = []
    for ln in text.splitlines():
        m = _DUMP_RE.match(ln)
        if not m:
            bad.append(ln)
            continue
        if m.group(2) != "OM=":
            continue
        hx = m.group(4).split(":")[1:]
        try:
            val = int.from_bytes(bytes(int(x, 16) for x in hx[:8]), "little", signed=True)
        except ValueError:
            bad.append(ln)
            continue
        out.append((val, int(m.group(1)), rel.get(m.group(3), 0)))
    return out, bad


def parse_top(text):
    for ln in text.splitlines():
        p = ln.split()
        if len(p) == 2 and p[0] == "OM=":
            return int(p[1])
    return 0


def prv_marks(path):
    p = emu.Prv(path)
    return [(v, t) for (t, row, ty, v) in p.lines if ty == PRV_MARK and v != 0], p


def sys_record(sysd, tool):
    return {"e": "sys", "tool": tool, "base": BASE, "loom": sysd["loom"], "off": sysd["off"],
            "clocks": sysd["clocks"]}


def unscale(x, sysd):
    """observed time -> model units; a time that is not a multiple of the scale cannot be a model time"""
    k_ = K(sysd)
    if k_ == 1:
        return x
    return x // k_ if x % k_ == 0 else -999


def em_record(ident, sysd, c=-1, t=-1, stream=None):
    s, k = divmod(ident, 100)
    if not (1 <= s <= len(sysd["loom"])) or k < 1 or (stream is not None and stream != s):
        s, k = 0, 0            # not an event of this trace (or printed under another stream)
    return {"e": "em", "s": s, "k": k, "c": c, "t": t}


_NOT_DEAD = re.compile(r"thread (\d+) is not dead")
_CASCADE = ("model_finish: finish failed", "emu_finish: model_finish failed", "main: emu_finish failed")


def emu_verdict_ok(r, lay, sysd):
    """Accepted, or refused at the very end only because the threads of the
    streams without events never ran (thread life-cycle, not the replay)."""
    if r.accepted:
        return True
    empty = set(st["tid"] for st, c in zip(lay, sysd["clocks"]) if not c)
    if not empty or r.rc != 1 or r.sanitizer:
        return False
    errs = [l for l in r.text.splitlines() if "ERROR" in l]
    seen = set()
    for l in errs:
        m = _NOT_DEAD.search(l)
        if m:
            seen.add(int(m.group(1)))
        elif not any(c in l for c in _CASCADE):
            return False
    return seen == empty


def differ(name, v1, v2, a, b):
    return ("%s depends on the order in which the stream directories are enumerated: [%s] and [%s] differ\n"
            "--- %s\n%s\n--- %s\n%s" % (name, v1, v2, v1, a.decode("latin1")[:1500], v2, b.decode("latin1")[:1500]),
            "enum-order")


def run_case(arg):
    bdir, shim, sysd, seed_ = arg
    rng = random.Random(seed_)
    n = len(sysd["loom"])
    ident = list(range(n))
    orders = [("sorted", ident), ("reverse", ident[::-1])]
    if n > 2:
        sh = ident[:]
        while sh == ident or sh == ident[::-1]:
            rng.shuffle(sh)
        orders.append(("shuffled", sh))
    res = {"sys": sysd, "problems": [], "executions": [], "runs": 0, "emu_refused_empty": False}
    roots = []
    ref_dump = ref_emu = None
    files = res["files"] = {"clock-offsets.txt": offsets_table(sysd)}
    try:
        for oi, (oname, order) in enumerate(orders):
            root = trace_scratch()
            roots.append(root)
            td = os.path.join(root, "ovni")
            in_dir = (oi % 2 == 0)
            lay = materialise(td, sysd, order, in_dir)
            offfile = os.path.join(root, "offsets.txt")
            with open(offfile, "w") as f:
                f.write(offsets_table(sysd))
            if oi == 0:
                for st in lay:
                    for fn in ("stream.obs", "stream.json"):
                        with open(os.path.join(td, st["rel"], fn), "rb") as f:
                            files["trace/%s/%s" % (st["rel"], fn)] = f.read()
            variants = [(oname, {})]
            if oi == 0 and shim:
                variants += [("sorted+nftw-alpha", {"LD_PRELOAD": shim, "VERIF_NFTW_ORDER": "alpha"}),
                             ("sorted+nftw-rev", {"LD_PRELOAD": shim, "VERIF_NFTW_ORDER": "rev"}),
                             ("sorted+nftw-seed", {"LD_PRELOAD": shim,
                                                   "VERIF_NFTW_ORDER": "seed:%d" % rng.randrange(1 << 30)})]
            for vname, env in variants:
                # ---- ovnidump (+ ovnitop once)
                rd = emu.runtool(bdir, "ovnidump", ["-x", td], timeout=60, env=env)
                res["runs"] += 1
                if rd.rc != 0:
                    res["problems"].append(("ovnidump failed (%s) on sorted streams [%s]: %s"
                                            % (rd.verdict, vname, rd.last_errors()), "dump-fail"))
                elif ref_dump is None:
                    ref_dump = (vname, rd.out)
                    dl, bad = parse_dump(rd.out.decode("latin1"), lay)
                    if bad:
                        raise core.MachineryError("cannot parse ovnidump output: %r" % bad[:3])
                    rt = emu.runtool(bdir, "ovnitop", [td], timeout=60)
                    res["runs"] += 1
                    top = parse_top(rt.out.decode("latin1")) if rt.rc == 0 else -1
                    if rt.rc != 0:
                        res["problems"].append(("ovnitop failed (%s): %s" % (rt.verdict, rt.last_errors()), "top-fail"))
                    ex1 = [sys_record(sysd, "dump")]
                    ex1 += [em_record(v, sysd, c=(unscale(clk, sysd) - BASE), stream=si) for (v, clk, si) in dl]
                    ex1.append({"e": "end", "top": top})
                    res["executions"].append(ex1)
                    files["ovnidump.out"] = rd.out
                elif rd.out != ref_dump[1]:
                    res["problems"].append(differ("ovnidump output", ref_dump[0], vname, ref_dump[1], rd.out))
                # ---- ovniemu
                args = ("-l",) if in_dir else ("-l", "-c", offfile)
                re_ = emu.ovniemu(bdir, td, args, timeout=60, env=env)
                res["runs"] += 1
                if not emu_verdict_ok(re_, lay, sysd):
                    res["problems"].append(("ovniemu %s refused sorted streams (%s) [%s]: %s"
                                            % (" ".join(args[:2]), re_.verdict, vname, re_.last_errors()),
                                            "emu-refused"))
                    continue
                if not re_.accepted:
                    res["emu_refused_empty"] = True
                try:
                    tprv = open(os.path.join(td, "thread.prv"), "rb").read()
                    cprv = open(os.path.join(td, "cpu.prv"), "rb").read()
                except OSError as ex:
                    res["problems"].append(("ovniemu wrote no Paraver trace [%s]: %s" % (vname, ex), "no-prv"))
                    continue
                if ref_emu is None:
                    ref_emu = (vname, tprv, cprv)
                    marks, prv = prv_marks(os.path.join(td, "thread.prv"))
                    if prv.bad:
                        res["problems"].append(("malformed lines in thread.prv: %r" % prv.bad[:2], "prv-bad"))
                    ex2 = [sys_record(sysd, "emu")]
                    ex2 += [em_record(v, sysd, t=unscale(t, sysd)) for (v, t) in marks]
                    ex2.append({"e": "end", "top": -1})
                    res["executions"].append(ex2)
                    files["thread.prv"] = tprv
                else:
                    for name, a, b in (("thread.prv", ref_emu[1], tprv), ("cpu.prv", ref_emu[2], cprv)):
                        if a != b:
                            res["problems"].append(differ(name, ref_emu[0], vname, a, b))
                            break
    finally:
        for r_ in roots:
            shutil.rmtree(r_, ignore_errors=True)
    return res


def build_shim(bdir):
    src = os.path.join(core.DRIVERS, "nftwshim.c")
    out = os.path.join(bdir, "verif-nftwshim.so")
    if not (os.path.exists(out) and os.path.getmtime(out) >= os.path.getmtime(src)):
        tmp = out + ".tmp%d" % os.getpid()
        r = subprocess.run(["gcc", "-shared", "-fPIC", "-O1", "-o", tmp, src],
                           stdout=subprocess.PIPE, stderr=subprocess.STDOUT, text=True)
        if r.returncode != 0:
            raise core.MachineryError("cannot build nftw shim:\n" + r.stdout[-2000:])
        os.replace(tmp, out)
    # the shim must really be what the tools call
    d = core.mkscratch("shim")
    try:
        sysd = {"loom": [1], "off": [0], "clocks": [[0]]}
        td = os.path.join(d, "ovni")
        materialise(td, sysd, [0], False)
        mark = os.path.join(d, "mark")
        for tool in ("ovnidump", "ovniemu"):
            if os.path.exists(mark):
                os.remove(mark)
            args = ["-x", td] if tool == "ovnidump" else ["-l", td]
            r = emu.runtool(bdir, tool, args, env={"LD_PRELOAD": out, "VERIF_NFTW_ORDER": "rev",
                                                   "VERIF_NFTW_MARK": mark})
            if not os.path.exists(mark):       # (the verdict of the tool is not the shim's business)
                raise core.MachineryError("nftw shim is not effective for %s (rc=%s): %s"
                                          % (tool, r.rc, r.text[-500:]))
    finally:
        shutil.rmtree(d, ignore_errors=True)
    return out


def keepalive(bdir):
    """core.build removes builds whose stamp is older than 10 minutes when another
    tree is built (mutation runs in parallel): keep ours fresh while TLC runs."""
    import threading

    def loop():
        import time
        while True:
            time.sleep(120)
            try:
                os.utime(os.path.join(bdir, ".ok"))
            except OSError:
                return
    threading.Thread(target=loop, daemon=True).start()


def norm_sys(o):
    return {"loom": list(o["loom"]), "off": list(o["off"]), "clocks": [list(c) for c in o["clocks"]]}


# --------------------------------------------------------------------------

def main(pid, tier):
    ck = core.Check(pid, "model_checking", tier)
    rng = random.Random(core.seed())
    bdir = core.build("hooks")
    keepalive(bdir)

    # ---- TLC: design level, negative configurations, exports
    jobs = run_tlc(tlc_jobs(tier), tier)
    bdir = core.build("hooks")       # (same tree, same directory; rebuilt if another run cleaned it away)
    shim = build_shim(bdir)
    exports = {}
    for j in jobs:
        r = j["r"]
        name = "%s/%s (%s)" % (j["mod"], j["cfg"], j["label"])
        if j["kind"] == "neg":
            ck.add_tlc(r, name + " [negative, must fail]")
            if r.error and not r.violated:
                raise core.MachineryError("TLC failed on %s: %s\n%s" % (j["cfg"], r.error, r.out[-1500:]))
            if not r.violated:
                raise core.MachineryError("negative configuration %s no longer fails: the model is vacuous" % j["cfg"])
            continue
        core.tlc_expect_ok(r, j["cfg"])
        ck.add_tlc(r, name)
        if r.violated:
            ck.violation("model %s/%s violates %s (the model mirrors src/emu/player.c and src/include/heap.h)"
                         % (j["mod"], j["cfg"], r.violated), {"tlc.out": r.out[-20000:]}, sig="model")
        if j["kind"] == "export":
            lines = [o for tg, o in r.lines if not isinstance(o, str)]
            if not lines:
                raise core.MachineryError("nothing exported by %s:\n%s" % (j["cfg"], r.out[-1500:]))
            exports[j["name"]] = lines
    ck.phase("tlc")

    # ---- the real heap
    seqs = exports["heap_short"] + exports["heap_filldrain"] + exports["heap_walk"]
    hs = heap_replay(ck, bdir, seqs)
    ck.notes["heap_replay"] = hs
    ck.phase("heap_replay")

    # ---- the real tools
    small = {json.dumps(norm_sys(o), sort_keys=True) for o in exports["sys_small"]}
    walk = {json.dumps(norm_sys(o), sort_keys=True) for o in exports["sys_walk"]}
    small = sorted(small)
    walk = sorted(walk - set(small))
    rng.shuffle(small)
    rng.shuffle(walk)
    nsmall, nwalk = (700, 500) if tier == "quick" else (9000, 5000)
    cases = [json.loads(s) for s in small[:nsmall] + walk[:nwalk]]
    ck.notes["systems"] = {"exported_small": len(small), "exported_walks": len(walk), "replayed": len(cases),
                           "trace_dirs_on": "tmpfs /dev/shm" if trace_scratch_kind() else "scratch (creation order may not matter)"}
    # materialisation variants (harness-only keys, the model system is unchanged):
    #  _scale    : every third system is written with clocks and offsets multiplied by 1.1e9, so that
    #              neighbouring events are seconds apart (> 2^31 ns) as in long real traces
    #  _samehost : systems whose looms all have the same offset are also written with the looms on ONE
    #              host ("nodeH.1", "nodeH.2": one row of the offset table serves both)
    extra_cases = []
    for i, c in enumerate(cases):
        if i % 3 == 1:
            c["_scale"] = 1100000000
        offs = [c["off"][l - 1] for l in sorted(set(c["loom"]))]
        if len(offs) >= 2 and len(set(offs)) == 1 and offs[0] != 0 and len(extra_cases) < (150 if tier == "quick" else 3000):
            c2 = json.loads(json.dumps(c))
            c2["_samehost"] = True
            extra_cases.append(c2)
    #  _split    : systems with a host of two processes and another host with a different offset are also
    #              written with one loom per process and ranks placed round-robin over the hosts (the looms
    #              of one host are then not neighbours in the rank order the emulator sorts them by)
    nsplit = 0
    for c in cases:
        ls = c["loom"]
        if (max(ls.count(l) for l in set(ls)) >= 3 and len(set(ls)) >= 2 and len({c["off"][l - 1] for l in set(ls)}) >= 2
                and nsplit < (150 if tier == "quick" else 3000)):
            c2 = json.loads(json.dumps(c))
            c2.pop("_scale", None)
            c2["_split"] = True
            extra_cases.append(c2)
            nsplit += 1
    ck.notes["systems"]["one_loom_per_process_round_robin_ranks"] = nsplit
    #  _offfmt   : notation of the offsets in the table (integer as ovnisync writes it / exponent / fixed)
    for i, c in enumerate(cases):
        if i % 4 == 1:
            c["_offfmt"] = "exp"
        elif i % 4 == 3:
            c["_offfmt"] = "fix"
    #  _blankline: a whitespace-only line after the first row of the offset table
    for i, c in enumerate(cases):
        if i % 5 == 3:
            c["_blankline"] = True
    #  _prefixhost: host names one of which is a prefix of the other (node1 / node10)
    for i, c in enumerate(cases):
        if i % 4 == 2 and len(set(c["loom"])) >= 2:
            c["_prefixhost"] = True
    #  _nonewline: no line terminator after the last row of the table
    for i, c in enumerate(cases):
        if i % 7 == 5:
            c["_nonewline"] = True
    #  _emptypart: an additional stream that is not a thread and has no events
    for i, c in enumerate(cases):
        if i % 6 == 4:
            c["_emptypart"] = True
    #  _symlink  : the loom / thread directory of one stream is a symbolic link to a directory elsewhere
    nsl = 0
    for i, c in enumerate(cases):
        if i % 5 == 2 and len(c["loom"]) >= 2:
            c["_symlink"] = "loom" if (i // 5) % 2 == 0 else "thread"
            nsl += 1
    ck.notes["systems"]["with_a_symlinked_directory"] = nsl
    cases += extra_cases
    ck.notes["systems"]["scaled_clocks"] = sum(1 for c in cases if c.get("_scale"))
    ck.notes["systems"]["looms_sharing_a_host"] = len(extra_cases) - nsplit
    args = [(bdir, shim, c, core.seed() * 1000003 + i) for i, c in enumerate(cases)]
    results = core.pmap(run_case, args, workers=core.NCPU)
    ck.phase("replay")

    executions = []
    owner = []
    for i, r_ in enumerate(results):
        for ex in r_["executions"]:
            executions.append(ex)
            owner.append(i)
    tvr = tv.validate("PlayerTrace", "PlayerTrace.cfg", executions, None,
                      chunk=max(40, len(executions) // 14 + 1), parallel=14)
    ck.phase("trace_validation")
    ck.cov["traces_validated_against_impl"] = len(tvr.accepted)
    ck.cov["states"] += tvr.states
    ck.cov["transitions"] += tvr.generated
    ck.notes["trace_validation"] = {"executions": len(executions), "accepted": len(tvr.accepted),
                                    "rejected": len(tvr.rejected), "tlc_runs": tvr.tlc_runs}
    nruns = 0
    nempty_refused = 0
    for r_ in results:
        s = r_["sys"]
        nonempty = sum(1 for c in s["clocks"] if c)
        ck.case("sys:" + json.dumps(s, sort_keys=True), nontrivial=nonempty >= 2)
        nruns += r_["runs"]
        nempty_refused += 1 if r_["emu_refused_empty"] else 0
        for what, sig in r_["problems"]:
            bundle = dict(r_["files"] or {})
            bundle["system.json"] = s
            ck.violation("%s\nsystem (model clocks, written as %d + c): %s" % (what, BASE, json.dumps(s)),
                         bundle, sig=sig)
    for (xi, line, rec, tail, violated) in tvr.rejected:
        r_ = results[owner[xi]]
        ex = executions[xi]
        tool = ex[0]["tool"]
        what = ("replay by %s is not a run of Merge: record #%d %s cannot be explained%s\n"
                "system (model clocks, written as %d + c): %s\nobserved replay: %s"
                % ("ovnidump" if tool == "dump" else "ovniemu -l", line, json.dumps(rec),
                   (" (invariant %s)" % violated) if violated else "", BASE, json.dumps(r_["sys"]),
                   json.dumps([[e["s"], e["k"], e["c"] if tool == "dump" else e["t"]] for e in ex[1:-1]])))
        bundle = dict(r_["files"] or {})
        bundle["system.json"] = r_["sys"]
        bundle["execution.ndjson"] = "\n".join(json.dumps(x) for x in ex) + "\n"
        bundle["tlc_tail.txt"] = tail
        ck.violation(what, bundle, sig="replay-order-" + tool)
    ck.notes["tool_runs"] = nruns
    ck.notes["systems_with_empty_streams_refused_at_finish_only"] = nempty_refused
    for r_ in results[:2] + results[-2:]:
        for ex in r_["executions"]:
            if ex[0]["tool"] == "emu":
                ck.sample({"system": r_["sys"], "ovniemu_replay": [[e["s"], e["k"], e["t"]] for e in ex[1:-1]]})
    ck.assumptions += [
        "corrected clocks are non-negative (raw clocks are written as %d + c; stream_step compares the first "
        "corrected clock with lastclock = 0 and would refuse a negative one)" % BASE,
        "ovnidump/ovnitop never load an offset table: for them every offset is zero (scope note of the design)",
        "a thread whose stream has no events is refused by ovniemu at finish ('is not dead', thread life-cycle); "
        "its Paraver trace is still written and is what is validated",
        "HeapPlayer is checked against streams revealed one event at a time (any length), clocks and offsets "
        "within the stated sets; TLC results are exhaustive within those constants",
        "stream index order = order of the relative paths (names chosen by the harness: loom, proc, thread)"]
    return ck.finish(rule="cases = (a) TLC-exported insert/pop sequences replayed on the real heap.h (non-trivial = at "
                          "least one pop of a non-empty heap; distinct by op sequence) and (b) TLC-exported systems "
                          "(streams, looms, offsets) replayed by ovnidump/ovnitop/ovniemu in 3 directory creation orders "
                          "and 3 nftw enumeration orders (non-trivial = at least two streams with events; distinct by system)")


def trace_scratch_kind():
    d = trace_scratch()
    shutil.rmtree(d, ignore_errors=True)
    return bool(_SHM)
