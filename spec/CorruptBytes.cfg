SPECIFICATION BSpec
CONSTANTS
  Window = 16
  Stride = 100
  Variant = "code"
INVARIANTS TruncLosesEnd ExportInv
CHECK_DEADLOCK FALSE
