SPECIFICATION CSpec
CONSTANTS
  Variant = "ok"
  MaxLen = 8
  MaxOpen = 1
VIEW CView
INVARIANT ProbeConsistent
ACTION_CONSTRAINT Export
POSTCONDITION Post
CHECK_DEADLOCK FALSE
