---------------------------- MODULE OvniSortTrace ----------------------------
(* Trace validation for C16 (recorded direction).  Each line of the ndjson log
   is one recorded run of the real `ovnisort -n <ring>` on a (random) stream:

     n     ring size given with -n
     k, c  kinds ("n","b","e","j") and clocks of the input events, in file order
     off   byte offset of every input event in stream.obs, plus the file size
     oid   for every event of the output file, in file order, the index of the
           input event with the same bytes (0 = no such input event)
     st    "ok" exit 0 | "fail" exit 1 | "die" abort | "other"; msg: stderr
           carries an ERROR/FATAL line
     fszo  size of the output file; fdiff: offset of the first byte that
           differs between input and output file (-1: identical)
     chk   verdict of `ovnisort -c` on the output ("ok"/"fail")
     st2, same2   second `ovnisort` run (status, file unchanged), "na" if not run
     emu   verdict of `ovniemu -l` on the output ("ok"/"fail"/"na")

   The property-layer operators of OvniSort.tla are evaluated on the pair
   (in, out); a line is consumed only if every clause holds.  A rejected line
   prints the names of the clauses that failed.                             *)
EXTENDS OvniSort, Json, IOUtils

Log == ndJsonDeserialize(IOEnv.TRACE)

VARIABLE l

InOf(r) == [i \in 1..Len(r.k) |->
              [id |-> i, clk |-> r.c[i], k |-> r.k[i], sz |-> r.off[i + 1] - r.off[i]]]

Clause(name, holds) == IF holds THEN {} ELSE {name}

Failed(r) ==
   LET input == InOf(r)
       N == Len(input)
       valid == Len(r.oid) = N /\ \A j \in 1..N : r.oid[j] \in 1..N
       out == IF valid THEN [j \in 1..N |-> input[r.oid[j]]] ELSE <<>>
       oru == OnlyRegionsUnsorted(input)
       fm == FirstMoved(input)
   IN  Clause("events-lost-or-altered", valid /\ Permutation(input, out))
       \cup Clause("file-size-changed", r.fszo = r.off[N + 1])
       \cup Clause("prefix-touched", /\ valid => PrefixUntouched(input, out)
                                     /\ (r.fdiff = -1 \/ r.fdiff >= r.off[fm]))
       \cup Clause("bad-exit", r.st \in {"ok", "fail", "die"})
       \cup Clause("silent-failure", r.st \in {"fail", "die"} => r.msg)
       \cup Clause("verdict", valid => Verdict(input, r.n, r.st, out))
       \cup Clause("check-mode-disagrees",
                   (valid /\ r.chk # "na") => ((r.chk = "ok") <=> CheckModePasses(out)))
       \cup Clause("not-idempotent",
                   (oru /\ r.st = "ok") => /\ r.same2 /\ r.st2 \in {"ok", "fail"}
                                           /\ (valid /\ WithinLookBack(out, r.n)) => r.st2 = "ok")
       \cup Clause("emulator-rejects",
                   (oru /\ r.st = "ok" /\ EmuShape(input)) => r.emu = "ok")

TInit == l = 1 /\ in = <<>> /\ s = ImplInit(2, <<>>)
TNext == /\ l <= Len(Log)
         /\ LET f == Failed(Log[l]) IN
            \/ f = {} /\ l' = l + 1 /\ UNCHANGED <<in, s>>
            \/ f # {} /\ PrintT(<<"REJECT", l, f>>) /\ FALSE /\ UNCHANGED <<in, s, l>>
TSpec == TInit /\ [][TNext]_<<in, s, l>>

Accepted == TLCGet("stats").diameter - 1 = Len(Log)
Report == PrintT(<<"CONSUMED", TLCGet("stats").diameter - 1, Len(Log)>>) /\ Accepted
=============================================================================
