------------------------------ MODULE EmuCore ------------------------------
(* Reference semantics of the emulator's thread / CPU layer
   (src/emu/ovni/event.c, thread.c, cpu.c) - property layer for C04, C05
   and the state every other model builds on.

   The system (looms, processes, threads, CPUs) is a *variable* so that
   trace validation can concatenate executions over different systems.

     sys.threads : sequence of [tid, pid, app, loom]      (index = thread id)
     sys.cpus    : sequence of [loom, idx, phy, virt]     (index = cpu id;
                   idx = the per-loom CPU index used in event payloads,
                   -1 for the loom's virtual CPU)

   An event is a record [th |-> thread id, m |-> "OHx", a |-> <<args>>].
   `a` holds the decoded payload integers (its length models the payload
   size the handlers check).                                             *)
EXTENDS Naturals, Integers, Sequences, FiniteSets

VARIABLES sys,       \* the system being emulated
          thState,   \* [thread -> "unknown"|"running"|"paused"|"dead"|"cooling"|"warming"]
          thCpu,     \* [thread -> cpu id | 0]
          ooc,       \* [thread -> BOOLEAN]  out of CPU (kernel model)
          failed,    \* the emulator has rejected an event (emu_step failed)
          unspec     \* a step whose outcome no property defines was taken

coreVars == <<sys, thState, thCpu, ooc, failed, unspec>>

NT == Len(sys.threads)
NC == Len(sys.cpus)
Threads == 1..NT
Cpus    == 1..NC

States == {"unknown", "running", "paused", "dead", "cooling", "warming"}
\* enum thread_state, the value shown in the thread-state timeline (type 4)
StateCode(s) == CASE s = "unknown" -> 0 [] s = "running" -> 1 [] s = "paused" -> 2
                  [] s = "dead" -> 3 [] s = "cooling" -> 4 [] s = "warming" -> 5

IsRunning(s) == s = "running"
IsActive(s)  == s \in {"running", "cooling", "warming"}

\* loom_get_cpu(loom, index): 0 if there is none
CpuByIndex(l, idx) ==
   LET S == {c \in Cpus : sys.cpus[c].loom = l /\ sys.cpus[c].idx = idx}
   IN  IF S = {} THEN 0 ELSE CHOOSE c \in S : TRUE

\* proc_find_thread then loom_find_thread
FindThread(t, tid) ==
   LET P == {u \in Threads : sys.threads[u].tid = tid /\ sys.threads[u].pid = sys.threads[t].pid
                             /\ sys.threads[u].loom = sys.threads[t].loom}
       L == {u \in Threads : sys.threads[u].tid = tid /\ sys.threads[u].loom = sys.threads[t].loom}
   IN  IF P # {} THEN CHOOSE u \in P : TRUE
       ELSE IF L # {} THEN CHOOSE u \in L : TRUE ELSE 0

\* threads bound to a CPU / running on it, for given state and binding maps
Bound(c, tc)         == {t \in Threads : tc[t] = c}
RunningOn(c, ts, tc) == {t \in Bound(c, tc) : IsRunning(ts[t])}
NRun(c, ts, tc)      == Cardinality(RunningOn(c, ts, tc))

\* cpu_update: only virtual CPUs may have more than one running thread
Oversubscribed(ts, tc) ==
   \E c \in Cpus : ~sys.cpus[c].virt /\ NRun(c, ts, tc) > 1

-----------------------------------------------------------------------------
(* Outcome of an event of the base thread/affinity categories, as a record
   [ok, un, ts, tc]: ok = accepted, un = outcome unspecified by the
   properties, ts/tc = new thread states and bindings.                   *)
Out(ok, un, ts, tc) == [ok |-> ok, un |-> un, ts |-> ts, tc |-> tc]
Reject  == Out(FALSE, FALSE, thState, thCpu)
Unspec  == Out(FALSE, TRUE, thState, thCpu)
Accept(ts, tc) == IF Oversubscribed(ts, tc) THEN Reject ELSE Out(TRUE, FALSE, ts, tc)

Legal(from, to, t) ==
   IF thState[t] \in from
   THEN Accept([thState EXCEPT ![t] = to], thCpu)
   ELSE Reject

ThreadEvent(e) ==
   LET t == e.th  s == thState[t] IN
   CASE e.m = "OHx" ->
          IF s = "running" THEN Reject
          ELSE IF Len(e.a) < 1 THEN Reject                \* payload < 4 bytes
          ELSE LET c == CpuByIndex(sys.threads[t].loom, e.a[1]) IN
               IF c = 0 THEN Reject
               ELSE IF s # "unknown" THEN Reject          \* only a thread that never ran executes (C04:
                                                          \* "execute: not started -> running"); paused/cooling/
                                                          \* warming: "already has a CPU"; dead: refused since
                                                          \* "fix: emu: refuse to execute a thread again"
               ELSE Accept([thState EXCEPT ![t] = "running"], [thCpu EXCEPT ![t] = c])
     [] e.m = "OHe" ->
          IF s \in {"running", "cooling"}
          THEN Accept([thState EXCEPT ![t] = "dead"], [thCpu EXCEPT ![t] = 0])
          ELSE Reject
     [] e.m = "OHp" -> Legal({"running", "cooling"}, "paused", t)
     [] e.m = "OHr" -> Legal({"paused", "warming"}, "running", t)
     [] e.m = "OHc" -> Legal({"running"}, "cooling", t)
     [] e.m = "OHw" -> Legal({"paused"}, "warming", t)
     [] e.m = "OHC" -> IF Len(e.a) < 2 THEN Reject       \* payload (i32 cpu, u64 tag) incomplete
                       ELSE Accept(thState, thCpu)       \* thread creation: informative only
     [] e.m = "OAs" ->
          IF thCpu[t] = 0 \/ ~IsActive(s) \/ Len(e.a) # 1 THEN Reject
          ELSE LET c == CpuByIndex(sys.threads[t].loom, e.a[1]) IN
               IF c = 0 THEN Reject
               ELSE Accept(thState, [thCpu EXCEPT ![t] = c])
     [] e.m = "OAr" ->
          IF Len(e.a) # 2 THEN Reject
          ELSE LET u == FindThread(t, e.a[2])
                   c == CpuByIndex(sys.threads[t].loom, e.a[1]) IN
               IF u = 0 THEN Reject
               ELSE IF thState[u] \in {"dead", "unknown"} \/ thCpu[u] = 0 \/ c = 0 THEN Reject
               \* a remote affinity change to the CPU the thread is already on is the identity (as the
               \* local one; the pinned code aborted on it: "fix: emu: accept a remote affinity change ...")
               ELSE Accept(thState, [thCpu EXCEPT ![u] = c])
     [] OTHER -> Reject

IsThreadEvent(m) == m \in {"OHx", "OHe", "OHp", "OHr", "OHc", "OHw", "OHC", "OAs", "OAr"}

-----------------------------------------------------------------------------
(* What the timelines must show (property layer of C04/C05): sets of cells
   <<file, entity, type, value>>, value # 0. *)
ThreadCells ==
   UNION {
     (IF thState[t] # "unknown" THEN {<<"t", t, 4, StateCode(thState[t])>>} ELSE {})
     \cup (IF IsActive(thState[t]) THEN {<<"t", t, 2, sys.threads[t].tid>>} ELSE {})
     \cup (IF thCpu[t] # 0 THEN {<<"t", t, 6, thCpu[t]>>} ELSE {})   \* value = cpu id (row of the CPU)
     : t \in Threads }

TheRunning(c) == CHOOSE t \in RunningOn(c, thState, thCpu) : TRUE

CpuCells ==
   UNION {
     LET n == NRun(c, thState, thCpu) IN
     (IF n > 0 THEN {<<"c", c, 3, n>>} ELSE {})
     \cup (IF n = 1 THEN {<<"c", c, 2, sys.threads[TheRunning(c)].tid>>,
                          <<"c", c, 1, sys.threads[TheRunning(c)].pid>>} ELSE {})
     : c \in Cpus }

AllDead == \A t \in Threads : thState[t] = "dead"

(* Invariants of the layer itself (checked by TLC on the bounded model) *)
NoPhysOversubscription == ~failed => ~Oversubscribed(thState, thCpu)
CpuIffStarted == ~failed => \A t \in Threads : (thCpu[t] # 0) <=> (thState[t] \in States \ {"unknown", "dead"})
TidShownIffActive ==
   \A t \in Threads : (<<"t", t, 2, sys.threads[t].tid>> \in ThreadCells) <=> IsActive(thState[t])
CpuMirrorsThreads ==
   \A c \in Cpus :
      /\ (\E v \in 1..NT : <<"c", c, 3, v>> \in CpuCells) <=> (RunningOn(c, thState, thCpu) # {})
      \* (thread ids are unique inside a loom only: the TID shown is the one of SOME thread running there)
      /\ \A t \in Threads : (<<"c", c, 2, sys.threads[t].tid>> \in CpuCells) =>
                               \E u \in Threads : /\ sys.threads[u].tid = sys.threads[t].tid
                                                  /\ thCpu[u] = c /\ thState[u] = "running"
=============================================================================
