------------------------------- MODULE MarkRt -------------------------------
(* Runtime side of the mark API (C17): src/rt/ovni.c:1185-1335 and
   doc/user/runtime/mark.md, plus the load side of the emulator
   (src/emu/ovni/mark.c parse_mark / add_label) that merges the definitions
   of all threads.

   A *program* is, per thread, a sequence of calls

      mark_type(t, flags, title)   mark_label(t, v, label)
      mark_push(t, v)  mark_pop(t, v)  mark_set(t, v)

   The state of a thread is what ovni_thread_free() writes under ovni.mark
   in its stream.json:  T = {<<type, chan_type, title>>},
   L = {<<type, value, label>>}, and the OM[ / OM] / OM= events it emitted
   (payload <qi = value, type).

   RtOutcome(c, s) is the property-level outcome of a call:
      "ok"          accepted, state updated / event emitted
      "refused"     must be refused: at run time (die) or, when the runtime
                    lets it through, by the emulator (the trace is rejected)
      "unspecified" the property does not say (repeating in the same thread
                    a definition with the same arguments: the documentation
                    of ovni_mark_label allows it, the code dies)
   The runtime does not look at the mark type of push/pop/set: events on an
   undefined type, with the wrong channel kind or a mismatched pop are
   refused by the emulator (EmuFull!MarkEvent), not here.

   Merge(order) is the emulator's load of the threads' definitions, thread
   after thread; the invariants state it declaratively (a conflict iff two
   threads disagree, the union otherwise, independent of the order).

   TLC explores every program within the bounds of the configuration (the
   state is the metadata + event list, programs reaching the same state are
   merged by the VIEW and one representative is kept in the ghost `prog`),
   checks the invariants and exports one program per final state with the
   expected outcome of each call, the expected metadata and events of each
   thread, the merge verdict, the mark table (sys.marks of EmuFull) and the
   PCF sections.                                                          *)
EXTENDS Integers, Sequences, FiniteSets, TLC, Json

CONSTANTS NT,            \* number of threads (one process each)
          DefCalls(_),   \* thread -> set of mark_type / mark_label calls
          EvCalls(_),    \* thread -> set of push / pop / set calls
          MaxDefs(_),    \* thread -> bound on accepted definition calls
          MaxEv(_),      \* thread -> bound on accepted event calls
          Variant        \* "faithful" | "neg_chan" | "neg_relabel"  (negative configurations)

VARIABLES cur,    \* thread whose program is being written (NT + 1: all written)
          st,     \* [thread -> [T, L, fate]]   fate: "run" | "dead" (refused call) | "open" (unspecified call)
          evs,    \* [thread -> sequence of <<mcv, value, type>>] emitted events
          prog    \* ghost: [thread -> sequence of [op, t, v, s, out]]

vars == <<cur, st, evs, prog>>
Threads == 1..NT

C(op, t, v, s) == [op |-> op, t |-> t, v |-> v, s |-> s]
IsDef(c) == c.op \in {"type", "label"}
InRange(t) == t >= 0 /\ t < 100
ChanType(flags) == IF flags % 2 = 1 THEN "stack" ELSE "single"      \* flags & OVNI_MARK_STACK
TypeDefs(T, t) == {x \in T : x[1] = t}
LabelDefs(L, t, v) == {x \in L : x[1] = t /\ x[2] = v}

-----------------------------------------------------------------------------
(* Outcome of a call in thread state s *)
RtOutcome(c, s) ==
   CASE c.op = "type" ->
          IF ~InRange(c.t) \/ c.s = "" THEN "refused"
          ELSE IF TypeDefs(s.T, c.t) = {} THEN "ok"
          ELSE IF <<c.t, ChanType(c.v), c.s>> \in s.T THEN "unspecified"
          ELSE "refused"                      \* title or channel type conflict inside one thread
     [] c.op = "label" ->
          IF ~InRange(c.t) \/ c.v = 0 \/ c.s = "" THEN "refused"
          ELSE IF c.v < 0 THEN "unspecified"  \* the documentation only forbids 0 (the code refuses)
          ELSE IF TypeDefs(s.T, c.t) = {} THEN "refused"      \* undefined type
          ELSE IF LabelDefs(s.L, c.t, c.v) = {} THEN "ok"
          ELSE IF <<c.t, c.v, c.s>> \in s.L
               THEN "unspecified"
               ELSE (IF Variant = "neg_relabel" THEN "ok" ELSE "refused")   \* label conflict inside one thread
     [] OTHER -> IF c.v = 0 THEN "refused" ELSE "ok"          \* push / pop / set: zero is forbidden

Mcv(op) == CASE op = "push" -> "OM[" [] op = "pop" -> "OM]" [] op = "set" -> "OM="

\* state after an accepted call
Apply(c, s) ==
   CASE c.op = "type"  -> [s EXCEPT !.T = @ \cup {<<c.t, ChanType(c.v), c.s>>}]
     [] c.op = "label" -> [s EXCEPT !.L = (@ \ LabelDefs(@, c.t, c.v)) \cup {<<c.t, c.v, c.s>>}]
     [] OTHER -> s

-----------------------------------------------------------------------------
(* Emulator load: the definitions of the threads are merged one thread after
   the other; the first definition of a type / value is kept and every later
   one must be equal to it. *)
NoDefs  == [conflict |-> FALSE, T |-> {}, L |-> {}]
Refused == [conflict |-> TRUE, T |-> {}, L |-> {}]     \* the emulator exits: there is no table
MergeStep(acc, d) ==
   IF acc.conflict THEN acc
   ELSE IF \E x \in d.T : \E y \in acc.T :
             x[1] = y[1] /\ (x[3] # y[3] \/ (Variant # "neg_chan" /\ x[2] # y[2]))
        THEN Refused
   ELSE IF \E x \in d.L : \E y \in acc.L : x[1] = y[1] /\ x[2] = y[2] /\ x[3] # y[3]
        THEN Refused
   ELSE [conflict |-> FALSE,
         T |-> acc.T \cup {x \in d.T : TypeDefs(acc.T, x[1]) = {}},
         L |-> acc.L \cup d.L]

RECURSIVE MergeFrom(_, _, _)
MergeFrom(acc, order, i) ==
   IF i > Len(order) THEN acc
   ELSE MergeFrom(MergeStep(acc, st[order[i]]), order, i + 1)
Merge(order) == MergeFrom(NoDefs, order, 1)
Merged == Merge([i \in Threads |-> i])

\* what the merged table means for the emulator (sys.marks of EmuFull) and Paraver
MarkTable(m) == {[type |-> x[1], stack |-> x[2] = "stack"] : x \in m.T}
PcfOf(m) == {<<100 + x[1], x[3], {<<l[2], l[3]>> : l \in {y \in m.L : y[1] = x[1]}}>> : x \in m.T}

\* the ways in which two threads can disagree
TitleConflict == \E i, j \in Threads : \E x \in st[i].T : \E y \in st[j].T : x[1] = y[1] /\ x[3] # y[3]
ChanConflict  == \E i, j \in Threads : \E x \in st[i].T : \E y \in st[j].T : x[1] = y[1] /\ x[2] # y[2]
LabelConflict == \E i, j \in Threads : \E x \in st[i].L : \E y \in st[j].L :
                    x[1] = y[1] /\ x[2] = y[2] /\ x[3] # y[3]

-----------------------------------------------------------------------------
Init == /\ cur = 1
        /\ st = [th \in Threads |-> [T |-> {}, L |-> {}, fate |-> "run"]]
        /\ evs = [th \in Threads |-> <<>>]
        /\ prog = [th \in Threads |-> <<>>]

NDefs(th) == Cardinality({i \in 1..Len(prog[th]) : IsDef(prog[th][i]) /\ prog[th][i].out = "ok"})

\* A call that is not accepted ends the process (die): it is the last call
\* of its thread; such programs are only written for thread 1, alone (its
\* stream is not finished, nothing can be emulated).
Call(th, c) ==
   LET out == RtOutcome(c, st[th]) IN
   /\ cur = th /\ st[th].fate = "run"
   /\ IF IsDef(c) THEN out = "ok" => NDefs(th) < MaxDefs(th) ELSE Len(evs[th]) < MaxEv(th)
   /\ out # "ok" => th = 1
   /\ st' = [st EXCEPT ![th] = IF out = "ok" THEN Apply(c, @)
                                ELSE [@ EXCEPT !.fate = IF out = "refused" THEN "dead" ELSE "open"]]
   /\ evs' = IF out = "ok" /\ ~IsDef(c) THEN [evs EXCEPT ![th] = Append(@, <<Mcv(c.op), c.v, c.t>>)] ELSE evs
   /\ prog' = [prog EXCEPT ![th] = Append(@, [op |-> c.op, t |-> c.t, v |-> c.v, s |-> c.s, out |-> out])]
   /\ UNCHANGED cur

\* the program of the thread is complete
Advance == /\ cur <= NT
           /\ cur' = IF st[1].fate # "run" THEN NT + 1 ELSE cur + 1
           /\ UNCHANGED <<st, evs, prog>>

Next == Advance \/ \E th \in Threads : \E c \in DefCalls(th) \cup EvCalls(th) : Call(th, c)
Spec == Init /\ [][Next]_vars

\* programs reaching the same metadata / events are the same state
\* (a refused call leaves the metadata unchanged: the call itself identifies the state)
View == <<cur, st, evs,
          IF st[1].fate = "run" THEN <<>>
          ELSE LET c == prog[1][Len(prog[1])] IN <<c.op, c.t, c.v, c.s>>>>

-----------------------------------------------------------------------------
(* Invariants *)

\* the verdict and the merged table do not depend on the order of the threads
MergeOrderIndependent ==
   \A p \in Permutations(Threads) : Merge([i \in Threads |-> p[i]]) = Merged

\* "title, channel-type or label conflicts are refused": the load fails
\* exactly when two threads disagree
ConflictsRefused == Merged.conflict <=> (TitleConflict \/ ChanConflict \/ LabelConflict)

\* "types and labels defined by different threads merge when they agree"
AgreeingDefsMerge ==
   ~Merged.conflict =>
      /\ Merged.T = UNION {st[th].T : th \in Threads}
      /\ Merged.L = UNION {st[th].L : th \in Threads}
      /\ \A x, y \in Merged.T : x[1] = y[1] => x = y
      /\ \A x, y \in Merged.L : (x[1] = y[1] /\ x[2] = y[2]) => x = y

\* what one thread writes is always loadable on its own: one definition per
\* type, one label per value, labels only under a defined type, legal ranges
SingleThreadLoads ==
   \A th \in Threads :
      /\ ~Merge(<<th>>).conflict
      /\ \A x, y \in st[th].T : x[1] = y[1] => x = y
      /\ \A x, y \in st[th].L : (x[1] = y[1] /\ x[2] = y[2]) => x = y
      /\ \A l \in st[th].L : TypeDefs(st[th].T, l[1]) # {} /\ l[2] > 0 /\ l[3] # ""
      /\ \A x \in st[th].T : InRange(x[1]) /\ x[3] # ""

\* every accepted definition reaches the metadata unchanged; every accepted
\* event call is in the stream, in program order, never with value 0
AcceptedPersist ==
   \A th \in Threads :
      /\ \A i \in 1..Len(prog[th]) :
            LET c == prog[th][i] IN
            c.out = "ok" =>
               CASE c.op = "type"  -> <<c.t, ChanType(c.v), c.s>> \in st[th].T
                 [] c.op = "label" -> <<c.t, c.v, c.s>> \in st[th].L
                 [] OTHER -> TRUE
      /\ LET E == SelectSeq(prog[th], LAMBDA c : c.out = "ok" /\ ~IsDef(c)) IN
         /\ Len(E) = Len(evs[th])
         /\ \A i \in 1..Len(E) : evs[th][i] = <<Mcv(E[i].op), E[i].v, E[i].t>> /\ E[i].v # 0

\* The same, exhaustively: AcceptedPersist reads the ghost `prog`, and the VIEW
\* keeps one program per state, so it is only evaluated on the representative
\* programs (the exported ones).  As an action property it is evaluated on
\* every transition: no call removes or replaces a definition or an event.
IsPrefix(a, b) == Len(a) <= Len(b) /\ \A i \in 1..Len(a) : a[i] = b[i]
DefsMonotone ==
   [][\A th \in Threads : /\ st[th].T \subseteq st'[th].T
                          /\ st[th].L \subseteq st'[th].L
                          /\ IsPrefix(evs[th], evs'[th])]_vars

\* a call that is not accepted is the last one of its thread
RefusalIsLast ==
   \A th \in Threads : \A i \in 1..Len(prog[th]) : prog[th][i].out # "ok" => i = Len(prog[th])

Inv == /\ MergeOrderIndependent /\ ConflictsRefused /\ AgreeingDefsMerge
       /\ SingleThreadLoads /\ AcceptedPersist /\ RefusalIsLast

-----------------------------------------------------------------------------
(* Export: one line per final state *)
Kinds == (IF TitleConflict THEN {"title"} ELSE {}) \cup (IF ChanConflict THEN {"chan"} ELSE {})
         \cup (IF LabelConflict THEN {"label"} ELSE {})
\* why the last call of a thread was not accepted (it left T and L unchanged)
Reason(c, s) ==
   CASE c.op = "type" ->
          IF ~InRange(c.t) THEN "range" ELSE IF c.s = "" THEN "empty"
          ELSE IF <<c.t, ChanType(c.v), c.s>> \in s.T THEN "same" ELSE "conflict"
     [] c.op = "label" ->
          IF ~InRange(c.t) THEN "range" ELSE IF c.v = 0 THEN "zero" ELSE IF c.s = "" THEN "empty"
          ELSE IF c.v < 0 THEN "negative" ELSE IF TypeDefs(s.T, c.t) = {} THEN "undefined"
          ELSE IF <<c.t, c.v, c.s>> \in s.L THEN "same" ELSE "conflict"
     [] OTHER -> "zero"
LastOf(th) == LET c == prog[th][Len(prog[th])] IN <<c.op, c.out, Reason(c, st[th])>>
\* every event is on a type of the merged table with the matching channel kind
\* (only used to stratify the sample: what the emulator does is EmuFull's business)
WellKinded == ~Merged.conflict /\ \A th \in Threads : \A i \in 1..Len(evs[th]) :
                 \E x \in Merged.T : x[1] = evs[th][i][3] /\ (x[2] = "stack") = (evs[th][i][1] # "OM=")
Class == <<st[1].fate, IF st[1].fate = "run" THEN <<>> ELSE LastOf(1), Kinds,
           UNION {{evs[th][i][1] : i \in 1..Len(evs[th])} : th \in Threads}, WellKinded>>

Export ==
   (cur <= NT /\ cur' = NT + 1) =>
      PrintT(<<"TR", ToJson(
         [progs |-> prog,
          fate  |-> [th \in Threads |-> st[th].fate],
          metas |-> [th \in Threads |-> [T |-> st[th].T, L |-> st[th].L]],
          evs   |-> evs,
          merge |-> [conflict |-> Merged.conflict, kinds |-> Kinds],
          marks |-> IF Merged.conflict THEN {} ELSE MarkTable(Merged),
          pcf   |-> IF Merged.conflict THEN {} ELSE PcfOf(Merged),
          wk    |-> WellKinded,
          cls   |-> ToString(Class)])>>)

-----------------------------------------------------------------------------
(* ---- bounded instances ---- *)
TypeCalls(Ts, Fs, Ss)  == {C("type", t, f, s)  : t \in Ts, f \in Fs, s \in Ss}
LabelCalls(Ts, Vs, Ss) == {C("label", t, v, s) : t \in Ts, v \in Vs, s \in Ss}
EvOps(Os, Ts, Vs)      == {C(o, t, v, "") : o \in Os, t \in Ts, v \in Vs}
AllEv == {"push", "pop", "set"}

(* D: definitions.  Both threads define the boundary types 0 and 99 (+ out
   of range -1, 100; 3 is never defined) with either channel kind and two
   titles, and label values 0..2 with two labels (+ empty title / label); in
   the thorough configuration thread 1 adds one event. *)
DefsD(th) == TypeCalls({0, 99, 35, -1, 100}, {0, 1}, {"A", "B"})       \* (99 = 35 + 64: two valid type numbers
             \cup LabelCalls({0, 99, 35, 3, 100}, {0, 1, 2}, {"x", "y"})     \*  that agree in their low six bits)
             \cup TypeCalls({0}, {1}, {""}) \cup LabelCalls({0}, {1}, {""})
EvD(th)   == IF th = 1 THEN {C("push", 0, 1, ""), C("set", 99, 2, ""), C("push", 0, 0, "")} ELSE {}
MaxDefsDq(th) == 2
MaxEvDq(th)   == 0
MaxEvD(th)    == IF th = 1 THEN 1 ELSE 0
MaxDefsDt(th) == 3

(* E: events.  Stack type 0 and single type 99 (each thread may leave them
   undefined), every push / pop / set on types 0, 99, 3 with values 0..2 in
   thread 1, a few events in thread 2. *)
DefsE(th) == IF th = 1 THEN TypeCalls({0}, {1}, {"A"}) \cup TypeCalls({99}, {0}, {"B"})
             ELSE TypeCalls({0}, {1}, {"A"})
EvE(th)   == IF th = 1 THEN EvOps(AllEv, {0, 99, 3}, {0, 1, 2})
             ELSE {C("push", 0, 2, ""), C("set", 99, 1, "")}
MaxDefsE(th) == 2
MaxEvEq(th)  == IF th = 1 THEN 2 ELSE 1
MaxEvEt(th)  == IF th = 1 THEN 3 ELSE 1
=============================================================================
