SPECIFICATION HSpec
CONSTANTS
  NS = 5
  MaxEv = 3
  Clocks = {0,1,2,3}
  Offsets <- OffsetsZero
  NL = 1
  Base = 2
  PVariant = "ok"
  MPick = "min"
  HVariant = "relink"
INVARIANTS HeapStructure HeapHoldsPending RefinesMerge HNonDecreasing HPerStreamOrder HNoDuplicate HCorrectedClock HOutputTime HNoError HExactlyOnce HTerminates
CHECK_DEADLOCK FALSE
