SPECIFICATION Spec
CONSTANTS
  MaxLen = 7
  MaxClock = 1
  Rings <- MCRings
  MaxB = 2
  MaxJ = 1
  Strict = TRUE
  JumboInside = TRUE
  ExportUnspecLen = 4
  Variant = "le"
INVARIANTS Refinement IdempotentInv

CHECK_DEADLOCK FALSE
