"""C17 (mark API end to end).

Emulator side: bounded model with one stack and one single mark type, two
threads, state/affinity changes (thread ACTIVE / CPU RUNNING tracking),
transition cover replayed on ovniemu (EmuTrace).  Runtime side: mark
programs run through the real library by drivers/rtdrive (refusals are
observed through the abort interposer), the resulting trace is emulated and
the decoded events + observed timelines are validated by the same EmuTrace
specification; definition conflicts between threads are materialised in
metadata and must be refused at load time (MarkMeta.tla).
"""
from vlib import core, emuhist


def main(pid, tier):
    ck = core.Check(pid, "model_checking", tier)
    bdir = core.build("hooks")
    r, g = emuhist.explore("EmuMC_C17.cfg")
    ck.add_tlc(r, "EmuMC/EmuMC_C17.cfg (marks: stack type 1, single type 2)")
    if r.violated:
        ck.violation("model violates %s" % r.violated, {"tlc.out": r.out[-20000:]})
    emuhist.conformance(ck, bdir, g, tier, limit_quick=4000, limit_thorough=60000, label="C17/emu",
                        pairs=600 if tier == "quick" else 20000, pair_same=emuhist.same_category)
    ck.phase("transition_cover")
    # depth probes at the limit of the channel stack (512 values) and beyond, well nested and with a pop of a
    # value that is not on top: the specification (MaxStack) decides where the refusal comes
    from checks import emu_models

    def E(m, a=None):
        return {"th": 1, "m": m, "mc": "O", "a": a or [], "j": False}
    probes = []
    for depth in (511, 512, 513, 600):
        ups = [E("OM[", [1 + k % 2, 1]) for k in range(depth)]
        downs = [E("OM]", [1 + k % 2, 1]) for k in reversed(range(depth))]
        probes.append([E("OHx", [0, 101, 7])] + ups + downs + [E("OHe")])
        probes.append([E("OHx", [0, 101, 7])] + ups + [E("OM]", [7, 1])] + downs + [E("OHe")])
    # (one thread only: with a second thread that never runs the trace is refused at its end anyway)
    system = dict(emu_models.sys1({"O"}), marks=g.system["marks"])
    emu_models.run_extra(ck, bdir, emuhist.sys_with_rank(system), probes, "C17/depth", view_tail=3)
    ck.phase("depth_probes")
    try:
        from checks import marks_rt
        marks_rt.run(ck, bdir, tier)
        ck.phase("runtime")
    except ImportError:
        pass
    ck.assumptions += ["the depth limit of a channel stack (512 values, MAX_CHAN_STACK = MaxStack of Emu.tla) is part of "
                       "the reference semantics: the push that exceeds it is refused"]
    return ck.finish(rule="one emulator history per (sampled) transition of the bounded mark model + runtime mark "
                          "programs; non-trivial = at least 2 events; distinct by event list")
