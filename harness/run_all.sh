#!/bin/sh
# Developer tool: run every registered check (quick) and print exit status and wall time.
cd "$(dirname "$0")/.."
for id in $(python3 -c "import json; print(' '.join(c['property_id'] for c in json.load(open('MANIFEST.json'))['checks']))"); do
  s=$(date +%s)
  ./check $id --tier ${1:-quick} > /tmp/runall_$id.out 2> /tmp/runall_$id.err; rc=$?
  e=$(date +%s)
  echo "$id rc=$rc wall=$((e-s))s $(grep -c '^VIOLATION' /tmp/runall_$id.out) violations $(grep -c '^KNOWN-FINDING' /tmp/runall_$id.out) known"
done
