SPECIFICATION Spec
CONSTANTS
  StackMax = 2
  NRows = 2
  Variant = "next_null"
  Tracks = {}
  Record = TRUE
  Setups <- SetupsNeg
INVARIANTS TypeOK DirtyListDrains FlushedIsShown StackDiscipline TrackView TimesSorted HeaderIsLastAdvance RegsDistinct Filter LogHeader
PROPERTIES StepProps
CHECK_DEADLOCK FALSE
