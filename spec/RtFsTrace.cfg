SPECIFICATION TSpec
CONSTANTS
  JsonLast = TRUE
  CheckCopy = TRUE
POSTCONDITION Report
CHECK_DEADLOCK FALSE
