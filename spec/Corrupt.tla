------------------------------ MODULE Corrupt ------------------------------
(* C12 - structurally invalid or incomplete traces are rejected, never
   emulated as ok.

   An abstract trace is a sequence of streams
       [meta, evs, hdr, json, cut]
     meta : function  key -> typed value   (the JSON tree of stream.json,
            flattened to dotted keys; values are tagged: <<"num", n>>,
            <<"str", s>>, <<"numstr", n>> (a JSON string holding a number),
            <<"loom", l>> (the string "node<l>.x"), <<"obj", f>>,
            <<"arr", cpus>>, <<"marks", m>>; a key that is absent is not in
            the domain)
     evs  : sequence of events [m, mc, a, j, clk, sz]; sz = payload size in
            bytes as the decoder sees it (jumbo: 4 + data), `a` the decoded
            arguments (EmuFull reads the payload size through Len(a))
     hdr  : the 8 header bytes of stream.obs
     json : "ok" or the way stream.json is unparsable
     cut  : -1, or the length the file stream.obs is truncated to

   Judge(T) is the acceptance function the property talks about: load
   (header, metadata parse and version), stream classification, mandatory
   attributes, metadata merge (SystemOps.Expected), model requirements,
   stream structure (clock monotone, no trailing fragment); a trace that
   passes is replayed, merged by clock, through the reference semantics of
   the emulator (EmuFull.StepAll) and judged by VerdictAll.

   Seeds (valid traces) are defined here; CasesOf(s) enumerates the single
   corruptions the property names.  Every case is one deterministic
   behaviour: the initial state chooses (seed, corruption), the first step
   judges the corrupted trace, the next ones replay its history through the
   reference semantics, the last state carries the verdict in
   {"reject", "ok", "unspecified"}.  ExportInv prints one JSON line per case
   for the harness, which materialises the same trace byte for byte and runs
   ovniemu on it.                                                         *)
EXTENDS EmuFull, Json

CONSTANTS Variant,   \* "code": the property; "nodead" / "noclock" / "nofragment": deliberately wrong acceptance functions (negative cfgs)
          SeedIds,   \* seeds explored
          Deep       \* TRUE: wider substitution alphabets (thorough tier)

SO == INSTANCE SystemOps

VARIABLES cCase,     \* <<seed, kind, stream, p, q, val>>
          cHist,     \* history to replay (sequence of EmuFull events)
          cPos,      \* -1: not judged yet; then the number of events replayed so far
          cRes,      \* "" while replaying, then the verdict
          cSoft      \* an "ok" outcome would rest on something the property does not define
cVars == <<allVars, cCase, cHist, cPos, cRes, cSoft>>

-----------------------------------------------------------------------------
(* Typed metadata values *)
Num(n) == <<"num", n>>
Str(s) == <<"str", s>>
Absent == <<"abs">>
Tag(x) == x[1]
Get(M, k) == IF k \in DOMAIN M THEN M[k] ELSE Absent
With(M, k, v) == (k :> v) @@ M
Without(M, k) == [x \in DOMAIN M \ {k} |-> M[x]]
IsN(x) == Tag(x) = "num"
IsS(x) == Tag(x) \in {"str", "numstr", "loom"}          \* a JSON string

CharOf(name) == CHOOSE c \in ModelChars : ModelInfo[c].name = name
ReqOf(chars) == [n \in {ModelInfo[c].name : c \in chars} |-> Str(ModelInfo[CharOf(n)].version)]
BadVersion == "99.0.0"                                   \* another major: incompatible with every model

BaseMeta(tid, pid, loom, chars) ==
   ("version" :> Num(3)) @@ ("ovni.part" :> Str("thread")) @@ ("ovni.finished" :> Num(1)) @@
   ("ovni.tid" :> Num(tid)) @@ ("ovni.pid" :> Num(pid)) @@ ("ovni.loom" :> <<"loom", loom>>) @@
   ("ovni.lib.version" :> Str("1.11.0")) @@ ("ovni.lib.commit" :> Str("verif")) @@
   ("ovni.require" :> <<"obj", ReqOf(chars)>>)
App_(M, a) == With(M, "ovni.app_id", Num(a))
Cpus_(M, c) == With(M, "ovni.loom_cpus", <<"arr", c>>)
Rank_(M, r, n) == With(With(M, "ovni.rank", Num(r)), "ovni.nranks", Num(n))
Marks_(M, m) == With(M, "ovni.mark", <<"marks", m>>)

-----------------------------------------------------------------------------
(* Events and their byte layout (doc/user/runtime/trace_spec.md): header 12
   bytes (flags, MCV, clock) + payload; jumbo: payload = u32 size + data *)
ArgFmt(m) == CASE m = "OHx" -> <<4, 4, 8>>
               [] m = "OAs" -> <<4>>
               [] m = "OAr" -> <<4, 4>>
               [] m \in {"OM[", "OM]", "OM="} -> <<8, 4>>
               [] m \in {"VTc", "VTC", "VTx", "VTe", "VTp", "VTr", "6Tc"} -> <<4, 4>>
               [] m \in {"6Tx", "6Te", "6Tp", "6Tr"} -> <<4>>
               [] OTHER -> <<>>
RECURSIVE SumTo(_, _)
SumTo(f, n) == IF n = 0 THEN 0 ELSE SumTo(f, n - 1) + f[n]
JumboData == 4 + 3                       \* u32 type id + label "T<k>" + NUL
Ev(mc, m, a, clk) == [m |-> m, mc |-> mc, a |-> a, j |-> FALSE, clk |-> clk, sz |-> SumTo(ArgFmt(m), Len(a))]
Jv(mc, m, a, clk) == [m |-> m, mc |-> mc, a |-> a, j |-> TRUE, clk |-> clk, sz |-> 4 + JumboData]
EvSize(e) == 12 + e.sz

\* arguments decoded from a payload of n bytes holding the arguments of
\* `a` (cut, or padded with zeros): the whole arguments of the format that
\* fit; bytes beyond the format count as one more (zero) argument per
\* started group of 4, so that Len distinguishes every size from the exact one
FitArgs(f, n) == Cardinality({k \in 1..Len(f) : SumTo(f, k) <= n})
ArgsFor(m, a, n) ==
   LET f == ArgFmt(m)
       k == FitArgs(f, n)
       extra == IF k = Len(f) THEN (n - SumTo(f, k) + 3) \div 4 ELSE 0
   IN  [x \in 1..(k + extra) |-> IF x <= Len(a) THEN a[x] ELSE 0]

ValidHdr == <<111, 118, 110, 105, 1, 0, 0, 0>>            \* "ovni", version 1 (LE)
Stream(meta, evs) == [meta |-> meta, evs |-> evs, hdr |-> ValidHdr, json |-> "ok", cut |-> -1]

RECURSIVE EndOff(_, _)
EndOff(evs, n) == IF n = 0 THEN 8 ELSE EndOff(evs, n - 1) + EvSize(evs[n])
FileSize(st) == EndOff(st.evs, Len(st.evs))
Boundaries(st) == {EndOff(st.evs, n) : n \in 0..Len(st.evs)}
\* events wholly inside the file
NKept(st) == IF st.cut < 0 THEN Len(st.evs)
             ELSE Cardinality({n \in 1..Len(st.evs) : EndOff(st.evs, n) <= st.cut})

-----------------------------------------------------------------------------
(* Seeds: valid traces.  Clocks are globally distinct and increase inside
   each stream; every stream of S1-S4 ends with OHe (as the runtime writes
   them), S5 goes on after it. *)
Ex(c, clk) == Ev("O", "OHx", <<c, 101, 7>>, clk)
O(m, clk) == Ev("O", m, <<>>, clk)

\* S1: one stream, base model only
S1 == <<Stream(Cpus_(App_(BaseMeta(101, 1001, 1, {"O"}), 1), <<<<0, 10>>, <<1, 11>>>>),
          <<Ex(0, 1000), O("OB.", 1010), O("OHp", 1020), O("OHr", 1030),
            Ev("O", "OAs", <<1>>, 1040), O("OHe", 1050)>>)>>

\* S2: two threads of one process, nOS-V tasks + a mark; only thread 1
\* requires nosv and carries app_id / loom_cpus.  The second task type is
\* not used by any task: losing it does not invalidate later events
S2 == <<Stream(Marks_(Cpus_(App_(BaseMeta(101, 1001, 1, {"O", "V"}), 1), <<<<0, 10>>, <<1, 11>>>>),
                      <<[type |-> 2, stack |-> FALSE]>>),
          <<Ex(0, 1000), Jv("V", "VYc", <<1, 5>>, 1010), Jv("V", "VYc", <<2, 6>>, 1012), Ev("V", "VTc", <<1, 1>>, 1020),
            Ev("V", "VTx", <<1, 0>>, 1030), Ev("V", "VSh", <<>>, 1040), Ev("V", "VSf", <<>>, 1050),
            Ev("V", "VTe", <<1, 0>>, 1060), Ev("O", "OM=", <<5, 2>>, 1070), O("OHe", 1080)>>),
        \* (written by another libovni version than thread 1: allowed, the emulator only warns)
        Stream(With(BaseMeta(102, 1001, 1, {"O"}), "ovni.lib.version", Str("1.10.0")),
          <<Ex(1, 1005), O("OF[", 1015), O("OF]", 1025), O("OHe", 1035)>>)>>

\* S3: two processes, Nanos6: a jumbo event followed by normal events WITH
\* payload (8 and 4 bytes); both streams require nanos6
N6(clk0) == <<Jv("6", "6Yc", <<1, 5>>, clk0 + 10), Jv("6", "6Yc", <<2, 6>>, clk0 + 12), Ev("6", "6Tc", <<1, 1>>, clk0 + 20),
              Ev("6", "6Tx", <<1>>, clk0 + 30), Ev("6", "6Te", <<1>>, clk0 + 40), O("OHe", clk0 + 50)>>
S3 == <<Stream(Cpus_(App_(BaseMeta(101, 1001, 1, {"O", "6"}), 1), <<<<0, 10>>, <<1, 11>>>>),
          <<Ex(0, 1000)>> \o N6(1000)),
        Stream(App_(BaseMeta(201, 1002, 1, {"O", "6"}), 2),
          <<Ex(1, 1005)>> \o N6(1005))>>

\* S4: two looms with ranks, MPI; app_id / rank / loom_cpus of loom 1
\* carried by both of its threads; remote affinity
C1 == <<<<0, 10>>, <<1, 11>>, <<2, 12>>>>
S4 == <<Stream(Rank_(Cpus_(App_(BaseMeta(101, 1001, 1, {"O", "M"}), 1), C1), 0, 2),
          <<Ex(0, 1000), Ev("M", "MUi", <<>>, 1010), Ev("M", "MUI", <<>>, 1020),
            Ev("O", "OAr", <<2, 102>>, 1030), O("OHe", 1090)>>),
        Stream(Rank_(Cpus_(App_(BaseMeta(102, 1001, 1, {"O", "M"}), 1), C1), 0, 2),
          <<Ex(1, 1005), O("OHp", 1040), O("OHr", 1050), O("OHe", 1060)>>),
        Stream(Rank_(Cpus_(App_(BaseMeta(201, 2001, 2, {"O", "M"}), 2), <<<<0, 20>>>>), 1, 2),
          <<Ex(0, 1002), Ev("M", "MUi", <<>>, 1012), Ev("M", "MUI", <<>>, 1022), O("OHe", 1032)>>)>>

\* S5: a flush after the thread has ended (the base model accepts it in any
\* thread state): the only seed in which a truncation can lose events without
\* losing the end of the thread, so that the trailing-fragment rule alone
\* decides (and a cut at an event boundary after OHe leaves a valid trace)
S5 == <<Stream(Cpus_(App_(BaseMeta(101, 1001, 1, {"O"}), 1), <<<<0, 10>>>>),
          <<Ex(0, 1000), O("OHe", 1010), O("OF[", 1020), O("OF]", 1030)>>)>>

Seed(s) == CASE s = 1 -> S1 [] s = 2 -> S2 [] s = 3 -> S3 [] s = 4 -> S4 [] s = 5 -> S5

-----------------------------------------------------------------------------
(* The acceptance function *)

\* stream_load: metadata parses, has the supported version; the header is whole and valid
LoadOk(st) == /\ st.json = "ok"
              /\ IsN(Get(st.meta, "version")) /\ Get(st.meta, "version")[2] = 3
              /\ (st.cut < 0 \/ st.cut >= 8)
              /\ st.hdr = ValidHdr

\* "thread", "ignored" (another kind of stream: documented as ignored) or "reject"
PartOf(st) == LET p == Get(st.meta, "ovni.part") IN
              IF ~IsS(p) THEN "reject"
              ELSE IF Tag(p) = "str" /\ p[2] = "thread" THEN "thread" ELSE "ignored"

\* mandatory attributes of a thread stream, with their types
MandatoryOk(M) ==
   /\ Tag(Get(M, "ovni.loom")) = "loom"
   /\ IsN(Get(M, "ovni.pid")) /\ Get(M, "ovni.pid")[2] > 0
   /\ IsN(Get(M, "ovni.tid")) /\ Get(M, "ovni.tid")[2] > 0
   /\ IsN(Get(M, "ovni.finished")) /\ Get(M, "ovni.finished")[2] = 1
   /\ IsS(Get(M, "ovni.lib.version")) /\ IsS(Get(M, "ovni.lib.commit"))
   /\ Tag(Get(M, "ovni.require")) = "obj"

\* the record SystemOps reasons about (app 0 / rank -1 / nranks 0 / cpus <<>> = absent;
\* an app_id that is not a number is an invalid one)
SoRec(M) ==
   LET a == Get(M, "ovni.app_id")  r == Get(M, "ovni.rank")
       n == Get(M, "ovni.nranks")  c == Get(M, "ovni.loom_cpus") IN
   [loom |-> M["ovni.loom"][2], pid |-> M["ovni.pid"][2], tid |-> M["ovni.tid"][2],
    app |-> IF Tag(a) = "abs" THEN 0 ELSE IF IsN(a) THEN a[2] ELSE -1,
    rank |-> IF IsN(r) THEN r[2] ELSE -1,
    nranks |-> IF IsN(n) THEN n[2] ELSE 0,
    cpus |-> IF Tag(c) = "arr" THEN c[2] ELSE <<>>]

\* model requirements of a thread stream
ReqEntry(M, name) == LET r == M["ovni.require"][2] IN IF name \in DOMAIN r THEN r[name] ELSE Absent
ReqStatus(M, c) == LET v == ReqEntry(M, ModelInfo[c].name) IN
                   IF Tag(v) # "str" THEN "none"                 \* absent, or not a version string
                   ELSE IF v[2] = ModelInfo[c].version THEN "yes"
                   ELSE IF v[2] = BadVersion THEN "incompatible"
                   ELSE "unknown"

ClocksOk(st) == \A x \in 1..(Len(st.evs) - 1) : st.evs[x].clk <= st.evs[x + 1].clk
FragmentFree(st) == st.cut < 0 \/ st.cut \in Boundaries(st)

SeqOfSet(X) == SO!SortSet(X)
EmptySys == [threads |-> <<>>, cpus |-> <<>>, marks |-> <<>>, models |-> {}]

\* the system EmuFull emulates: threads in stream order, CPUs of each loom from the union of loom_cpus
SysOf(T) ==
   LET S == [k \in 1..Len(T) |-> SoRec(T[k].meta)]
       looms == SeqOfSet(SO!LoomsOf(S))
       cpusOf(l) == LET P == SO!CpuPairs(S, l)
                        ps == SO!SortBy(P, [p \in P |-> p[1]]) IN
                    [k \in 1..Len(ps) |-> [loom |-> l, idx |-> ps[k][1], phy |-> ps[k][2], virt |-> FALSE]]
                    \o <<[loom |-> l, idx |-> -1, phy |-> -1, virt |-> TRUE]>>
       withMarks == {k \in 1..Len(T) : "ovni.mark" \in DOMAIN T[k].meta}
   IN [threads |-> [k \in 1..Len(S) |->
                      [tid |-> S[k].tid, pid |-> S[k].pid, loom |-> S[k].loom,
                       app |-> SO!TheApp(S, S[k].loom, S[k].pid),
                       rank |-> IF SO!ProcHasRank(S, S[k].loom, S[k].pid)
                                THEN SO!TheRank(S, S[k].loom, S[k].pid) ELSE -1]],
       cpus |-> SO!Concat([x \in 1..Len(looms) |-> cpusOf(looms[x])]),
       marks |-> IF withMarks = {} THEN <<>> ELSE T[CHOOSE k \in withMarks : TRUE].meta["ovni.mark"][2],
       models |-> {"O"} \cup {c \in ModelChars : \E k \in 1..Len(T) : ReqStatus(T[k].meta, c) = "yes"}]

\* the merged history: events wholly inside their files, by clock
HistOf(T) ==
   LET XS == UNION {{<<T[k].evs[x].clk, k, x>> : x \in 1..NKept(T[k])} : k \in 1..Len(T)}
       s == SO!SortBy(XS, [x \in XS |-> x[1]])
   IN  [n \in 1..Len(s) |-> LET e == T[s[n][2]].evs[s[n][3]] IN
                            [th |-> s[n][2], m |-> e.m, mc |-> e.mc, a |-> e.a, j |-> e.j]]

\* an "ok" would rest on behaviour the property does not define: the base model is not
\* required by any stream (the code enables it anyway); a require entry or a CPU list of the wrong type
SoftOf(T) ==
   \/ \A k \in 1..Len(T) : ReqStatus(T[k].meta, "O") # "yes"
   \/ \E k \in 1..Len(T) : LET r == T[k].meta["ovni.require"][2] IN \E n \in DOMAIN r : Tag(r[n]) # "str"
   \/ \E k \in 1..Len(T) : Tag(Get(T[k].meta, "ovni.loom_cpus")) \notin {"abs", "arr"}

Judgement(pre, sy, hist, soft) == [pre |-> pre, sys |-> sy, hist |-> hist, soft |-> soft]
Rejected == Judgement("reject", EmptySys, <<>>, FALSE)
Unspecified == Judgement("unspecified", EmptySys, <<>>, FALSE)

Judge(T) ==
   LET all == 1..Len(T) IN
   IF \E k \in all : ~LoadOk(T[k]) THEN Rejected
   ELSE IF \E k \in all : PartOf(T[k]) = "reject" THEN Rejected
   ELSE IF \E k \in all : PartOf(T[k]) = "ignored" THEN Unspecified
   ELSE IF \E k \in all : ~MandatoryOk(T[k].meta) THEN Rejected
   ELSE
   LET S == [k \in all |-> SoRec(T[k].meta)]
       merge == SO!Expected(S).verdict IN
   IF merge = "reject" THEN Rejected
   ELSE IF merge = "unspecified" THEN Unspecified
   ELSE IF \E k \in all, c \in ModelChars : ReqStatus(T[k].meta, c) = "incompatible" THEN Rejected
   ELSE IF \E k \in all, c \in ModelChars : ReqStatus(T[k].meta, c) = "unknown" THEN Unspecified
   ELSE IF Variant # "noclock" /\ \E k \in all : ~ClocksOk(T[k]) THEN Rejected
   ELSE IF Variant # "nofragment" /\ \E k \in all : ~FragmentFree(T[k]) THEN Rejected
   ELSE Judgement("replay", SysOf(T), HistOf(T), SoftOf(T))

-----------------------------------------------------------------------------
(* Single corruptions.  A case is <<seed, kind, stream, p, q, val>>. *)
Case(s, kind, k, p, q, v) == <<s, kind, k, p, q, v>>
None == <<>>

\* --- metadata
RetypeOf(x) == CASE Tag(x) = "num" -> <<"numstr", x[2]>>          \* 3 -> "3"
                 [] Tag(x) \in {"str", "loom", "numstr"} -> Num(7)
                 [] OTHER -> Str("retyped")                       \* object / array -> string
AlterOf(key, x) ==
   CASE key = "version" -> {Num(2), Num(4), <<"frac", 3>>}        \* <<"frac", n>> is the number n + 0.5
     [] key = "ovni.part" -> {Str("other")}
     [] key = "ovni.finished" -> {Num(0), Num(2)}
     [] key = "ovni.tid" -> {Num(999)}
     [] key = "ovni.pid" -> {Num(9999)}
     [] key = "ovni.loom" -> {<<"loom", 9>>}
     [] key = "ovni.app_id" -> {Num(x[2] + 50)}
     [] key = "ovni.rank" -> {Num(x[2] + 7)}
     [] key = "ovni.nranks" -> {Num(x[2] + 1)}
     [] key = "ovni.require" -> {<<"obj", <<>>>>}                 \* an empty object
     [] key = "ovni.lib.version" -> {Str("0.0.1")}
     [] key = "ovni.lib.commit" -> {Str("altered")}
     [] key = "ovni.loom_cpus" -> {<<"arr", [x[2] EXCEPT ![1] = <<x[2][1][1], x[2][1][2] + 50>>]>>}   \* another phyid
MetaKeys(M) == DOMAIN M \ {"ovni.mark"}
Retypable == {"version", "ovni.part", "ovni.finished", "ovni.tid", "ovni.pid", "ovni.loom", "ovni.app_id",
              "ovni.require", "ovni.lib.version", "ovni.lib.commit", "ovni.loom_cpus"}
MandatoryKeys == {"version", "ovni.part", "ovni.finished", "ovni.tid", "ovni.pid", "ovni.loom",
                  "ovni.require", "ovni.lib.version", "ovni.lib.commit"}
FreshIdKeys == {"ovni.tid", "ovni.pid", "ovni.loom"}

MetaCases(s, k, M) ==
   {Case(s, "meta", k, key, "removed", None) : key \in MetaKeys(M)}
   \cup {Case(s, "meta", k, key, "retyped", RetypeOf(M[key])) : key \in MetaKeys(M) \cap Retypable}
   \cup UNION {{Case(s, "meta", k, key, "altered", v) : v \in AlterOf(key, M[key])} : key \in MetaKeys(M)}
ReqCases(s, k, M) ==
   LET r == M["ovni.require"][2] IN
   UNION {{Case(s, "req", k, n, "removed", None),
           Case(s, "req", k, n, "retyped", Num(7)),
           Case(s, "req", k, n, "altered", Str(BadVersion))} : n \in DOMAIN r}
JsonCases(s, k) == {Case(s, "json", k, how, 0, None) : how \in {"truncated", "garbage", "empty", "array", "trailing"}}   \* trailing: a complete object followed by garbage

\* --- bytes of stream.obs
TruncCases(s, k, st) == {Case(s, "trunc", k, c, 0, None) : c \in 0..(FileSize(st) - 1)}
SwapCases(s, k, st) == {Case(s, "swap", k, x, 0, None) :
                          x \in {y \in 1..(Len(st.evs) - 1) : st.evs[y].clk # st.evs[y + 1].clk}}
\* the clock of an event set just below the one of its predecessor
ClockCases(s, k, st) == {Case(s, "clock", k, x, st.evs[x - 1].clk - 1, None) : x \in 2..Len(st.evs)}
HdrCases(s, k, st) == UNION {{Case(s, "hdr", k, b, (st.hdr[b + 1] + 1) % 256, None),
                              Case(s, "hdr", k, b, (st.hdr[b + 1] + 128) % 256, None)} : b \in 0..7}

\* --- events
ModelsOfSeed(s) == SysOf(Seed(s)).models
\* <<mcv, model char>>: one event of each model, two unknown codes of each model, an unregistered model
Probe == {<<"KCO", "K">>, <<"MUi", "M">>, <<"VSh", "V">>, <<"6C[", "6">>, <<"DR[", "D">>, <<"TCi", "T">>, <<"PBb", "P">>,
          <<"OF[", "O">>}
\* codes that differ from a listed event only in bit 7 of the value ("~xyz") or of the category byte ("^xyz");
\* the harness writes the byte with the bit set (TLA+ strings are ASCII)
HighBit == {<<"~KCO", "K">>, <<"~MUi", "M">>, <<"~VSh", "V">>, <<"~6C[", "6">>, <<"~DR[", "D">>, <<"~TCi", "T">>,
            <<"~PBb", "P">>, <<"~OHp", "O">>, <<"^KCO", "K">>, <<"^MUi", "M">>, <<"^VSh", "V">>, <<"^6C[", "6">>,
            <<"^DR[", "D">>, <<"^TCi", "T">>, <<"^PBb", "P">>, <<"^OHp", "O">>}
Unknown == {<<"OZZ", "O">>, <<"OHz", "O">>, <<"KZZ", "K">>, <<"MZZ", "M">>, <<"VZZ", "V">>, <<"VSz", "V">>,
            <<"6ZZ", "6">>, <<"DZZ", "D">>, <<"TZZ", "T">>, <<"PZZ", "P">>, <<"ZZZ", "Z">>, <<"oHx", "o">>}
           \cup HighBit
StateEvents == {<<"OHp", "O">>, <<"OHr", "O">>, <<"OHc", "O">>, <<"OHw", "O">>, <<"OHe", "O">>, <<"OF]", "O">>,
                <<"VSf", "V">>, <<"6C]", "6">>, <<"MUI", "M">>}
WithPayloadRead == {<<"OHx", "O">>, <<"OAs", "O">>, <<"VTx", "V">>, <<"6Tx", "6">>, <<"OM=", "O">>}
AllTable == {<<m, ChanInfo[EvInfo[m].k].model>> : m \in {x \in TableEvents : EvInfo[x].k # ""}}
Substitutes == Probe \cup Unknown \cup StateEvents \cup WithPayloadRead \cup (IF Deep THEN AllTable ELSE {})
\* the substitution is well defined when the new handler does not read the payload or there is none
McvCases(s, k, st) ==
   UNION {{Case(s, "mcv", k, x, n[1], n[2]) :
             n \in {y \in Substitutes : y[1] # st.evs[x].m /\ (ArgFmt(y[1]) = <<>> \/ st.evs[x].sz = 0)}}
          : x \in 1..Len(st.evs)}

PaySizes == IF Deep THEN {0} \cup (2..16) ELSE {0, 2, 4, 6, 8, 12, 16}    \* what 4 bits of flags can encode
SizeChecked(m) == ArgFmt(m) # <<>>
PayCases(s, k, st) ==
   UNION {{Case(s, "pay", k, x, n, None) : n \in PaySizes \ {st.evs[x].sz}}
          : x \in {y \in 1..Len(st.evs) : SizeChecked(st.evs[y].m) /\ ~st.evs[y].j}}
\* a jumbo event whose data is shorter than the u32 it must begin with (0..3 bytes): the size field of the
\* jumbo payload says so, the events that follow are intact
JumboSizeCases(s, k, st) == {Case(s, "jsz", k, x, n, None) : x \in {y \in 1..Len(st.evs) : st.evs[y].j}, n \in 0..3}

\* (q = 0: u32 id and the label as a normal payload of 8 bytes; q = 1: the very bytes a jumbo event stores,
\*  u32 size, u32 id, terminated label, as a normal payload of 12 bytes)
NoJumboCases(s, k, st) == {Case(s, "nojumbo", k, x, q, None) : x \in {y \in 1..Len(st.evs) : st.evs[y].j}, q \in {0, 1}}

CasesOf(s) ==
   LET T == Seed(s) IN
   {Case(s, "none", 0, 0, 0, None)}
   \cup UNION {MetaCases(s, k, T[k].meta) \cup ReqCases(s, k, T[k].meta) \cup JsonCases(s, k)
               \cup TruncCases(s, k, T[k]) \cup SwapCases(s, k, T[k]) \cup ClockCases(s, k, T[k]) \cup HdrCases(s, k, T[k])
               \cup McvCases(s, k, T[k]) \cup PayCases(s, k, T[k]) \cup NoJumboCases(s, k, T[k])
               \cup JumboSizeCases(s, k, T[k])
               : k \in 1..Len(T)}

SwapAt(evs, x) == [y \in 1..Len(evs) |-> IF y = x THEN evs[x + 1] ELSE IF y = x + 1 THEN evs[x] ELSE evs[y]]

Apply(T, c) ==
   LET kind == c[2]  k == c[3]  p == c[4]  q == c[5]  v == c[6] IN
   CASE kind = "none" -> T
     [] kind = "trunc" -> [T EXCEPT ![k].cut = p]
     [] kind = "swap" -> [T EXCEPT ![k].evs = SwapAt(T[k].evs, p)]
     [] kind = "clock" -> [T EXCEPT ![k].evs = [T[k].evs EXCEPT ![p] = [T[k].evs[p] EXCEPT !.clk = q]]]
     [] kind = "hdr" -> [T EXCEPT ![k].hdr = [T[k].hdr EXCEPT ![p + 1] = q]]
     [] kind = "json" -> [T EXCEPT ![k].json = p]
     [] kind = "meta" -> [T EXCEPT ![k].meta = IF q = "removed" THEN Without(T[k].meta, p) ELSE With(T[k].meta, p, v)]
     [] kind = "req" ->
          LET r == T[k].meta["ovni.require"][2]
              r2 == IF q = "removed" THEN Without(r, p) ELSE With(r, p, v) IN
          [T EXCEPT ![k].meta = With(T[k].meta, "ovni.require", <<"obj", r2>>)]
     [] kind = "mcv" -> [T EXCEPT ![k].evs = [T[k].evs EXCEPT ![p] = [T[k].evs[p] EXCEPT !.m = q, !.mc = v]]]
     [] kind = "pay" ->
          LET e == T[k].evs[p] IN
          [T EXCEPT ![k].evs = [T[k].evs EXCEPT ![p] = [e EXCEPT !.sz = q, !.a = ArgsFor(e.m, e.a, q)]]]
     [] kind = "jsz" ->
          [T EXCEPT ![k].evs = [T[k].evs EXCEPT ![p] = [T[k].evs[p] EXCEPT !.sz = 4 + q, !.a = <<>>]]]
     [] kind = "nojumbo" ->      \* the same content as a normal event: u32 id, label padded to 4 bytes
          [T EXCEPT ![k].evs = [T[k].evs EXCEPT ![p] = [T[k].evs[p] EXCEPT !.j = FALSE, !.sz = IF q = 1 THEN 12 ELSE 8]]]

\* a thread / process / loom id replaced by a fresh one is another trace the property says nothing about
FreshId(c) == c[2] = "meta" /\ c[5] = "altered" /\ c[4] \in FreshIdKeys

Prepare(c) == IF FreshId(c) THEN Unspecified ELSE Judge(Apply(Seed(c[1]), c))

-----------------------------------------------------------------------------
(* One behaviour per case *)
\* burst events (OB?) are accepted by the base model without effect
CStep(e) == IF e.m = "OB." /\ ~failed /\ ~unspec
            THEN IF Enabled("O") /\ StateOk("O", e.th) THEN UNCHANGED allVars ELSE FailAll
            ELSE StepAll(e)

EndVerdict == IF Variant = "nodead"
              THEN (IF failed THEN "fail" ELSE IF lint /\ OpenRegions THEN "fail" ELSE "ok")
              ELSE VerdictAll

\* the initial state only chooses the case; the first step judges the corrupted trace
\* (so that TLC's workers share that work) and loads the system to emulate
CInit == /\ \E s \in SeedIds : cCase \in CasesOf(s)
         /\ cHist = <<>> /\ cPos = -1 /\ cSoft = FALSE /\ cRes = ""
         /\ InitAll(EmptySys, TRUE)

CNext == /\ cRes = ""
         /\ IF cPos = -1
            THEN LET j == Prepare(cCase) IN
                 /\ cHist' = j.hist /\ cPos' = 0 /\ cSoft' = j.soft
                 /\ cRes' = IF j.pre = "replay" THEN "" ELSE j.pre
                 /\ ResetAll(j.sys, TRUE)
                 /\ UNCHANGED cCase
            ELSE IF cPos < Len(cHist)
            THEN /\ CStep(cHist[cPos + 1]) /\ cPos' = cPos + 1
                 /\ UNCHANGED <<cCase, cHist, cRes, cSoft>>
            ELSE /\ cRes' = IF unspec THEN "unspecified"
                            ELSE IF EndVerdict = "ok" THEN (IF cSoft THEN "unspecified" ELSE "ok")
                            ELSE "reject"
                 /\ UNCHANGED <<allVars, cCase, cHist, cPos, cSoft>>
CSpec == CInit /\ [][CNext]_cVars

-----------------------------------------------------------------------------
(* Property layer: what C12 names must be rejected.  Checked by TLC on every case. *)
Done == cRes # ""
Kind == cCase[2]
SeedsAreValid == (Done /\ Kind = "none") => cRes = "ok"
\* a truncation is rejected when it leaves a partial header or event, or loses the end of the thread;
\* a cut at an event boundary after OHe leaves a trace that is judged like any other
EndLostAt(st, c) == \A n \in 1..Len(st.evs) : st.evs[n].m = "OHe" => EndOff(st.evs, n) > c
TruncAlwaysRejected ==
   (Done /\ Kind = "trunc") =>
      LET st == Seed(cCase[1])[cCase[3]]  c == cCase[4] IN
      (c < 8 \/ c \notin Boundaries(st) \/ EndLostAt(st, c)) => cRes = "reject"
\* every stream of seeds 1-4 ends with its only OHe: every truncation of them is rejected
TruncOfPlainSeedsRejected == (Done /\ Kind = "trunc" /\ cCase[1] \in 1..4) => cRes = "reject"
SwapAlwaysRejected == (Done /\ Kind \in {"swap", "clock"}) => cRes = "reject"
HdrAlwaysRejected == (Done /\ Kind = "hdr") => cRes = "reject"
JsonAlwaysRejected == (Done /\ Kind = "json") => cRes = "reject"
MandatoryRejected ==
   (Done /\ Kind = "meta" /\ cCase[4] \in MandatoryKeys) =>
      /\ cCase[5] \in {"removed", "retyped"} => cRes = "reject"
      /\ cCase[4] \in {"version", "ovni.finished"} => cRes = "reject"
\* a version no model serves; a model whose events the trace carries is no longer required by anyone
BadRequireRejected ==
   (Done /\ Kind = "req") =>
      /\ cCase[5] = "altered" => cRes = "reject"
      /\ (cCase[5] \in {"removed", "retyped"} /\ cCase[4] # "ovni"
          /\ \A k \in 1..Len(Seed(cCase[1])) : k # cCase[3] => ReqStatus(Seed(cCase[1])[k].meta, CharOf(cCase[4])) # "yes")
         => cRes = "reject"       \* every seed stream that requires a model has events of it
NotRequiredRejected == (Done /\ Kind = "mcv" /\ cCase[6] \notin ModelsOfSeed(cCase[1])) => cRes = "reject"
UnknownRejected == (Done /\ Kind = "mcv" /\ <<cCase[5], cCase[6]>> \in Unknown) => cRes = "reject"
\* the sizes the handlers are documented to check
SizeRefused(m, n) == CASE m = "OAs" -> n # 4 [] m = "OAr" -> n # 8 [] m = "OHx" -> n < 4
                       [] m \in {"OM[", "OM]", "OM="} -> n # 12
                       [] m \in {"VTc", "VTC", "VTx", "VTe", "VTp", "VTr"} -> n < 8
                       [] m = "6Tc" -> n # 8 [] m \in {"6Tx", "6Te", "6Tp", "6Tr"} -> n < 4
                       [] OTHER -> FALSE
WrongSizeRejected ==
   (Done /\ Kind = "pay") =>
      LET m == Seed(cCase[1])[cCase[3]].evs[cCase[4]].m IN
      /\ SizeRefused(m, cCase[5]) => cRes = "reject"
      /\ ~SizeRefused(m, cCase[5]) => cRes = "ok"
NoJumboRejected == (Done /\ Kind = "nojumbo") => cRes = "reject"
JumboSizeRejected == (Done /\ Kind = "jsz") => cRes = "reject"
\* nothing the family contains depends on an unspecified step of the reference semantics
NoUnspecStep == ~unspec

Props == /\ SeedsAreValid /\ TruncAlwaysRejected /\ TruncOfPlainSeedsRejected /\ SwapAlwaysRejected /\ HdrAlwaysRejected
         /\ JsonAlwaysRejected /\ MandatoryRejected /\ BadRequireRejected /\ NotRequiredRejected
         /\ UnknownRejected /\ WrongSizeRejected /\ NoJumboRejected /\ JumboSizeRejected

-----------------------------------------------------------------------------
(* Export *)
ASSUME \A s \in SeedIds :
   PrintT(<<"SEED", ToJson([id |-> s,
                            streams |-> [k \in 1..Len(Seed(s)) |->
                               [meta |-> Seed(s)[k].meta, hdr |-> Seed(s)[k].hdr,
                                evs |-> [x \in 1..Len(Seed(s)[k].evs) |->
                                           LET e == Seed(s)[k].evs[x] IN
                                           [m |-> e.m, mc |-> e.mc, a |-> e.a, j |-> e.j, clk |-> e.clk, sz |-> e.sz,
                                            fmt |-> ArgFmt(e.m)]],
                                sizes |-> [x \in 1..Len(Seed(s)[k].evs) |-> EvSize(Seed(s)[k].evs[x])],
                                fsize |-> FileSize(Seed(s)[k])]]])>>)

ExportInv == Done => PrintT(<<"TR", ToJson([seed |-> cCase[1], kind |-> cCase[2], stream |-> cCase[3],
                                            p |-> cCase[4], q |-> cCase[5], val |-> cCase[6],
                                            verdict |-> cRes])>>)
=============================================================================
