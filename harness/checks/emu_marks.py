"""C17 (mark API end to end).

Emulator side: bounded model with one stack and one single mark type, two
threads, state/affinity changes (thread ACTIVE / CPU RUNNING tracking),
transition cover replayed on ovniemu (EmuTrace).  Runtime side: mark
programs run through the real library by drivers/rtdrive (refusals are
observed through the abort interposer), the resulting trace is emulated and
the decoded events + observed timelines are validated by the same EmuTrace
specification; definition conflicts between threads are materialised in
metadata and must be refused at load time (MarkMeta.tla).
"""
from vlib import core, emuhist


def main(pid, tier):
    ck = core.Check(pid, "model_checking", tier)
    bdir = core.build("hooks")
    r, g = emuhist.explore("EmuMC_C17.cfg")
    ck.add_tlc(r, "EmuMC/EmuMC_C17.cfg (marks: stack type 1, single type 2)")
    if r.violated:
        ck.violation("model violates %s" % r.violated, {"tlc.out": r.out[-20000:]})
    emuhist.conformance(ck, bdir, g, tier, limit_quick=4000, limit_thorough=60000, label="C17/emu",
                        pairs=600 if tier == "quick" else 20000, pair_same=emuhist.same_category)
    ck.phase("transition_cover")
    try:
        from checks import marks_rt
        marks_rt.run(ck, bdir, tier)
        ck.phase("runtime")
    except ImportError:
        pass
    return ck.finish(rule="one emulator history per (sampled) transition of the bounded mark model + runtime mark "
                          "programs; non-trivial = at least 2 events; distinct by event list")
