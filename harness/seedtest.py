#!/usr/bin/env python3
"""Developer tool: run checks against a seeded change.

usage: harness/seedtest.py <patch.diff> <check id> [<check id> ...] [--tier quick]

The patch is applied to a scratch worktree of /repo (outside /repo and /verif),
the checks are run with VERIF_REPO pointing at it, and the worktree is removed.
(Equivalent to `git -C /repo apply`, run, `git -C /repo checkout -- .`, but safe
while other jobs are using /repo.)  Prints one line per check:
  <id> exit=<code> violations=<n> wall=<s>
"""
import json
import os
import subprocess
import sys
import tempfile
import time

HERE = os.path.dirname(os.path.dirname(os.path.abspath(__file__)))


def main():
    args = sys.argv[1:]
    tier = "quick"
    if "--tier" in args:
        i = args.index("--tier")
        tier = args[i + 1]
        del args[i:i + 2]
    patch = os.path.abspath(args[0])
    ids = args[1:]
    wt = tempfile.mkdtemp(prefix="seedwt-", dir="/tmp")
    os.rmdir(wt)
    subprocess.check_call(["git", "-C", "/repo", "worktree", "add", "-q", wt, "HEAD"])
    out = {}
    try:
        r = subprocess.run(["git", "-C", wt, "apply", patch], stdout=subprocess.PIPE, stderr=subprocess.STDOUT, text=True)
        if r.returncode != 0:
            print("patch does not apply:", r.stdout)
            return 2
        env = dict(os.environ, VERIF_REPO=wt)
        for cid in ids:
            t0 = time.time()
            p = subprocess.run([os.path.join(HERE, "check"), cid, "--tier", tier], cwd=HERE, env=env,
                               stdout=subprocess.PIPE, stderr=subprocess.PIPE, text=True)
            viol = [l for l in p.stdout.splitlines() if l.startswith("VIOLATION")]
            first = ""
            for l in p.stderr.splitlines():
                if l.startswith("  -> "):
                    first = l[5:220]
                    break
            print("%s exit=%d violations=%d wall=%.0fs %s" % (cid, p.returncode, len(viol), time.time() - t0, first))
            if p.returncode == 2:
                print(p.stderr[-1500:])
            out[cid] = {"exit": p.returncode, "violation_lines": len(viol), "first": first}
    finally:
        subprocess.run(["git", "-C", "/repo", "worktree", "remove", "--force", wt])
        pass  # evidence of scratch-worktree runs goes to a scratch directory (core.EVIDENCE)
    print(json.dumps(out))
    return 0


if __name__ == "__main__":
    sys.exit(main())
