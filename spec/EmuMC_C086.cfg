SPECIFICATION MCSpec
CONSTANTS
  System <- SysC086
  Alphabet <- AlphaC086
  MaxLen = 7
  Lint = TRUE
VIEW MCView
INVARIANT Inv
ACTION_CONSTRAINT Export
CHECK_DEADLOCK FALSE
