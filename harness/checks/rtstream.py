"""C01 (stream fidelity) and C02 (valid + accepted traces) — RtStream.

Pipeline: TLC on the faithful scaled model and on the size-abstracted
real-capacity model (plus the negative configurations that must fail),
TLC-generated call sequences replayed through libovni with drivers/rtdrive,
the recorded executions validated by RtStreamTrace.tla; for C02 the
directories are also fed to `ovniemu -l`.
"""
import itertools
import json
import os
import random
import shutil
import struct

from vlib import core, obs, emu, tv

CAP = 2097152
ALPHA = [chr(c) for c in range(33, 127) if chr(c) not in "[]"]


def pat(idv, i):
    return ((idv * 2654435761 + i * 40503 + (i >> 8) * 97) & 0xFFFFFFFF) >> 7 & 0xFF


def fill(n, idv):
    b = bytearray(pat(idv, i) for i in range(n))
    if n >= 4:
        b[0:4] = struct.pack("<I", idv)
    elif n >= 2:
        b[0:2] = struct.pack("<H", idv & 0xFFFF)
    return bytes(b)


def jfill(n, idv):
    """Same sequence as jfill() in drivers/rtdrive.c, computed with big-int xor."""
    a = bytes((idv * 131 + i * 7 + 3) & 0xFF for i in range(251))
    b = bytes((i * 29 + idv) & 0xFF for i in range(256))
    ra = (a * (n // 251 + 1))[:n]
    rb = (b * (n // 256 + 1))[:n]
    x = (int.from_bytes(ra, "little") ^ int.from_bytes(rb, "little")).to_bytes(n, "little") if n else b""
    if idv % 3 == 0 and n > 8:
        z = min(n - 8, 6000)
        x = x[:n - z] + b"\0" * z
    if n >= 4:
        x = struct.pack("<I", idv) + x[4:]
    return x


def compose(ops, protocol=True, mt=None, logical=False, tid=None, rank=None):
    """Turn model ops (after thread_init) into (script lines, execution records
    skeleton, expected-bytes table).  mt = (k, n): script of thread k of an n-thread
    program (thread ids 1000+k, CPU k; all threads call ovni_thread_free together)."""
    k, nth = mt if mt else (0, 1)
    tid = tid if tid is not None else 1000 + k
    lines = (["proc_init 1 node0 1000"] if k == 0 else []) + (["barrier"] if mt else [])
    lines += ["thread_init %d" % tid] + (["cpu %d %d" % (c, c) for c in range(nth)] if k == 0 else [])
    if rank is not None and k == 0:
        lines.append("rank %d %d" % rank)       # the process belongs to an MPI job: set by one thread only
    lines += ["mark_type 1 0 verifmark", "mark_type 2 1 verifstack"]
    if logical:
        lines.append("clockmode logical")     # the program's own time base: 0, 100, 200, ...
    recs = [("thread_init", {"op": "thread_init"})]
    table = {}
    nid = [0]

    def new_id():
        nid[0] += 1
        return nid[0]

    def add_emit(mcv, payload, kind="u"):
        i = new_id()
        lines.append("emitraw %s %s" % (mcv, payload.hex() if payload else "-"))
        recs.append(("emitraw", {"op": "emit", "pay": len(payload), "kind": kind, "id": i}))
        table[i] = (mcv, payload, None)
        return i

    if protocol:
        add_emit("OHx", struct.pack("<iiQ", k, tid, 0x5eed + k))
    for o in ops:
        if o["op"] == "emit" and o.get("kind") == "m":
            i = new_id()
            lines.append("mark_set 1 %d" % i)
            recs.append(("mark_set", {"op": "emit", "pay": 12, "kind": "m", "id": i}))
            table[i] = ("OM=", struct.pack("<qi", i, 1), None)
        elif o["op"] == "emit" and o.get("kind") in ("M[", "M]"):
            # stack mark: push / pop of the value o["v"] (the same value may be nested in itself)
            i = new_id()
            lines.append("mark_%s 2 %d" % ("push" if o["kind"] == "M[" else "pop", o["v"]))
            recs.append(("mark_push" if o["kind"] == "M[" else "mark_pop", {"op": "emit", "pay": 12, "kind": "m", "id": i}))
            table[i] = ("O" + o["kind"], struct.pack("<qi", o["v"], 2), None)
        elif o["op"] == "emit":
            i = nid[0] + 1
            p = o["pay"]
            add_emit("OU" + ALPHA[i % len(ALPHA)], fill(p, i) if p else b"")
        elif o["op"] == "jumbo":
            i = new_id()
            lines.append("jumbo OU%s %d %d" % (ALPHA[i % len(ALPHA)], o["n"], i))
            if o["n"] + 16 >= CAP:
                recs.append(("jumbo", {"op": "jumbo_die", "n": o["n"]}))
                return lines, recs, table, True
            recs.append(("jumbo", {"op": "jumbo", "n": o["n"], "id": i}))
            table[i] = ("OU" + ALPHA[i % len(ALPHA)], struct.pack("<I", o["n"]), (o["n"], i))
        elif o["op"] == "flush":
            lines.append("flush")
            recs.append(("flush", {"op": "flush"}))
        elif o["op"] == "attr":
            # a metadata update in the middle of the run: no effect on the stream (no record for the model)
            lines += ["attr_str user.phase p%d" % len(lines), "attr_flush"]
        else:
            raise core.MachineryError("unknown model op %r" % (o,))
    if protocol:
        add_emit("OHe", b"")
    lines.append("flush")
    recs.append(("flush", {"op": "flush"}))
    if mt:
        lines.append("barrier")
    lines.append("free")
    recs.append(("free", {"op": "free"}))
    if mt:
        lines.append("barrier")
    if k == 0:
        lines.append("fini")
    return lines, recs, table, False


def run_script(drv, bdir, ops, want_emu, keep=None, shim=None, tmpdir=False, protocol=True, ids=(1000, 1000),
               stale=False, logical=False):
    """Execute one op list; returns dict(execution=[records], problems=[...],
    emu=EmuRun|None, script=lines)."""
    d = core.mkscratch("rt")
    try:
        lines, recs, table, dies = compose(ops, protocol=protocol, logical=logical)
        pid_, tid_ = ids
        if ids != (1000, 1000):
            # large pid / tid (pid_max may be 4194304): 7 digits in the metadata and in the paths
            lines = [ln.replace("proc_init 1 node0 1000", "proc_init 1 node0 %d" % pid_)
                       .replace("thread_init 1000", "thread_init %d" % tid_) for ln in lines]
        sp = os.path.join(d, "script")
        lp = os.path.join(d, "log")
        open(sp, "w").write("\n".join(lines) + "\n")
        td = os.path.join(d, "ovni")
        env = {"OVNI_TRACEDIR": td}
        if tmpdir == "same":
            # OVNI_TMPDIR is spelled exactly like the trace directory, and neither exists yet
            env["OVNI_TMPDIR"] = td
        elif tmpdir == "alias":
            # the temporary directory IS the trace directory (here through a symbolic link)
            os.makedirs(td, exist_ok=True)
            os.symlink("ovni", os.path.join(d, "tmp"))
            env["OVNI_TMPDIR"] = os.path.join(d, "tmp")
        elif tmpdir:
            env["OVNI_TMPDIR"] = os.path.join(d, "tmp")      # streams are relocated at ovni_thread_free
        if stale:
            # files of an earlier run with the same loom / pid / tid are still there (a longer stream)
            for root in ([td] + ([env["OVNI_TMPDIR"]] if tmpdir and tmpdir != "alias" else [])):
                sd = obs.stream_dir(root, "node0", pid_, tid_)
                os.makedirs(sd, exist_ok=True)
                with open(os.path.join(sd, "stream.obs"), "wb") as f:
                    f.write(obs.HDR + b"".join(obs.ev("OB.", 5 + i, struct.pack("<I", 7000 + i)) for i in range(400)))
                with open(os.path.join(sd, "stream.json"), "w") as f:
                    f.write('{"version": 3, "ovni": {"finished": 1, "stale": "x%s"}}' % ("y" * 3000))
        if shim:
            # short writes, and the wall clock stepped back by 5 s after a few readings (the event clock
            # must be monotone whatever the wall clock does)
            env.update({"LD_PRELOAD": shim, "VERIF_SHORTWRITE": "4096", "VERIF_WALLCLOCK_STEP": "6"})
        rc, out, err = core.run([drv, sp, lp], timeout=120, env=env, cwd=d)
        execution, problems, aborted = interpret(lp, recs, table, td, tid_, rc, err, pid=pid_)
        emurun = None
        if want_emu and not aborted and rc == 0:
            emurun = emu.ovniemu(bdir, td, ("-l",), timeout=120)
        if keep and (problems or (emurun is not None and not emurun.accepted)):
            shutil.copytree(d, keep, dirs_exist_ok=True)
        return {"execution": execution, "problems": problems, "emu": emurun,
                "script": lines, "ops": ops}
    finally:
        shutil.rmtree(d, ignore_errors=True)


def run_mt(drv, bdir, ops_list, want_emu, tmpdir, ranked=False, emu_nofile=None):
    """An n-thread program: thread k runs ops_list[k]; all threads free together (relocation
    from OVNI_TMPDIR when tmpdir).  Returns one result per thread (the emulator run, on the whole
    trace, is attached to the first)."""
    d = core.mkscratch("rtmt")
    try:
        n = len(ops_list)
        # ranked: the process is rank 0 of 2 (a second, single-threaded process of the same loom is rank 1); the
        # thread that sets the rank has tid 999, whose directory "thread.999" sorts AFTER "thread.1001"
        tids = [999 if (ranked and k == 0) else 1000 + k for k in range(n)]
        comp = [compose(ops, mt=(k, n), tid=tids[k], rank=(0, 2) if ranked else None) for k, ops in enumerate(ops_list)]
        args = []
        for k, (lines, recs, table, dies) in enumerate(comp):
            sp = os.path.join(d, "script%d" % k)
            open(sp, "w").write("\n".join(lines) + "\n")
            args += [sp, os.path.join(d, "log%d" % k)]
        td = os.path.join(d, "ovni")
        env = {"OVNI_TRACEDIR": td}
        if tmpdir:
            env["OVNI_TMPDIR"] = os.path.join(d, "tmp")
        rc, out, err = core.run([drv, "-mt"] + args, timeout=180, env=env, cwd=d)
        if ranked and rc == 0:
            sp = os.path.join(d, "scriptB")
            open(sp, "w").write("\n".join(["proc_init 1 node0 2000", "thread_init 2000", "cpu %d %d" % (n, n), "rank 1 2",
                                           "emitraw OHx " + struct.pack("<iiQ", n, 2000, 7).hex(), "emitraw OHe -",
                                           "flush", "free", "fini"]) + "\n")
            rcb, outb, errb = core.run([drv, sp, os.path.join(d, "logB")], timeout=60, env=env, cwd=d)
            if rcb != 0:
                raise core.MachineryError("second process of a ranked program failed: %s" % errb[-300:])
        res = []
        anyabort = False
        for k, (lines, recs, table, dies) in enumerate(comp):
            execution, problems, aborted = interpret(os.path.join(d, "log%d" % k), recs, table, td, tids[k], rc, err)
            anyabort = anyabort or aborted
            res.append({"execution": execution, "problems": problems, "emu": None, "script": lines,
                        "ops": ops_list[k], "mt": (k, n, tmpdir)})
        if want_emu and not anyabort and rc == 0:
            res[0]["emu"] = emu.ovniemu(bdir, td, ("-l",), timeout=180, nofile=emu_nofile)
        return res
    finally:
        shutil.rmtree(d, ignore_errors=True)


def interpret(lp, recs, table, td, tid, rc, err, pid=1000):
    """driver log + stream on disk -> (execution records for RtStreamTrace, problems, aborted)"""
    if True:
        log = [json.loads(l) for l in open(lp)] if os.path.exists(lp) else []
        problems = []
        execution = []
        # map driver log lines to model records (skipping non-stream ops)
        ri = 0
        clk_of = {}
        want_ops = {"thread_init", "emitraw", "mark_set", "mark_push", "mark_pop", "jumbo", "flush", "free"}
        aborted = False
        for ent in log:
            if ent["op"] not in want_ops:
                if ent.get("aborted"):
                    aborted = True
                    execution.append({"op": "aborted", "at": ent["op"]})
                continue
            if ri >= len(recs):
                problems.append("driver logged more ops than scripted")
                break
            name, rec = recs[ri]
            ri += 1
            if ent.get("aborted"):
                aborted = True
                if rec["op"] == "jumbo_die":
                    execution.append(dict(rec))
                else:
                    execution.append({"op": "aborted", "at": ent["op"]})
                break
            if rec["op"] == "jumbo_die":
                problems.append("jumbo of %d bytes was not refused" % rec["n"])
            r = dict(rec)
            r["fsize"] = ent["fsize"]
            if "id" in r and name in ("emitraw", "jumbo"):
                clk_of[r["id"]] = ent["clk"]      # marks are stamped inside the library
            execution.append(r)
        if rc is None:
            problems.append("driver timed out")
        elif rc not in (0, 3):
            problems.append("driver exit status %s: %s" % (rc, err.decode("latin1")[-300:]))
        if not aborted and rc == 0:
            sdir = obs.stream_dir(td, "node0", pid, tid)
            try:
                meta, data = obs.read_stream(sdir)
            except Exception as ex:  # noqa
                problems.append("cannot read stream: %s" % ex)
                meta, data = None, b""
            stream = []
            try:
                evs = obs.decode(data)
            except obs.DecodeError as ex:
                problems.append("stream does not tile: %s" % ex)
                evs = obs.decode(data, strict=False) if data[:4] == b"ovni" else []
            # events with the same bytes (two pushes of the same mark value) are interchangeable: the k-th such
            # event on disk is the k-th one emitted
            inv = {}
            for i, (mcv, payload, j) in sorted(table.items()):
                inv.setdefault((mcv, payload), []).append(i)
            clocks = sorted(set(e["clock"] for e in evs))
            rank = {c: k for k, c in enumerate(clocks)}
            for e in evs:
                k = None
                idv = 0
                if e["mcv"] == "OF[" and not e["payload"] and not e["jumbo"]:
                    k = "b"
                elif e["mcv"] == "OF]" and not e["payload"] and not e["jumbo"]:
                    k = "e"
                else:
                    q_ = inv.get((e["mcv"], e["payload"]))
                    idv = (q_.pop(0) if len(q_) > 1 else q_[0]) if q_ else -1
                    if idv > 0:
                        mcv, payload, j = table[idv]
                        if (j is not None) != e["jumbo"]:
                            idv = -1
                        elif j is not None and e["jdata"] != jfill(j[0], j[1]):
                            problems.append("jumbo data of event id %d differs from what was emitted" % idv)
                        if idv > 0 and idv in clk_of and clk_of[idv] != e["clock"]:
                            problems.append("clock of event id %d on disk (%d) differs from the clock emitted (%s)"
                                            % (idv, e["clock"], clk_of.get(idv)))
                    k = "m" if e["mcv"].startswith("OM") else ("j" if e["jumbo"] else "u")
                stream.append({"k": k, "id": idv, "sz": e["size"], "clk": rank[e["clock"]]})
            execution.append({"op": "final", "stream": stream, "fsize": len(data)})
            if meta is not None:
                ov = meta.get("ovni", {})
                for key in ("lib", "part", "tid", "pid", "loom", "app_id", "require", "finished", "loom_cpus"):
                    if key == "loom_cpus" and tid not in (1000, 4194301, 999):
                        continue        # CPUs are registered by one thread of the loom
                    if key not in ov:
                        problems.append("metadata lacks ovni.%s" % key)
                if meta.get("version") != 3:
                    problems.append("metadata version %r" % meta.get("version"))
                if ov.get("tid") != tid:
                    problems.append("metadata of thread %d names tid %r" % (tid, ov.get("tid")))
                if ov.get("pid") != pid:
                    problems.append("metadata of process %d names pid %r" % (pid, ov.get("pid")))
        return execution, problems, aborted


def scripts_from_window(tier, rng):
    r = core.tlc("RtStreamAbs", "RtStreamAbs_Export.cfg", workers=4)
    core.tlc_expect_ok(r, "RtStreamAbs export")
    trs = [t for tg, t in r.lines]
    if not trs:
        raise core.MachineryError("no transitions exported:\n" + r.out[-1500:])
    if tier == "quick":
        # every fill level x every op kind, sampled arguments
        by = {}
        for t in trs:
            by.setdefault((t["evlen"], t["op"]), []).append(t)
        sel = []
        for key in sorted(by):
            lst = by[key]
            rng.shuffle(lst)
            sel.extend(lst[:4 if key[1] != "flush" else 1])
        trs = sel
    out = []
    for t in trs:
        ops = [{"op": "jumbo", "n": t["evlen"] - 28 - 16}]   # OHx (28 bytes) is emitted first
        if t["op"] == "emit":
            ops.append({"op": "emit", "pay": t["arg"], "kind": "u"})
        elif t["op"] == "jumbo":
            ops.append({"op": "jumbo", "n": t["arg"]})
        else:
            ops.append({"op": "flush"})
        ops.append({"op": "emit", "pay": rng.choice([0, 2, 8, 16]), "kind": "u"})
        out.append(ops)
    # the same fill levels with nothing after the call: the call under test (or, with only the filler,
    # the closing event of the protocol) is the last thing before the final flush
    seen = set()
    for ops in list(out):
        for cut in (ops[:1], ops[:2]):
            key = json.dumps(cut, sort_keys=True)
            if key not in seen:
                seen.add(key)
                out.append(cut)
    return out, r


def scripts_from_walks(n, rng):
    per = max(1, n // 4)
    r = core.tlc("RtStreamGen", "RtStreamGen.cfg", workers=4, simulate=per, depth=16,
                 seed_=core.seed(), timeout=600)
    if r.error and "timeout" in str(r.error):
        raise core.MachineryError("RtStreamGen timeout")
    out = []
    for tg, h in r.lines:
        ops = [o for o in h if o["op"] != "thread_init"]
        out.append(ops)
    if not out:
        raise core.MachineryError("no walks generated:\n" + r.out[-1500:])
    return out[:n], r


def extra_scripts():
    """Refusal boundary of the jumbo size (the API accepts 0..CAP-17)."""
    out = []
    for n in (CAP - 17, CAP - 16, CAP - 15, CAP, CAP + 1000):
        out.append([{"op": "jumbo", "n": n}])
        out.append([{"op": "emit", "pay": 16, "kind": "u"}, {"op": "jumbo", "n": n}])
    return out


def apalache_inductive(ck):
    """Unbounded in the inputs: the inductive invariant 0 <= evlen < CAP /\\ no nested flush of
    RtStreamInd (same arithmetic module RtArith) for the real capacity and EVERY jumbo size (symbolic
    integer), discharged by Apalache; the arithmetic of the pinned commit must be refuted."""
    import subprocess
    d = core.mkscratch("apa")
    try:
        for f in ("RtArith.tla", "RtStreamInd.tla"):
            shutil.copy(os.path.join(core.SPEC, f), d)
        runs = [("base", ["--cinit=ConstInit", "--init=Init", "--inv=IndInv", "--length=0"], True),
                ("step", ["--cinit=ConstInit", "--init=IndInit", "--inv=IndInv", "--length=1"], True),
                ("step, arithmetic of the pinned commit (must fail)",
                 ["--cinit=ConstInitNeg", "--init=IndInit", "--inv=IndInv", "--length=1"], False)]
        notes = []
        for name, args, want_ok in runs:
            try:
                p = subprocess.run(["apalache-mc", "check", "--out-dir=" + os.path.join(d, "out")] + args +
                                   ["RtStreamInd.tla"], cwd=d, stdout=subprocess.PIPE, stderr=subprocess.STDOUT,
                                   text=True, timeout=900)
            except (subprocess.TimeoutExpired, OSError) as ex:
                notes.append({"obligation": name, "result": "not run: %r" % (ex,)})
                continue
            ok = "EXITCODE: OK" in p.stdout
            bad = "violated" in p.stdout or "Checker has found an error" in p.stdout
            notes.append({"obligation": name, "result": "ok" if ok else ("refuted" if bad else "error")})
            if want_ok and bad:
                ck.violation("inductive invariant of the buffer arithmetic refuted by Apalache (%s)" % name,
                             {"apalache.out": p.stdout[-6000:]}, sig="apalache")
            elif want_ok and not ok:
                raise core.MachineryError("apalache failed on %s:\n%s" % (name, p.stdout[-2000:]))
            elif not want_ok and not bad:
                raise core.MachineryError("apalache no longer refutes the unfixed arithmetic:\n%s" % p.stdout[-2000:])
        ck.notes["apalache_inductive_invariant"] = notes
    finally:
        shutil.rmtree(d, ignore_errors=True)


def main(pid, tier):
    level = "model_checking"
    ck = core.Check(pid, level, tier)
    rng = random.Random(core.seed())
    bdir = core.build("hooks")
    drv = core.cc_driver(bdir, "rtdrive.c")

    # ---- TLC: design
    r = core.tlc("RtStream", "RtStream.cfg" if tier == "quick" else "RtStream_Thorough.cfg",
                 coverage=False, timeout=3000, heap="12g")
    core.tlc_expect_ok(r, "RtStream")
    ck.add_tlc(r, "RtStream (CAP=56, all call sequences)")
    if r.violated:
        ck.violation("RtStream model violates %s (the model mirrors src/rt/ovni.c)" % r.violated,
                     {"tlc.out": r.out[-20000:]})
    rn = core.tlc("RtStream", "RtStream_Neg.cfg", timeout=600)
    ck.add_tlc(rn, "RtStream_Neg (arithmetic of the pinned commit; must fail)")
    if not rn.violated:
        raise core.MachineryError("negative configuration RtStream_Neg no longer fails: vacuous model")
    ra = core.tlc("RtStreamAbs", "RtStreamAbs_Quick.cfg" if tier == "quick" else "RtStreamAbs.cfg",
                  timeout=3000, heap="12g")
    core.tlc_expect_ok(ra, "RtStreamAbs")
    ck.add_tlc(ra, "RtStreamAbs (CAP=2097152, every fill level)")
    if ra.violated:
        ck.violation("RtStreamAbs violates %s" % ra.violated, {"tlc.out": ra.out[-20000:]})
    rb = core.tlc("RtStreamAbs", "RtStreamAbs_Neg.cfg", timeout=600)
    ck.add_tlc(rb, "RtStreamAbs_Neg (must fail)")
    if not rb.violated:
        raise core.MachineryError("negative configuration RtStreamAbs_Neg no longer fails")

    ck.phase('tlc')
    apalache_inductive(ck)
    ck.phase('apalache')
    # ---- conformance
    win, rw = scripts_from_window(tier, rng)
    walks, rg = scripts_from_walks(120 if tier == "quick" else 2000, rng)
    extra = extra_scripts()
    # the other end of the buffer: every sequence of up to three small events (payload 0, 2, 12, 16 bytes)
    # before the first flush, then one more event (C01: without the execute event in front, so the first
    # flush finds 12..84 bytes)
    small = []
    for n in (1, 2, 3):
        for pays in itertools.product((0, 2, 12, 16), repeat=n):
            small.append([{"op": "emit", "pay": p_, "kind": "u"} for p_ in pays] + [{"op": "flush"}]
                         + [{"op": "emit", "pay": 8, "kind": "u"}, {"op": "flush"}])
    # segments (the events between two flushes) made of one kind of call only: a plain event, a mark,
    # one or two jumbo events that fit -- every sequence of up to three such segments
    segs = {"e": [{"op": "emit", "pay": 8, "kind": "u"}], "m": [{"op": "emit", "kind": "m", "pay": 12}],
            "j": [{"op": "jumbo", "n": 100}], "jj": [{"op": "jumbo", "n": 40}, {"op": "jumbo", "n": 3000}]}
    for n in (1, 2, 3):
        for ks in itertools.product(sorted(segs), repeat=n):
            ops = []
            for i_, k_ in enumerate(ks):
                ops += ([{"op": "flush"}] if i_ else []) + [dict(o) for o in segs[k_]]
            small.append(ops)
    nsmall = len(small)
    scripts = extra + win + walks
    ck.notes["scripts"] = {"window_transitions": len(win), "random_walks": len(walks),
                           "refusal_boundary": len(extra), "small_first_flush": nsmall}
    want_emu = (pid == "C02")

    # every third script runs under truthful short writes (write() transfers ~40% of large requests):
    # the full-write loop of the runtime must still put every byte on disk
    shim = core.cc_shim(bdir)

    def with_attr(ops):
        out = []
        for i_, o in enumerate(ops):
            out.append(o)
            if i_ == 0 or o["op"] == "flush":
                out.append({"op": "attr"})
        return out

    def one(x):
        k, ops = x
        if k % 9 == 7:
            ops = with_attr(ops)        # the thread also updates and flushes its metadata while it runs
        # C01 speaks of any events: a fifth of its scripts does not start with the execute event
        # (so the first flush can find very few bytes in the buffer); every seventh script uses a
        # 7-digit pid and tid
        return run_script(drv, bdir, ops, want_emu, shim=shim if k % 3 == 1 else None,
                          tmpdir=("alias" if k % 13 == 6 else "same" if k % 13 == 12 else (k % 3 == 2 or k % 6 == 1)),
                          protocol=(pid != "C01" or k % 5 != 4),
                          ids=(1048579, 4194301) if k % 7 == 3 else (1000, 1000), stale=(k % 11 == 5))

    ck.phase('generate')
    results = core.pmap(one, list(enumerate(scripts)), workers=core.NCPU)
    results += core.pmap(lambda ops: run_script(drv, bdir, ops, want_emu, protocol=(pid != "C01")), small,
                         workers=core.NCPU)
    scripts = scripts + small
    # programs with a time base of their own that starts at ZERO (no mark, no flush before the end: those are
    # stamped by the library with its own clock): the clocks handed over are the clocks in the stream
    # stack marks: nested pushes of different and of EQUAL values, popped in order
    def P(v):
        return {"op": "emit", "kind": "M[", "pay": 12, "v": v}

    def Q(v):
        return {"op": "emit", "kind": "M]", "pay": 12, "v": v}
    stackm = [[P(7), Q(7)], [P(7), P(8), Q(8), Q(7)], [P(7), P(7), Q(7), Q(7)], [P(7), P(7), P(7), Q(7), Q(7), Q(7)],
              [P(7), {"op": "flush"}, P(7), Q(7), {"op": "flush"}, Q(7)]]
    results += core.pmap(lambda ops: run_script(drv, bdir, ops, want_emu), stackm, workers=4)
    scripts = scripts + stackm
    ck.notes["scripts"]["stack_mark_programs"] = len(stackm)
    own = [[{"op": "emit", "pay": 8, "kind": "u"}], [{"op": "emit", "pay": 0, "kind": "u"}, {"op": "emit", "pay": 16, "kind": "u"}],
           [{"op": "jumbo", "n": 100}], [{"op": "emit", "pay": 2, "kind": "u"}, {"op": "jumbo", "n": 40}, {"op": "emit", "pay": 12, "kind": "u"}],
           []]
    results += core.pmap(lambda ops: run_script(drv, bdir, ops, want_emu, logical=True), own, workers=4)
    if pid == "C01":
        results += core.pmap(lambda ops: run_script(drv, bdir, ops, want_emu, logical=True, protocol=False), own[:4], workers=4)
        scripts = scripts + own + own[:4]
    else:
        scripts = scripts + own
    ck.notes["scripts"]["own_time_base_from_zero"] = len(own)
    ck.notes["scripts"]["under_short_writes"] = len([k for k in range(len(scripts)) if k % 3 == 1])
    ck.notes["scripts"]["relocated_from_tmpdir"] = len([k for k in range(len(scripts)) if k % 3 == 2 or k % 6 == 1])
    # multi-threaded protocol-conformant programs: 3 threads of one process, each running one of the
    # scripts above, all calling ovni_thread_free at the same time; two thirds relocate from OVNI_TMPDIR.
    # Every thread's stream is validated on its own (C01: exactly what that thread emitted).
    pool = [ops for ops in (win + walks) if not any(o["op"] == "jumbo" and o["n"] + 16 >= CAP for o in ops)]
    rng.shuffle(pool)
    ngroups = min(len(pool) // 3, 30 if tier == "quick" else 400)
    groups = [(pool[3 * g:3 * g + 3], g % 3 != 2, g % 4 == 1) for g in range(ngroups)]
    mtres = core.pmap(lambda g: run_mt(drv, bdir, g[0], want_emu, g[1], ranked=g[2]), groups, workers=max(2, core.NCPU // 3))
    for rs in mtres:
        results.extend(rs)
    if want_emu:
        # many threads: a process with 48 threads (48 streams), emulated with 40 file descriptors at most -
        # the number of streams of a trace is not bounded by the descriptors the emulator may hold
        many = run_mt(drv, bdir, [[] for _ in range(48)], True, False, emu_nofile=40)
        results.extend(many)
        ck.notes["scripts"]["threads_in_the_many_thread_program"] = 48
    ck.notes["scripts"]["three_thread_programs"] = {"programs": ngroups, "relocating_from_tmpdir": sum(1 for g in groups if g[1])}
    ck.phase('replay')
    executions = [r_["execution"] for r_ in results]
    tvr = tv.validate("RtStreamTrace", "RtStreamTrace.cfg", executions, {"op": "reset"},
                      chunk=max(50, len(executions) // 12 + 1), parallel=12)
    ck.phase('trace_validation')
    ck.cov["traces_validated_against_impl"] = len(tvr.accepted)
    ck.cov["states"] += tvr.states
    ck.cov["transitions"] += tvr.generated
    ck.notes["trace_validation"] = {"executions": len(executions), "accepted": len(tvr.accepted),
                                    "rejected": len(tvr.rejected), "tlc_runs": tvr.tlc_runs}
    flushes = 0
    for i, r_ in enumerate(results):
        fin = [x for x in r_["execution"] if x["op"] == "final"]
        nmark = sum(1 for x in (fin[0]["stream"] if fin else []) if x["k"] == "b")
        flushes += nmark
        ck.case(json.dumps(r_["ops"], sort_keys=True), nontrivial=nmark > 0 or not fin)
    ck.notes["forced_or_explicit_flush_pairs_seen_on_disk"] = flushes
    for (i, line, rec, tail, violated) in tvr.rejected:
        r_ = results[i]
        what = ("execution of libovni not explained by RtStream: op #%d %s%s\nscript:\n%s"
                % (line, json.dumps(rec)[:600], (" (invariant %s)" % violated) if violated else "",
                   "\n".join(r_["script"])))
        sig = classify(r_)
        ck.violation(what, {"script.txt": "\n".join(r_["script"]) + "\n",
                            "execution.ndjson": "\n".join(json.dumps(x) for x in r_["execution"]),
                            "tlc_tail.txt": tail}, sig=sig)
    for i, r_ in enumerate(results):
        for p in r_["problems"]:
            ck.violation("runtime stream problem: %s\nscript:\n%s" % (p, "\n".join(r_["script"])),
                         {"script.txt": "\n".join(r_["script"]) + "\n"}, sig=classify(r_))
        if want_emu and r_["emu"] is not None and not r_["emu"].accepted:
            ck.violation("trace produced through correct API use rejected by ovniemu -l (%s): %s\nscript:\n%s"
                         % (r_["emu"].verdict, r_["emu"].last_errors(), "\n".join(r_["script"])),
                         {"script.txt": "\n".join(r_["script"]) + "\n",
                          "emu.stderr": r_["emu"].text[-5000:]}, sig=classify(r_))
    for r_ in results[len(extra):len(extra) + 2] + results[-2:]:
        ck.sample({"script": r_["script"][:12], "execution_tail": r_["execution"][-1:] if r_["execution"] else []})
    if want_emu:
        ck.notes["ovniemu_runs"] = sum(1 for r_ in results if r_["emu"] is not None)
    ck.assumptions += [
        "CLOCK_MONOTONIC is monotone (the model uses a logical clock)",
        "payload/jumbo bytes are compared by the harness decoder against the emit log (TLA+ treats them as ids)",
        "TLC results are exhaustive within the stated constants (CAP=56 faithful; CAP=2 MiB size-abstracted)"]
    return ck.finish(rule="cases = op scripts replayed through libovni (every call at every fill level of the last "
                          "64 bytes before the 2 MiB capacity, TLC -simulate walks, refusal boundary); "
                          "non-trivial = the stream on disk contains at least one flush-marker pair "
                          "(a flush actually happened) or a refusal was exercised; distinct by op list")


def classify(r_):
    """Signature of a failing script for the known-findings file: the F1 shape is a
    jumbo event whose forced flush leaves less than 24 bytes for the markers."""
    evlen = 28
    for o in r_["ops"]:
        if o["op"] == "jumbo":
            tot = 16 + o["n"]
            if evlen + tot >= CAP and tot + 24 >= CAP and tot < CAP:
                return "jumbo-forced-flush-no-room-for-markers"
            if evlen + tot >= CAP:
                evlen = tot + 24
            else:
                evlen += tot
        elif o["op"] == "emit":
            sz = 12 + o["pay"]
            evlen = (sz + 24) if evlen + sz >= CAP else evlen + sz
        else:
            evlen = 24
    return "other"
