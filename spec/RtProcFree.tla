------------------------------ MODULE RtProcFree ------------------------------
(* Outcome validation for free-running executions of the real library (no
   gates): for every recorded execution (programs of the threads + the
   ok/refused outcome of every call each thread made) TLC searches an
   interleaving of RtProc that produces exactly these outcomes.  An execution
   for which no interleaving exists - e.g. two threads both returning from
   ovni_proc_fini - is not a behaviour of the specification.               *)
EXTENDS RtProc, Json, IOUtils

Log == ndJsonDeserialize(IOEnv.TRACE)
VARIABLE k                       \* which recorded execution this behaviour explains
fvars == <<vars, k>>

Want(t) == IF t <= Len(Log[k].outs) THEN Log[k].outs[t] ELSE <<>>
Cls(o) == IF o = "ok" THEN "ok" ELSE "refused"
\* what the model has produced so far is a prefix of what was observed
Consistent == \A t \in Threads :
                 /\ Len(out[t]) <= Len(Want(t))
                 /\ \A i \in 1..Len(out[t]) : Cls(out[t][i]) = Want(t)[i]
Explained == \A t \in Threads : Len(out[t]) = Len(Want(t)) /\ (dead[t] \/ ip[t] > Len(prog[t]) \/ Len(Want(t)) < Len(prog[t]))

FInit == /\ k \in 1..Len(Log)
         /\ st = "UNINIT" /\ rec = "unset"
         /\ prog = [t \in Threads |-> IF t <= Len(Log[k].progs) THEN Log[k].progs[t] ELSE <<>>]
         /\ ip = [t \in Threads |-> 1] /\ phase = [t \in Threads |-> 0]
         /\ thr = [t \in Threads |-> [ready |-> FALSE, finished |-> FALSE]]
         /\ stream = [t \in Threads |-> <<>>] /\ out = [t \in Threads |-> <<>>]
         /\ dead = [t \in Threads |-> FALSE] /\ winners = {} /\ finis = {} /\ last = <<>>
FNext == Next /\ UNCHANGED k
FSpec == FInit /\ [][FNext]_fvars

\* executions explained so far are accumulated in a TLC register (run with one worker)
Note == Explained => TLCSet(1, TLCGet(1) \cup {k})
Unexplained == (1..Len(Log)) \ TLCGet(1)
Report == PrintT(<<"UNEXPLAINED", Unexplained>>) /\ Unexplained = {}
ASSUME TLCSet(1, {})
=============================================================================
