SPECIFICATION Spec
CONSTANTS
  StackMax = 512
  NRows = 2
  Variant = "code"
  Tracks = {"any", "run", "act", "cpu"}
  Record = TRUE
  Setups <- SetupsExportTrackQ
INVARIANTS TypeOK DirtyListDrains FlushedIsShown StackDiscipline TrackView TimesSorted HeaderIsLastAdvance RegsDistinct Filter LogHeader
PROPERTIES StepProps
ACTION_CONSTRAINT Export
CHECK_DEADLOCK FALSE
