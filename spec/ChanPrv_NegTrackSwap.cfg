SPECIFICATION Spec
CONSTANTS
  StackMax = 2
  NRows = 2
  Variant = "track_swap"
  Tracks = {"any", "run", "act"}
  Record = TRUE
  Setups <- SetupsNegTr
INVARIANTS TypeOK DirtyListDrains FlushedIsShown StackDiscipline TrackView TimesSorted HeaderIsLastAdvance RegsDistinct Filter LogHeader
PROPERTIES StepProps
CHECK_DEADLOCK FALSE
