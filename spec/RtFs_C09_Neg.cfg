SPECIFICATION SpecCrash
CONSTANTS
  JsonLast = FALSE
  CheckCopy = TRUE
INVARIANTS C09a C09b
CHECK_DEADLOCK FALSE
