SPECIFICATION BSpec
CONSTANTS
  System <- SysC206Q
  Alphabet <- AlphaC206Q
  MaxLen = 8
  Lint = TRUE
  SortVariant = "code"
  StaleOK = TRUE
VIEW BView
INVARIANT BInv
ACTION_CONSTRAINT BExport
CHECK_DEADLOCK FALSE
