SPECIFICATION Spec
CONSTANTS
  NT = 2
  DefCalls <- DefsD
  EvCalls <- EvD
  MaxDefs <- MaxDefsDt
  MaxEv <- MaxEvD
  Variant = "neg_relabel"
VIEW View
PROPERTY DefsMonotone
CHECK_DEADLOCK FALSE
