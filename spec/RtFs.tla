-------------------------------- MODULE RtFs --------------------------------
(* File-system behaviour of the runtime for one thread (src/rt/ovni.c:
   ovni_thread_init, write_evbuf, thread_metadata_store, ovni_thread_free,
   move_thdir_to_final, move_thread_to_final, ovni_proc_fini): the literal
   sequence of system calls, a crash between any two of them (C09) and a
   single failing call (C10).

   The abstract file system holds, for the temporary (tmp) and the final
   (fin) thread directory, the stream file (number of bytes, -1 = absent)
   and the metadata file (absent / empty / init (no finished flag) / fin).
   The stream content is append-only, so a byte count identifies it.

   Calls are records [c |-> kind, w |-> "tmp"|"fin"|"", n |-> bytes].
   Script(...) is the call list of the code as written; the trace spec
   RtFsTrace checks that the system calls recorded with strace from the real
   library ARE this list.                                                 *)
EXTENDS Naturals, Integers, Sequences, FiniteSets, TLC

CONSTANTS JsonLast,    \* TRUE: relocation moves stream.json after every other file (fixed code)
                       \* FALSE: in readdir order (code of the pinned commit)
          CheckCopy    \* TRUE: the copy loop checks fwrite/fclose and keeps the source on failure (fixed code)
                       \* FALSE: results ignored, source removed afterwards (pinned commit)

VARIABLES sc,        \* scenario: [mode, flushes (seq of byte counts), chunk, rdorder, accept (set of byte counts)]
          pc,        \* next call (index into Script)
          obs,       \* [tmp |-> bytes|-1, fin |-> bytes|-1]
          json,      \* [tmp |-> state, fin |-> state]
          flushed,   \* ghost: bytes the thread has handed to write() on its stream so far
          status,    \* "running" | "killed" | "aborted" | "returned"
          fault,     \* 0 or the index of the call that failed
          copyfail,  \* the copy of the current file hit an error (ret = -1)
          moveok     \* all files moved so far without error

vars == <<sc, pc, obs, json, flushed, status, fault, copyfail, moveok>>

Call(c, w, n) == [c |-> c, w |-> w, n |-> n]

\* Bytes of a FINISHED earlier stream of the same loom / pid / tid that is in the final thread directory when
\* the thread starts (0 = none): left by an earlier run into the same trace directory, or by an earlier
\* thread of this very process that had the same thread id.
StaleOf(s) == IF "stale" \in DOMAIN s THEN s.stale ELSE 0
\* TRUE: thread start removes such metadata from the final directory (fixed code); FALSE: pinned commit
UnlinkStale == TRUE
No == FALSE

RECURSIVE SumTo(_, _)
SumTo(s, k) == IF k = 0 THEN 0 ELSE s[k] + SumTo(s, k - 1)
Total(s) == SumTo(s, Len(s))

\* the directory where the thread writes while it runs
Work(s) == IF s.mode = "tmp" THEN "tmp" ELSE "fin"

\* copy of `total` bytes through stdio: one write per full buffer + the rest at fclose
RECURSIVE CopyWrites(_, _, _)
CopyWrites(total, chunk, f) ==
   IF total = 0 THEN <<>>
   ELSE IF total <= chunk THEN <<Call("copy_write_" \o f, "fin", total)>>
   ELSE <<Call("copy_write_" \o f, "fin", chunk)>> \o CopyWrites(total - chunk, chunk, f)

MoveFile(s, f, jsonbytes) ==
   <<Call("copy_open_src_" \o f, "tmp", 0), Call("copy_open_dst_" \o f, "fin", 0)>>
   \o (IF f = "obs" THEN CopyWrites(8 + Total(s.flushes), s.chunk, "obs")
       ELSE <<Call("copy_write_json", "fin", jsonbytes)>>)
   \o <<Call("copy_close_dst_" \o f, "fin", 0), Call("copy_close_src_" \o f, "tmp", 0),
        Call("unlink_" \o f, "tmp", 0)>>

Script(s) ==
   LET w == Work(s) IN
   <<Call("mkdirs", w, 0)>>
   \* an old stream.json in the final directory is removed before anything is written
   \* ("fix: rt: remove stale metadata from the final directory when a thread starts")
   \o (IF s.mode = "tmp" /\ UnlinkStale THEN <<Call("unlink_json", "fin", 0)>> ELSE <<>>)
   \o <<Call("open_obs", w, 0), Call("write_obs", w, 8),
     Call("open_json", w, 0), Call("write_json_init", w, 0), Call("close_json", w, 0)>>
   \o [i \in 1..Len(s.flushes) |-> Call("write_obs", w, s.flushes[i])]
   \* the stream is closed (and the result checked) before it is marked finished
   \* ("fix: rt: close the stream before marking it finished")
   \o <<Call("close_obs", w, 0),
        Call("open_json", w, 0), Call("write_json_fin", w, 0), Call("close_json", w, 0)>>
   \o (IF s.mode = "tmp"
       THEN (IF JsonLast
             THEN \* fixed code: one pass over the directory for the stream, a second one for the metadata
                  <<Call("opendir", "tmp", 0)>> \o MoveFile(s, "obs", 0)
                  \o <<Call("opendir", "tmp", 0)>> \o MoveFile(s, "json", 0)
             ELSE <<Call("opendir", "tmp", 0)>>
                  \o (IF s.rdorder = "obs_first"
                      THEN MoveFile(s, "obs", 0) \o MoveFile(s, "json", 0)
                      ELSE MoveFile(s, "json", 0) \o MoveFile(s, "obs", 0)))
            \o <<Call("rmdir_thread", "tmp", 0)>>
       ELSE <<>>)
   \o <<Call("return_free", "", 0)>>

Cur == Script(sc)[pc]

-----------------------------------------------------------------------------
Init(s) == /\ sc = s /\ pc = 1
           /\ obs = [tmp |-> -1, fin |-> IF StaleOf(s) > 0 THEN StaleOf(s) ELSE -1]
           /\ json = [tmp |-> "absent", fin |-> IF StaleOf(s) > 0 THEN "fin" ELSE "absent"]
           /\ flushed = 0 /\ status = "running" /\ fault = 0 /\ copyfail = FALSE /\ moveok = TRUE

\* effect of a successful call
Effect(k) ==
   LET w == k.w IN
   CASE k.c = "open_obs"        -> /\ obs' = [obs EXCEPT ![w] = 0]     \* created or truncated ("fix: rt: truncate ...")
                                   /\ UNCHANGED <<json, flushed, copyfail, moveok>>
     [] k.c = "write_obs"       -> /\ obs' = [obs EXCEPT ![w] = @ + k.n] /\ flushed' = flushed + k.n
                                   /\ UNCHANGED <<json, copyfail, moveok>>
     [] k.c = "open_json"       -> json' = [json EXCEPT ![w] = "empty"] /\ UNCHANGED <<obs, flushed, copyfail, moveok>>
     [] k.c = "write_json_init" -> json' = [json EXCEPT ![w] = "init"] /\ UNCHANGED <<obs, flushed, copyfail, moveok>>
     [] k.c = "write_json_fin"  -> json' = [json EXCEPT ![w] = "fin"] /\ UNCHANGED <<obs, flushed, copyfail, moveok>>
     [] k.c = "copy_open_dst_obs"  -> obs' = [obs EXCEPT !.fin = 0] /\ copyfail' = FALSE
                                      /\ UNCHANGED <<json, flushed, moveok>>
     [] k.c = "copy_open_dst_json" -> json' = [json EXCEPT !.fin = "empty"] /\ copyfail' = FALSE
                                      /\ UNCHANGED <<obs, flushed, moveok>>
     [] k.c = "copy_write_obs"  -> obs' = [obs EXCEPT !.fin = @ + k.n] /\ UNCHANGED <<json, flushed, copyfail, moveok>>
     [] k.c = "copy_write_json" -> json' = [json EXCEPT !.fin = json.tmp] /\ UNCHANGED <<obs, flushed, copyfail, moveok>>
     [] k.c = "unlink_obs"      -> \* remove(src) only if the copy succeeded (fixed code) / always (pinned)
                                   /\ obs' = IF CheckCopy /\ copyfail THEN obs ELSE [obs EXCEPT !.tmp = -1]
                                   /\ moveok' = (moveok /\ ~copyfail)
                                   /\ UNCHANGED <<json, flushed, copyfail>>
     [] k.c = "unlink_json" /\ k.w = "fin"
                                -> /\ json' = [json EXCEPT !.fin = "absent"]
                                   /\ UNCHANGED <<obs, flushed, copyfail, moveok>>
     [] k.c = "unlink_json"     -> /\ json' = IF CheckCopy /\ copyfail THEN json ELSE [json EXCEPT !.tmp = "absent"]
                                   /\ moveok' = (moveok /\ ~copyfail)
                                   /\ UNCHANGED <<obs, flushed, copyfail>>
     [] OTHER -> UNCHANGED <<obs, json, flushed, copyfail, moveok>>

\* the fixed code does not move stream.json when another file could not be moved
SkipJsonMove(k) == CheckCopy /\ JsonLast /\ ~moveok /\
                   k.c \in {"copy_open_src_json", "copy_open_dst_json", "copy_write_json",
                            "copy_close_dst_json", "copy_close_src_json", "unlink_json"}

Step == /\ status = "running"
        /\ IF Cur.c = "return_free"
           THEN status' = "returned" /\ UNCHANGED <<sc, pc, obs, json, flushed, fault, copyfail, moveok>>
           ELSE IF Cur.c = "rmdir_thread" /\ CheckCopy /\ ~moveok
           THEN \* fixed code: die("errors occurred when moving the thread dir")
                status' = "aborted" /\ UNCHANGED <<sc, pc, obs, json, flushed, fault, copyfail, moveok>>
           ELSE /\ (IF SkipJsonMove(Cur) THEN UNCHANGED <<obs, json, flushed, copyfail, moveok>> ELSE Effect(Cur))
                /\ pc' = pc + 1 /\ UNCHANGED <<sc, status, fault>>

\* C09: the process is killed between two system calls
Crash == status = "running" /\ status' = "killed"
         /\ UNCHANGED <<sc, pc, obs, json, flushed, fault, copyfail, moveok>>

\* C10: one call fails.  Reaction of the code, per call site:
\*   die   : mkdirs, open_obs, write_obs, open/write/close of the metadata (json_serialize_to_file_pretty)
\*   copy  : errors inside move_thread_to_final -> ret = -1 (fixed) / ignored (pinned)
\*   ignore: opendir (err + return), unlink, rmdir (warning)
Dies(c)   == c \in {"mkdirs", "open_obs", "write_obs", "close_obs", "open_json", "write_json_init", "write_json_fin", "close_json"}
InCopy(c) == c \in {"copy_open_src_obs", "copy_open_dst_obs", "copy_write_obs", "copy_close_dst_obs",
                    "copy_open_src_json", "copy_open_dst_json", "copy_write_json", "copy_close_dst_json"}

NextUnlink == CHOOSE d \in 1..40 : Script(sc)[pc + d - 1].c \in {"unlink_obs", "unlink_json"}

Fail == /\ status = "running" /\ fault = 0 /\ Cur.c # "return_free" /\ ~SkipJsonMove(Cur)
        /\ fault' = pc /\ UNCHANGED sc
        /\ IF Dies(Cur.c) \/ (Cur.c = "unlink_json" /\ Cur.w = "fin")
           THEN \* die(): abort with a diagnostic; a metadata write that fails leaves the file truncated
                /\ status' = "aborted"
                /\ json' = IF Cur.c \in {"write_json_init", "write_json_fin", "close_json"}
                           THEN [json EXCEPT ![Cur.w] = "empty"] ELSE json
                /\ UNCHANGED <<pc, obs, flushed, copyfail, moveok>>
           ELSE IF Cur.c \in {"copy_open_src_obs", "copy_open_src_json"}
           THEN \* fopen(src) failed: move_thread_to_final returns -1 before touching anything
                /\ pc' = pc + NextUnlink /\ moveok' = FALSE
                /\ UNCHANGED <<obs, json, flushed, status, copyfail>>
           ELSE IF InCopy(Cur.c)
           THEN \* the destination lacks (at least) the bytes of the failed call
                /\ copyfail' = TRUE /\ pc' = pc + 1
                /\ UNCHANGED <<obs, json, flushed, status, moveok>>
           ELSE IF Cur.c = "opendir"
           THEN \* nothing (more) is moved; the fixed code dies, the pinned one warns and returns
                /\ (IF CheckCopy THEN status' = "aborted" /\ UNCHANGED pc
                    ELSE pc' = Len(Script(sc)) /\ UNCHANGED status)
                /\ UNCHANGED <<obs, json, flushed, copyfail, moveok>>
           ELSE \* close of the copy source, unlink, rmdir: warning only
                /\ pc' = pc + 1 /\ UNCHANGED <<obs, json, flushed, status, copyfail, moveok>>

Next == Step \/ Crash \/ Fail
NextNoFault == Step \/ Crash

-----------------------------------------------------------------------------
(* What the emulator makes of a directory: it accepts a stream when the
   metadata is complete and finished and the stream file holds a prefix that
   tiles and ends after the thread's end event: sc.accept is the set of byte
   counts with that property (for the full stream: 8 + Total(flushes)).   *)
FullBytes == 8 + Total(sc.flushes)
Visible(d)    == json[d] # "absent"
EmuAccepts(d) == json[d] = "fin" /\ (obs[d] \in sc.accept \/ (StaleOf(sc) > 0 /\ obs[d] = StaleOf(sc)))
Complete(d)   == json[d] = "fin" /\ obs[d] = FullBytes

\* C09a: a killed run is never accepted with flushed events missing
C09a == status = "killed" =>
          \A d \in {"tmp", "fin"} : EmuAccepts(d) => obs[d] >= flushed
\* C09b: a stream is marked finished only after all its flushed bytes are in their final place
C09b == json.fin = "fin" => obs.fin >= flushed
\* C10a: a normal return leaves a complete valid copy (tmp or final)
C10a == status = "returned" => (Complete("tmp") \/ Complete("fin"))
\* C10b: the only complete copy is never deleted: at every step some directory holds
\*       everything that was flushed (the stream file is only ever removed after a complete copy)
C10b == (status # "aborted" /\ flushed > 0) => (obs.tmp >= flushed \/ obs.fin >= flushed)
\* C10c: no silent loss: whenever the run returned normally, nothing accepted lacks flushed bytes
C10c == status = "returned" => \A d \in {"tmp", "fin"} : EmuAccepts(d) => obs[d] >= flushed

-----------------------------------------------------------------------------
(* Bounded family for TLC *)
Scen(m, f, c, r, a) == [mode |-> m, flushes |-> f, chunk |-> c, rdorder |-> r, accept |-> a, stale |-> 0]
Scenarios ==
   {[Scen(m, f, c, r, {8 + Total(f)} \cup x) EXCEPT !.stale = st] :
      m \in {"direct", "tmp"}, f \in {<<3>>, <<2, 3>>, <<4, 4>>}, c \in {2, 4, 100},
      r \in {"json_first", "obs_first"},
      x \in {{}} \cup {{p} : p \in 9..15}, st \in {0, 9, 20}}
MCInit == \E s \in Scenarios : Init(s)
SpecCrash == MCInit /\ [][NextNoFault]_vars
SpecFault == MCInit /\ [][Next]_vars
=============================================================================
