\* guarded design: every invariant holds
SPECIFICATION Spec
CONSTANTS
  W = 8
  Sizes <- SzAll
  Guarded = TRUE
  JSizes <- JSAll
  JFlags <- JFAll
  MaxStr = 12
INVARIANTS TypeOK CursorInBounds Progress HeaderReadInBounds ReadsWithinEvent VerdictIsExit0or1 StepIsExtent
CHECK_DEADLOCK FALSE
