\* negative configuration: Variant = "lenient_parser" is a deliberately wrong implementation layer; TLC must refute it
SPECIFICATION Spec
CONSTANTS
  Alphabet = {"0", "1", "2", ".", "-", "a"}
  MaxLen = 6
  MaxV = 0
  HaveCodes = {11100, 10100, 10000, 20400}
  Models = {"ovni", "nosv"}
  CoreModel = "ovni"
  Variant = "lenient_parser"
INVARIANTS
  CompatRefines Reflexive MajorStrict MonotoneHaveMinor AntitoneWantMinor PatchIgnored Transitive RoundTrip
  ParseRefines StrictInLenient SuffixIgnored NonNegative RequireRefines
  ModelRefines EnabledExactly ForcedAll RequireMoreIsSafe UnrequiredRejected
CHECK_DEADLOCK FALSE
