SPECIFICATION Spec
CONSTANTS
  Tiny = TRUE
  WithOrders = FALSE
  SampleMod = 3
INVARIANTS MergeMatchesUnion ValidAreAccepted RowsIndependent MixedAccepted MixedRowsIndependent ExportInv
CHECK_DEADLOCK FALSE
