----------------------------- MODULE PlayerEnum -----------------------------
(* Explicit systems.  (1) XSpec: for every system within the bounds the whole
   replay of the implementation, as a function of the order in which the
   file system enumerates the stream directories, is a run of Merge and does
   not depend on that order (trace_load sorts the list by relative path).
   (2) export of the systems replayed end to end on the real tools, and a
   generator of larger systems for -simulate.                              *)
EXTENDS Player

VARIABLES xsys, xphase, xcur
xvars == <<xsys, xphase, xcur>>
XInit == IsExplicitSystem(xsys) /\ xphase = 0 /\ xcur = 0
XNext == xphase = 0 /\ xphase' = 1 /\ UNCHANGED <<xsys, xcur>>
XSpec == XInit /\ [][XNext]_xvars

Canonical(sys) == RunAll(sys, LoadOrder(sys, [i \in 1..NStreams(sys) |-> i]))
XRefinesMerge == xphase = 1 => (LET r == Canonical(xsys) IN ~r.err /\ IsMergeRun(xsys, r.out))
IndependentOfEnumeration ==
   xphase = 1 => \A e \in Enumerations(xsys) : RunAll(xsys, LoadOrder(xsys, e)) = Canonical(xsys)

\* export of the explicit systems (cases for the end-to-end replay)
SysJson(sys) == ToJson([loom |-> sys.loom, off |-> sys.off, clocks |-> sys.clocks])
XExport == xphase = 0 => PrintT(<<"TR", SysJson(xsys)>>)

(* Generator of larger systems (run with -simulate): first the shape, then
   the streams one event at a time; xphase = 1 when the system is complete *)
GInit == /\ \E n \in 1..NS : \E lm \in LoomAssignments(n) : \E of \in [Looms -> Offsets] :
               xsys = [loom |-> lm, off |-> of, clocks |-> [s \in 1..n |-> <<>>], base |-> Base, tool |-> "emu"]
         /\ xcur = 1 /\ xphase = 0
GNext == /\ xphase = 0
         /\ LET q == xsys.clocks[xcur]
                lastc == IF q = <<>> THEN MinOf(Clocks) ELSE q[Len(q)]
                n == NStreams(xsys)
            IN \/ /\ Len(q) < MaxEv
                  /\ \E c \in {x \in Clocks : x >= lastc} :
                        xsys' = [xsys EXCEPT !.clocks[xcur] = Append(q, c)]
                  /\ UNCHANGED <<xcur, xphase>>
               \/ /\ UNCHANGED xsys                       \* close this stream
                  /\ IF xcur < n THEN xcur' = xcur + 1 /\ xphase' = 0
                                 ELSE xcur' = xcur /\ xphase' = 1
GSpec == GInit /\ [][GNext]_xvars
GExport == xphase = 1 => PrintT(<<"TR", SysJson(xsys)>>)
=============================================================================
