SPECIFICATION Spec
CONSTANTS
  MaxNodes = 6
  Keys = {0,1,2,3}
  MaxOps = 0
  HVariant = "ok"
  Grammar = "any"
INVARIANTS WellFormed SizeIsCount
PROPERTIES PopIsMin
CHECK_DEADLOCK FALSE
