SPECIFICATION BSpec
CONSTANTS
  System <- SysC2062L
  Alphabet <- AlphaC2062L
  MaxLen = 8
  Lint = TRUE
  SortVariant = "code"
  StaleOK = TRUE
VIEW BView
INVARIANT BInv
ACTION_CONSTRAINT BExport
CHECK_DEADLOCK FALSE
