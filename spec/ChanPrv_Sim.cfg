SPECIFICATION Spec
CONSTANTS
  StackMax = 512
  NRows = 2
  Variant = "code"
  Tracks = {}
  Record = TRUE
  Setups <- SetupsSim
INVARIANTS TypeOK DirtyListDrains FlushedIsShown StackDiscipline TrackView TimesSorted HeaderIsLastAdvance RegsDistinct Filter LogHeader
PROPERTIES StepProps
ACTION_CONSTRAINT Export LateClose
CHECK_DEADLOCK FALSE
