"""C17, runtime side of the mark API (called by checks/emu_marks.py).

spec/MarkRt.tla is the runtime model of ovni_mark_type / _label / _push /
_pop / _set plus the emulator's merge of the definitions of all threads.
TLC explores every two-thread program within the bounds of two
configurations (D: definitions and conflicts, E: events), checks the
invariants and exports one program per final state together with what must
happen: the outcome of every call, the ovni.mark metadata and the OM events of
each thread, the merge verdict, the mark table and the PCF sections.

Conformance: every (sampled, quick tier) program is executed against the real
library, one process per thread (drivers/markdrive.c, die() observed through
the abort interposer), and compared with the exported expectation; traces of
programs without refusal are emulated with `ovniemu -l`: definition conflicts
must be refused, otherwise the decoded streams + the timelines observed in
thread.prv / cpu.prv are validated by TLC against spec/EmuTrace.tla with the
mark table computed by MarkRt, and thread.pcf / cpu.pcf must declare exactly
the merged types and labels.

No expected value is computed here: this module encodes scripts, runs the
binaries and projects logs, streams, metadata, PRV and PCF files.
"""
import json
import os
import random
import shutil
import struct
import subprocess
import tempfile

from vlib import core, obs, emu, synth, tv

LOOM = "nodeA"
SYSTEM = {
    "threads": [{"tid": 1000, "pid": 1000, "app": 1, "loom": 1, "rank": -1},
                {"tid": 2000, "pid": 2000, "app": 2, "loom": 1, "rank": -1}],
    "cpus": [{"loom": 1, "idx": 0, "phy": 0, "virt": False},
             {"loom": 1, "idx": 1, "phy": 1, "virt": False},
             {"loom": 1, "idx": -1, "phy": -1, "virt": True}],
}
# thread state changes woven between the mark calls (scheduling context of the
# program: the mark timelines are gated by the thread state); every chain is
# legal and ends in a state from which OHe is legal
PLANS = [[], [], [], ["OHp", "OHr"], ["OHc", "OHp", "OHw", "OHr"], ["OHc"],
         ["OHp", "OHw", "OHr"], ["OHc", "OHp", "OHr"], ["OHp", "OHr", "OHc"]]
INT32 = 2 ** 31


# --------------------------------------------------------------------------
# TLC

def explore(tier):
    quick = tier == "quick"
    jobs = [("D", "MarkRt_D.cfg" if quick else "MarkRt_D_Thorough.cfg"),
            ("E", "MarkRt_E.cfg" if quick else "MarkRt_E_Thorough.cfg"),
            ("NegChan", "MarkRt_NegChan.cfg"), ("NegRelabel", "MarkRt_NegRelabel.cfg")]

    def one(j):
        # one worker: breadth-first order, hence the representative program of
        # every state, is deterministic
        return core.tlc("MarkRt", j[1], workers=1 if quick else 4, timeout=3000, heap="6g")

    rs = core.pmap(one, jobs, threads=True)
    return {j[0]: (j[1], r) for j, r in zip(jobs, rs)}


def select(lines, budget, rng):
    """Canonical order, then (quick tier) a sample stratified by the class
    computed by the spec (refusal reason / conflict kinds / kinds of events /
    events matching the merged table): 60% of the budget for programs whose
    calls are all accepted, 40% for the refusals."""
    progs = sorted((p for tg, p in lines), key=lambda p: json.dumps(p, sort_keys=True))
    if budget is None or len(progs) <= budget:
        return progs
    out = []
    for share, want in ((0.6, True), (0.4, False)):
        by = {}
        for p in progs:
            if (p["fate"][0] == "run") == want:
                by.setdefault(p["cls"], []).append(p)
        if not by:
            continue
        b = int(budget * share)
        cap = max(2, b // len(by))
        got, rest = [], []
        for k in sorted(by):
            lst = by[k]
            rng.shuffle(lst)
            got += lst[:cap]
            rest += lst[cap:]
        # the remainder goes to the programs the emulator can run to the end
        rest.sort(key=lambda p: not p["wk"])
        nwk = sum(1 for p in rest if p["wk"])
        head, tail = rest[:nwk], rest[nwk:]
        rng.shuffle(head)
        rng.shuffle(tail)
        got += (head + tail)[:max(0, b - len(got))]
        out += got
    # two-call cover: every ordered pair (call kind and type number, next call with its arguments and outcome)
    # that some thread of some exported program makes is made by a selected program
    def pairs(p):
        ks = set()
        for th in p["progs"]:
            for c1, c2 in zip(th, th[1:]):
                ks.add((c1["op"], c1["t"], c2["op"], c2["t"], c2["v"], c2["s"], c2.get("out", "")))
        return ks
    have = set()
    chosen = set(id(p) for p in out)
    for p in out:
        have |= pairs(p)
    for p in progs:
        if id(p) in chosen:
            continue
        new = pairs(p) - have
        if new:
            out.append(p)
            have |= new
    return out


# --------------------------------------------------------------------------
# one program on the real library and emulator

def call_line(c):
    if c["op"] == "type":
        return "mark_type %d %d %s" % (c["t"], c["v"], c["s"] if c["s"] != "" else '""')
    if c["op"] == "label":
        return "mark_label %d %d %s" % (c["t"], c["v"], c["s"] if c["s"] != "" else '""')
    return "mark_%s %d %d" % (c["op"], c["t"], c["v"])


def compose(k, calls, plan, where):
    """Script of thread k (1-based).  Returns (lines, index of the script line of
    each call, raw events emitted around the calls)."""
    pid = 1000 * k
    lines = ["proc_init %d %s %d" % (k, LOOM, pid), "thread_init %d" % pid]
    if k == 1:
        lines += ["cpu 0 0", "cpu 1 1"]
    raw = ["OHx"]
    lines.append("emitraw OHx " + struct.pack("<iiQ", k - 1, pid, 7).hex())
    at = []
    g = 0
    for i, c in enumerate(calls):
        while g < len(plan) and where[g] <= i:
            lines.append("emitraw %s -" % plan[g])
            raw.append(plan[g])
            g += 1
        at.append(len(lines))
        lines.append(call_line(c))
    while g < len(plan):
        lines.append("emitraw %s -" % plan[g])
        raw.append(plan[g])
        g += 1
    lines += ["emitraw OHe -", "flush", "free", "fini"]
    raw.append("OHe")
    return lines, at, raw


def project_meta(meta):
    """ovni.mark of a stream.json in the shape of MarkRt's T and L"""
    T, L = [], []
    mk = meta.get("ovni", {}).get("mark", {})
    for t, d in mk.items():
        try:
            t = int(t)
        except ValueError:
            pass
        T.append([t, d.get("chan_type"), d.get("title")])
        for v, lab in (d.get("labels") or {}).items():
            try:
                v = int(v)
            except ValueError:
                pass
            L.append([t, v, lab])
    return sorted(T, key=repr), sorted(L, key=repr)


def args_of(e):
    p = e["payload"]
    if e["mcv"] == "OHx" and len(p) == 16:
        return list(struct.unpack("<iiQ", p))
    if e["mcv"].startswith("OM") and len(p) == 12:
        return list(struct.unpack("<qi", p))
    if len(p) % 4 == 0:
        return list(struct.unpack("<%di" % (len(p) // 4), p))
    return list(p)


def project_pcf(path):
    out = []
    for ty, (title, vals) in emu.Pcf(path).types.items():
        if 100 <= ty < 200:
            out.append([ty, title, sorted([v, l] for v, l in vals.items())])
    return sorted(out)


def canon(x):
    return sorted(([a, b, sorted(c)] if isinstance(c, list) else [a, b, c]) for a, b, c in x)


def scratch():
    """tmpfs when there is one (directory operations of the two processes and
    of the emulator dominate the cost of a replay on the disk file system)"""
    if os.path.isdir("/dev/shm") and os.access("/dev/shm", os.W_OK):
        return tempfile.mkdtemp(prefix="verif-mk-", dir="/dev/shm")
    return core.mkscratch("mk")


def replay(drv, bdir, item):
    """item = (family, index, program).  Returns a dict with the findings
    (sig, text), the EmuTrace execution (or None) and the artefacts."""
    fam, idx, P = item
    rng = random.Random("%d/%s/%d" % (core.seed(), fam, idx))
    res = {"fam": fam, "idx": idx, "findings": [], "execution": None, "files": {}, "emu": None,
           "stage": "runtime", "nev": 0, "plans": [], "refused_at": None, "unspec": None}
    allok = all(c["out"] == "ok" for th in P["progs"] for c in th)
    d = scratch()
    try:
        td = os.path.join(d, "ovni")
        procs, scripts = [], []
        for k in (1, 2):
            calls = P["progs"][k - 1]
            plan = rng.choice(PLANS) if allok else []
            where = sorted(rng.randint(0, len(calls)) for _ in plan)
            lines, at, raw = compose(k, calls, plan, where)
            scripts.append((lines, at, raw))
            res["plans"].append(plan)
            sp = os.path.join(d, "script%d" % k)
            open(sp, "w").write("\n".join(lines) + "\n")
            res["files"]["script%d.txt" % k] = "\n".join(lines) + "\n"
        env = dict(os.environ)
        env["OVNI_TRACEDIR"] = td
        for k in (1, 2):        # the two processes run concurrently
            procs.append(subprocess.Popen([drv, os.path.join(d, "script%d" % k), os.path.join(d, "log%d" % k)],
                                          cwd=d, env=env, stdout=subprocess.DEVNULL, stderr=subprocess.PIPE))
        rcs = []
        for p in procs:
            try:
                _, err = p.communicate(timeout=60)
                rcs.append((p.returncode, err.decode("latin1")[-600:]))
            except subprocess.TimeoutExpired:
                p.kill()
                p.communicate()
                rcs.append((None, "timeout"))

        def bad(sig, text):
            res["findings"].append((sig, text))

        # ---- runtime outcome of every call
        died = [False, False]
        leaked = None            # a call that must be refused and was accepted by the runtime
        for k in (1, 2):
            lines, at, raw = scripts[k - 1]
            lp = os.path.join(d, "log%d" % k)
            log = [json.loads(l) for l in open(lp)] if os.path.exists(lp) else []
            res["files"]["log%d.ndjson" % k] = "\n".join(json.dumps(x) for x in log) + "\n"
            seen = {e["i"]: e for e in log}
            rc, err = rcs[k - 1]
            aborted = [e for e in log if e.get("aborted")]
            if rc is None or rc not in (0, 3) or (rc == 3) != bool(aborted):
                bad("rt:crash", "thread %d: driver exit status %s, log %s: %s" % (k, rc, log[-1:], err))
                died[k - 1] = True
                continue
            died[k - 1] = rc == 3
            abort_i = aborted[0]["i"] if aborted else None
            calls = P["progs"][k - 1]
            for c, li in zip(calls, at):
                if abort_i is not None and li > abort_i:
                    break
                obs_out = "aborted" if li == abort_i else ("ok" if li in seen else "missing")
                if c["out"] == "ok" and obs_out != "ok":
                    bad("rt:%s:refused" % c["op"], "thread %d: %s must be accepted, the runtime %s"
                        % (k, call_line(c), obs_out))
                elif c["out"] == "unspecified":
                    res["unspec"] = "%s %s: %s by the runtime" % (c["op"], "same arguments" if c["v"] >= 0 else "v<0",
                                                                "refused" if obs_out == "aborted" else "accepted")
                elif c["out"] == "refused":
                    if obs_out == "aborted":
                        res["refused_at"] = "runtime"
                    elif obs_out == "ok":
                        leaked = (k, c)
                    else:
                        bad("rt:crash", "thread %d: no log line for %s" % (k, call_line(c)))
            if abort_i is not None and abort_i not in at:
                bad("rt:abort-elsewhere", "thread %d: the library aborted in script line %d (%s), not in a mark call"
                    % (k, abort_i, lines[abort_i]))
        if any(died):
            return res

        # ---- what the threads left on disk
        res["stage"] = "trace"
        events = []
        mismatch = False
        for k in (1, 2):
            lines, at, raw = scripts[k - 1]
            sdir = obs.stream_dir(td, LOOM, 1000 * k, 1000 * k)
            try:
                meta, data = obs.read_stream(sdir)
                evs = obs.decode(data)
            except Exception as ex:  # noqa
                bad("rt:stream", "thread %d: cannot read the stream: %r" % (k, ex))
                return res
            res["files"]["stream%d.json" % k] = json.dumps(meta, indent=1)
            clean = all(c["out"] == "ok" for c in P["progs"][k - 1])
            T, L = project_meta(meta)
            res["files"]["observed_meta%d.json" % k] = json.dumps({"T": T, "L": L})
            if clean and (T != sorted(P["metas"][k - 1]["T"], key=repr) or L != sorted(P["metas"][k - 1]["L"], key=repr)):
                bad("rt:meta", "thread %d: ovni.mark in stream.json is T=%s L=%s, expected T=%s L=%s"
                    % (k, T, L, P["metas"][k - 1]["T"], P["metas"][k - 1]["L"]))
                mismatch = True
            if meta.get("ovni", {}).get("finished") != 1:
                bad("rt:meta", "thread %d: stream not marked finished" % k)
            om = [[e["mcv"]] + args_of(e) for e in evs if e["mcv"].startswith("OM")]
            other = [e["mcv"] for e in evs if not e["mcv"].startswith("OM")]
            if clean and om != P["evs"][k - 1]:
                bad("rt:events", "thread %d: mark events in the stream %s, expected %s" % (k, om, P["evs"][k - 1]))
                mismatch = True
            if other != raw:
                bad("rt:stream", "thread %d: events around the marks %s, emitted %s" % (k, other, raw))
                mismatch = True
            for n, e in enumerate(evs):
                events.append((e["clock"], k, n, e))
        events.sort(key=lambda x: x[:3])
        res["nev"] = sum(1 for x in events if x[3]["mcv"].startswith("OM"))

        # ---- emulation
        res["stage"] = "emulation"
        r = emu.ovniemu(bdir, td, ("-l",), timeout=60)
        res["emu"] = r.verdict
        res["files"]["emu_stderr.txt"] = r.text[-5000:]
        if r.signal or r.timeout or r.sanitizer or r.verdict not in ("ok", "fail"):
            bad("emu:crash", "ovniemu %s on the trace of the program" % r.verdict)
            return res
        if leaked is not None:
            k, c = leaked
            if r.accepted:
                bad("rt:%s:accepted" % c["op"], "thread %d: %s must be refused; the runtime accepted it and "
                    "ovniemu accepted the trace" % (k, call_line(c)))
            else:
                res["refused_at"] = "emulation"
            return res
        if not allok or mismatch:
            return res           # unspecified call, or already reported
        if P["merge"]["conflict"]:
            if r.accepted:
                bad("merge:accepted", "definitions in conflict (%s) accepted by ovniemu" % ",".join(P["merge"]["kinds"]))
            elif "emulation starts" in r.text:
                bad("merge:late", "definitions in conflict (%s) not refused when the trace is loaded: %s"
                    % (",".join(P["merge"]["kinds"]), r.last_errors()))
            else:
                res["refused_at"] = "load"
            return res
        # agreeing definitions: the run is explained by EmuTrace with the merged table
        system = dict(SYSTEM, marks=P["marks"], models=["O"])
        clocks = [x[0] for x in events]
        vs, perr = None, None
        if os.path.exists(os.path.join(td, "thread.prv")) and os.path.exists(os.path.join(td, "thread.row")):
            try:
                vs, _ = synth.views(td, system, clocks)
            except Exception as ex:  # noqa
                perr = repr(ex)
        if perr:
            bad("emu:projection", "cannot project the Paraver output: " + perr)
            return res
        recs = [dict(synth.sys_record(system), lint=True, marks=P["marks"], models=["O"])]
        for i, (clk, k, n, e) in enumerate(events):
            a = args_of(e)
            if any(abs(x) >= INT32 for x in a):
                bad("rt:events", "thread %d: event %s with arguments %s" % (k, e["mcv"], a))
                return res
            tie = any(c2 == clk for j, c2 in enumerate(clocks) if j > i)
            hasview = vs is not None and not tie
            recs.append({"e": "ev", "th": k, "m": e["mcv"], "mc": e["mcv"][0], "a": a, "j": bool(e["jumbo"]),
                         "hasview": hasview, "view": vs[i] if hasview else []})
        recs.append({"e": "end", "verdict": r.verdict})
        res["execution"] = recs
        res["files"]["execution.ndjson"] = "\n".join(json.dumps(x) for x in recs) + "\n"
        if r.accepted:
            res["stage"] = "pcf"
            want = canon(P["pcf"])
            for f in ("thread.pcf", "cpu.pcf"):
                p = os.path.join(td, f)
                got = project_pcf(p) if os.path.exists(p) else None
                if got != want:
                    bad("pcf", "%s declares the mark types %s, expected %s" % (f, got, want))
        return res
    finally:
        shutil.rmtree(d, ignore_errors=True)


# --------------------------------------------------------------------------

def validate(executions, cap=3, nchunks=8):
    """tv.validate with a bound on the work spent on rejections: after `cap`
    rejected executions in a chunk the rest of the chunk is left unvalidated
    (reported as such; the check has failed anyway).  Returns (accepted indices,
    rejected [(index, line, record, tlc_tail)], skipped indices, stats)."""
    n = len(executions)
    size = max(40, n // nchunks + 1)
    chunks = [list(range(i, min(i + size, n))) for i in range(0, n, size)]

    def do_chunk(idx):
        acc, rej, runs = [], [], []
        pending = list(idx)
        while pending and len(rej) < cap:
            r = tv._run("EmuTrace", "EmuTrace.cfg", [executions[i] for i in pending], None, 1, 1800, False)
            runs.append(r)
            if r["accepted"]:
                acc += pending
                pending = []
                break
            if r["error"]:
                raise core.MachineryError("trace validation failed to run: %s\n%s" % (r["error"], r["tail"]))
            pos, badk = 0, None
            for k, i in enumerate(pending):
                if r["consumed"] < pos + len(executions[i]):
                    badk = k
                    break
                pos += len(executions[i])
            if badk is None:
                raise core.MachineryError("trace validation: inconsistent consumed count\n" + r["tail"])
            i = pending[badk]
            line = r["consumed"] - pos
            acc += pending[:badk]
            rej.append((i, line, executions[i][line], r["tail"]))
            pending = pending[badk + 1:]
        return acc, rej, pending, runs

    outs = core.pmap(do_chunk, chunks, workers=nchunks, threads=True)
    acc, rej, skipped = [], [], []
    st = {"tlc_runs": 0, "states": 0, "generated": 0}
    for a, r, p, runs in outs:
        acc += a
        rej += r
        skipped += p
        for x in runs:
            st["tlc_runs"] += 1
            st["states"] += x["states"]
            st["generated"] += x["generated"]
    return acc, rej, skipped, st


def run(ck, bdir, tier):
    quick = tier == "quick"
    rng = random.Random(core.seed())
    drv = core.cc_driver(bdir, "markdrive.c")
    runs = explore(tier)
    for name in ("D", "E"):
        cfg, r = runs[name]
        core.tlc_expect_ok(r, cfg)
        ck.add_tlc(r, "MarkRt/%s (runtime mark API + merge of the threads' definitions)" % cfg)
        if r.violated:
            ck.violation("MarkRt (%s) violates %s: the model mirrors src/rt/ovni.c and src/emu/ovni/mark.c"
                         % (cfg, r.violated), {"tlc.out": r.out[-20000:]}, sig="markrt-model")
        if not r.lines:
            raise core.MachineryError("no programs exported by %s:\n%s" % (cfg, r.out[-1500:]))
    for name, must in (("NegChan", "ConflictsRefused"), ("NegRelabel", "DefsMonotone")):
        cfg, r = runs[name]
        ck.add_tlc(r, "MarkRt/%s (must fail)" % cfg)
        if not r.violated or must not in r.violated:
            raise core.MachineryError("negative configuration %s is no longer refuted (%s): vacuous model\n%s"
                                      % (cfg, r.violated or r.error, r.out[-1500:]))
    items = []
    exported = {}
    for name, budget, deep in (("D", 1200, 40000), ("E", 2400, 60000)):
        lines = runs[name][1].lines
        exported[name] = len(lines)
        sel = select(lines, budget if quick else deep, rng)
        items += [(name, i, p) for i, p in enumerate(sel)]
    ck.phase("runtime_tlc")

    results = core.pmap(lambda it: replay(drv, bdir, it), items)
    ck.phase("runtime_replay")

    with_exec = [i for i, r_ in enumerate(results) if r_["execution"] is not None and not r_["findings"]]
    executions = [results[i]["execution"] for i in with_exec]
    rejected, skipped = {}, set()
    if executions:
        acc, rej, skp, st = validate(executions)
        ck.cov["states"] += st["states"]
        ck.cov["transitions"] += st["generated"]
        for (j, line, rec, tail) in rej:
            rejected[with_exec[j]] = (line, rec, tail)
        skipped = set(with_exec[j] for j in skp)
        tv_note = {"executions": len(executions), "accepted": len(acc), "rejected": len(rej),
                   "not_validated_after_rejections": len(skp), "tlc_runs": st["tlc_runs"]}
    else:
        tv_note = {"executions": 0}
    ck.phase("runtime_trace_validation")

    agree = 0
    unspec = {}
    stats = {"refused_at_runtime": 0, "refused_in_emulation": 0, "conflicts_refused_at_load": 0,
             "unspecified_calls": 0, "emulated": 0, "emulator_ok": 0, "emulator_fail_as_specified": 0,
             "mark_events_emulated": 0, "with_thread_state_changes": 0}
    for i, ((fam, idx, P), r_) in enumerate(zip(items, results)):
        ncalls = sum(len(th) for th in P["progs"])
        ck.case("rt/" + json.dumps([P["progs"], r_["plans"]], sort_keys=True), nontrivial=ncalls >= 2)
        bundle = dict(r_["files"])
        bundle["program.json"] = P
        head = ("runtime mark program (MarkRt %s #%d): thread 1: %s | thread 2: %s"
                % (fam, idx, "; ".join(call_line(c) for c in P["progs"][0]) or "-",
                   "; ".join(call_line(c) for c in P["progs"][1]) or "-"))
        for sig, text in r_["findings"]:
            ck.violation("runtime mark API [%s]\n%s\n%s" % (sig, text, head), bundle, sig=sig)
        if i in rejected:
            line, rec, tail = rejected[i]
            bundle["tlc_tail.txt"] = tail
            ck.violation("runtime mark API [emu:%s]\novniemu behaviour on the trace written by the mark API is not "
                         "explained by EmuTrace with the mark table %s at record #%d: %s\nemulator verdict: %s\n%s"
                         % (rec.get("m") or rec.get("e"), json.dumps(P["marks"]), line, json.dumps(rec)[:1200],
                            r_["emu"], head),
                         bundle, sig="emu:%s" % (rec.get("m") or rec.get("e")))
        if not r_["findings"] and i not in rejected and i not in skipped:
            agree += 1
        if r_["refused_at"] == "runtime":
            stats["refused_at_runtime"] += 1
        elif r_["refused_at"] == "emulation":
            stats["refused_in_emulation"] += 1
        elif r_["refused_at"] == "load":
            stats["conflicts_refused_at_load"] += 1
        if r_["unspec"]:
            stats["unspecified_calls"] += 1
            unspec[r_["unspec"]] = unspec.get(r_["unspec"], 0) + 1
        if r_["execution"] is not None:
            stats["emulated"] += 1
            stats["mark_events_emulated"] += r_["nev"]
            stats["emulator_ok" if r_["emu"] == "ok" else "emulator_fail_as_specified"] += 1
            if any(r_["plans"]):
                stats["with_thread_state_changes"] += 1
    ck.cov["traces_validated_against_impl"] += agree
    for it, r_ in list(zip(items, results))[:1] + list(zip(items, results))[-1:]:
        ck.sample({"kind": "runtime", "program": it[2]["progs"], "merge": it[2]["merge"], "emulator": r_["emu"]})
    ck.notes["runtime_marks"] = dict(stats, programs_exported_by_tlc=exported, programs_replayed=len(items),
                                     agreeing=agree, trace_validation=tv_note, unspecified_calls_observed=unspec,
                                     sampling="stratified by refusal reason / conflict kinds / event kinds "
                                              "(all exported programs when they fit the budget)")
    ck.assumptions += [
        "runtime marks: one process per thread, started concurrently; CLOCK_MONOTONIC orders their events "
        "(events with equal clocks are replayed without comparing the view)",
        "runtime marks: thread state changes (OHp/OHr/OHc/OHw) woven between the calls are inputs chosen with "
        "VERIF_SEED, their effect on the timelines is decided by EmuTrace",
        "runtime marks: repeating a definition with the same arguments in the same thread and negative label "
        "values are unspecified (either outcome accepted); a call that must be refused may be refused by the "
        "runtime or by the emulator"]
    return agree
