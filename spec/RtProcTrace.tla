----------------------------- MODULE RtProcTrace -----------------------------
(* Trace validation for RtProc: the steps recorded by drivers/mtdrive while
   replaying a schedule on the real library.
     {"e":"plan","progs":[[ops]...]}                      start of an execution
     {"e":"step","t":..,"op":..,"phase":..,"res":..,"cls":..}
         res: "hook1".."hook4" | "ok" | "refused"; cls: refusal class from the diagnostic
     {"e":"final","disk":[[ [thread,k]... ] per thread]}    events decoded from each stream *)
EXTENDS RtProc, Json, IOUtils

Log == ndJsonDeserialize(IOEnv.TRACE)
VARIABLE l
tvars == <<vars, l>>
Rec == Log[l]
Is(k) == l <= Len(Log) /\ Rec.e = k /\ l' = l + 1

TInit == /\ l = 1 /\ st = "UNINIT" /\ rec = "unset" /\ prog = [t \in Threads |-> <<>>]
         /\ ip = [t \in Threads |-> 1] /\ phase = [t \in Threads |-> 0]
         /\ thr = [t \in Threads |-> [ready |-> FALSE, finished |-> FALSE]]
         /\ stream = [t \in Threads |-> <<>>] /\ out = [t \in Threads |-> <<>>]
         /\ dead = [t \in Threads |-> FALSE] /\ winners = {} /\ finis = {} /\ last = <<>>

TPlan == /\ Is("plan")
         /\ st' = "UNINIT" /\ rec' = "unset"
         /\ prog' = [t \in Threads |-> IF t <= Len(Rec.progs) THEN Rec.progs[t] ELSE <<>>]
         /\ ip' = [t \in Threads |-> 1] /\ phase' = [t \in Threads |-> 0]
         /\ thr' = [t \in Threads |-> [ready |-> FALSE, finished |-> FALSE]]
         /\ stream' = [t \in Threads |-> <<>>] /\ out' = [t \in Threads |-> <<>>]
         /\ dead' = [t \in Threads |-> FALSE] /\ winners' = {} /\ finis' = {} /\ last' = <<>>

\* observed result of a step vs the model's mark
Matches(res, op, mark) ==
   CASE res = "hook1" -> op = "proc_init" /\ mark = "won"
     [] res = "hook2" -> op = "proc_init" /\ mark = "body"
     [] res = "hook3" -> op = "proc_fini" /\ mark = "won"
     [] res = "hook4" -> op = "thread_init" /\ mark = "saw-ready"
     [] res = "ok" -> mark \in {"ok", "ignored"}
     [] res = "refused" -> mark = "refused"
     [] OTHER -> FALSE

TStep == /\ Is("step")
         /\ Active(Rec.t) /\ Op(Rec.t) = Rec.op /\ phase[Rec.t] = Rec.phase
         /\ StepOf(Rec.t)
         /\ Matches(Rec.res, Rec.op, last'[4])
         \* the diagnostic class is compared when the harness recognised the message
         \* (a reworded diagnostic is not a violation)
         /\ ((Rec.res = "refused" /\ Rec.cls # "unknown") => out'[Rec.t][Len(out'[Rec.t])] = Rec.cls)

\* emits that precede the last successful flush of a thread must be on disk
FlushedMin(t) ==
   LET F == {i \in 1..Len(out[t]) : prog[t][i] = "flush" /\ out[t][i] = "ok"}
       lastF == IF F = {} THEN 0 ELSE CHOOSE i \in F : \A j \in F : j <= i
   IN  Cardinality({i \in 1..lastF : prog[t][i] = "emit" /\ out[t][i] = "ok"})

TFinal == /\ Is("final")
          /\ \A t \in Threads : t <= Len(Rec.disk) =>
                LET d == Rec.disk[t] IN
                /\ \A i \in 1..Len(d) : d[i][1] = t /\ d[i][2] = i      \* only its own events, in order, once
                /\ Len(d) <= Len(stream[t])
                /\ Len(d) >= FlushedMin(t)
          /\ UNCHANGED vars

TNext == TPlan \/ TStep \/ TFinal
TSpec == TInit /\ [][TNext]_tvars
Accepted == TLCGet("stats").diameter - 1 = Len(Log)
Report == PrintT(<<"CONSUMED", TLCGet("stats").diameter - 1, Len(Log)>>) /\ Accepted
=============================================================================
