SPECIFICATION BSpec
CONSTANTS
  System <- SysC20V3
  Alphabet <- AlphaC20V3
  MaxLen = 8
  Lint = TRUE
  SortVariant = "code"
  StaleOK = TRUE
VIEW BView
INVARIANT BInv
ACTION_CONSTRAINT BExport
CHECK_DEADLOCK FALSE
