SPECIFICATION SpecCrash
CONSTANTS
  JsonLast = TRUE
  CheckCopy = TRUE
INVARIANTS C09a C09b
CHECK_DEADLOCK FALSE
