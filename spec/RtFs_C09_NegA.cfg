SPECIFICATION SpecCrash
CONSTANTS
  JsonLast = FALSE
  CheckCopy = TRUE
INVARIANTS C09a
CHECK_DEADLOCK FALSE
