SPECIFICATION CSpec
CONSTANTS
  Variant = "nodead"
  SeedIds = {1}
  Deep = FALSE
INVARIANTS TruncAlwaysRejected
CHECK_DEADLOCK FALSE
