/* rtdrive: executes an op script against the freshly built libovni.so and
 * logs one JSON line per API call (the linearization point of a sequential
 * thread is the return of the public call).
 *
 * usage: rtdrive <script> <log>
 *        rtdrive -mt <script1> <log1> <script2> <log2> ...   one pthread per script; the op
 *                  "barrier" waits for all of them (proc_init goes before the first barrier of
 *                  script 1, the other scripts start with "barrier")
 *
 * Script lines (one op each, '#' comments):
 *   proc_init <app> <loom> <pid>
 *   thread_init <tid>
 *   require <model> <version>
 *   cpu <index> <phyid>
 *   rank <rank> <nranks>
 *   emit <mcv> <paysize> <id>          clock = ovni_clock_now()
 *   emitraw <mcv> <hexpayload>         payload given as hex (0 or 2..16 bytes)
 *   jumbo <mcv> <n> <id>               n data bytes
 *   flush
 *   mark_type <type> <flags> <title>
 *   mark_label <type> <value> <label>
 *   mark_push|mark_pop|mark_set <type> <value>
 *   attr_str <key> <value> | attr_double <key> <v> | attr_bool <key> <v> | attr_json <key> <json>
 *   attr_flush
 *   version_check <string>
 *   free
 *   fini
 *
 * Every user event carries its id in clock-independent payload bytes:
 *   payload[i] = pat(id, i); for paysize >= 4 the first 4 bytes are the id.
 * Log line: {"i":n,"op":"..","args":[..],"fsize":<st_size of stream.obs or -1>,"clk":<clock used>}
 * A die() inside the library calls abort(), interposed here: the log gets
 * {"i":n,"op":..,"aborted":true} and the process exits with status 3.
 */
#include <errno.h>
#include <fcntl.h>
#include <inttypes.h>
#include <pthread.h>
#include <stdint.h>
#include <stdio.h>
#include <stdlib.h>
#include <string.h>
#include <sys/stat.h>
#include <sys/syscall.h>
#include <unistd.h>

#include "ovni.h"

static __thread FILE *logf;
static __thread int cur_i = -1;
static __thread char cur_op[64];
static __thread char obs_path[4096];
static char loom[512];
static int pid_ = 0;
static __thread int tid_ = 0;
static int mt = 0;
static pthread_barrier_t bar;

void abort(void)
{
	if (logf) {
		fprintf(logf, "{\"i\":%d,\"op\":\"%s\",\"aborted\":true}\n", cur_i, cur_op);
		fflush(logf);
	}
	_exit(3);
}

static uint8_t pat(uint32_t id, uint32_t i)
{
	return (uint8_t) ((id * 2654435761u + i * 40503u + (i >> 8) * 97u) >> 7);
}

static void fill(uint8_t *buf, uint32_t n, uint32_t id)
{
	for (uint32_t i = 0; i < n; i++)
		buf[i] = pat(id, i);
	if (n >= 4)
		memcpy(buf, &id, 4);
	else if (n >= 2) {
		uint16_t s = (uint16_t) id;
		memcpy(buf, &s, 2);
	}
}

/* jumbo data: xor of a 251-periodic and a 256-periodic sequence (period 64256) */
static void jfill(uint8_t *buf, uint32_t n, uint32_t id)
{
	uint8_t a[251], b[256];
	for (uint32_t i = 0; i < 251; i++)
		a[i] = (uint8_t) (id * 131u + i * 7u + 3u);
	for (uint32_t i = 0; i < 256; i++)
		b[i] = (uint8_t) (i * 29u + id);
	for (uint32_t i = 0; i < n; i++)
		buf[i] = a[i % 251] ^ b[i % 256];
	/* every third jumbo ends in a run of zero bytes (holes, sparse copies) */
	if (id % 3 == 0 && n > 8) {
		uint32_t z = n - 8 < 6000 ? n - 8 : 6000;
		memset(buf + n - z, 0, z);
	}
	if (n >= 4)
		memcpy(buf, &id, 4);
}

static long fsize(void)
{
	struct stat st;
	if (obs_path[0] == 0)
		return -1;
	if (stat(obs_path, &st) != 0)
		return -1;
	return (long) st.st_size;
}

static void set_obs_path(void)
{
	const char *tmp = getenv("OVNI_TMPDIR");
	const char *td = getenv("OVNI_TRACEDIR");
	if (td == NULL)
		td = "ovni";
	snprintf(obs_path, sizeof(obs_path), "%s/loom.%s/proc.%d/thread.%d/stream.obs",
			tmp ? tmp : td, loom, pid_, tid_);
}

/* The payload of an event may be handed over in several ovni_payload_add() calls of any sizes;
 * the bytes in the stream are the concatenation.  Which split is used depends on k only. */
static void add_payload(struct ovni_ev *ev, const uint8_t *p, int ps, int k)
{
	static const int split[6][3] = { {0, 0, 0}, {2, 4, 0}, {4, 8, 0}, {2, 4, 8}, {3, 4, 0}, {6, 4, 0} };
	const int *sp = split[(unsigned) k % 6];
	int off = 0;
	for (int i = 0; i < 3 && sp[i] > 0; i++) {
		if (off + sp[i] > ps || ps - off - sp[i] == 1)
			break;		/* every call must add at least 2 bytes */
		ovni_payload_add(ev, p + off, sp[i]);
		off += sp[i];
	}
	if (off < ps)
		ovni_payload_add(ev, p + off, ps - off);
}

static int hexval(int c)
{
	if (c >= '0' && c <= '9') return c - '0';
	if (c >= 'a' && c <= 'f') return c - 'a' + 10;
	if (c >= 'A' && c <= 'F') return c - 'A' + 10;
	return -1;
}

/* A complete earlier thread of this process with thread id *p: init, one CPU, execute, end, flush, free. */
static void *first_life(void *p)
{
	int tid = *(int *) p;
	struct ovni_ev ev;
	int32_t a[2] = { 0, tid };
	uint64_t tag = 0x5eed;
	ovni_thread_init(tid);
	ovni_add_cpu(0, 0);
	memset(&ev, 0, sizeof(ev));
	ovni_ev_set_clock(&ev, ovni_clock_now());
	ovni_ev_set_mcv(&ev, "OHx");
	ovni_payload_add(&ev, (uint8_t *) a, sizeof(a));
	ovni_payload_add(&ev, (uint8_t *) &tag, sizeof(tag));
	ovni_ev_emit(&ev);
	memset(&ev, 0, sizeof(ev));
	ovni_ev_set_clock(&ev, ovni_clock_now());
	ovni_ev_set_mcv(&ev, "OHe");
	ovni_ev_emit(&ev);
	ovni_flush();
	ovni_thread_free();
	return NULL;
}

/* Clock of the next event.  "clockmode logical": the program has a time base of its own that starts at
 * zero (a simulator, a clock rebased to the start of the run): 0, 100, 200, ...  Otherwise the library's. */
static __thread int logical_clock = 0;
static __thread uint64_t lclock = 0;

static uint64_t next_clock(void)
{
	if (!logical_clock)
		return ovni_clock_now();
	uint64_t c = lclock;
	lclock += 100;
	return c;
}

static int run_script(const char *script, const char *logpath)
{
	FILE *f = fopen(script, "r");
	logf = fopen(logpath, "w");
	if (!f || !logf) {
		perror("open");
		return 2;
	}
	char *line = NULL;
	size_t cap = 0;
	uint8_t *jbuf = malloc(OVNI_MAX_EV_BUF + 64);
	int n = 0;
	while (getline(&line, &cap, f) > 0) {
		char *nl = strchr(line, '\n');
		if (nl) *nl = 0;
		if (line[0] == 0 || line[0] == '#')
			continue;
		char op[64] = "";
		int off = 0;
		sscanf(line, "%63s%n", op, &off);
		char *rest = line + off;
		while (*rest == ' ') rest++;
		cur_i = n;
		snprintf(cur_op, sizeof(cur_op), "%s", op);
		uint64_t clk = 0;
		if (!strcmp(op, "proc_init")) {
			int app;
			sscanf(rest, "%d %511s %d", &app, loom, &pid_);
			ovni_proc_init(app, loom, pid_);
		} else if (!strcmp(op, "thread_init")) {
			sscanf(rest, "%d", &tid_);
			ovni_thread_init(tid_);
			set_obs_path();
		} else if (!strcmp(op, "require")) {
			char m[64], v[64];
			sscanf(rest, "%63s %63s", m, v);
			ovni_thread_require(m, v);
		} else if (!strcmp(op, "cpu")) {
			int a, b;
			sscanf(rest, "%d %d", &a, &b);
			ovni_add_cpu(a, b);
		} else if (!strcmp(op, "rank")) {
			int a, b;
			sscanf(rest, "%d %d", &a, &b);
			ovni_proc_set_rank(a, b);
		} else if (!strcmp(op, "emit")) {
			char mcv[8];
			int ps;
			uint32_t id;
			sscanf(rest, "%7s %d %" SCNu32, mcv, &ps, &id);
			struct ovni_ev ev = {0};
			clk = next_clock();
			ovni_ev_set_clock(&ev, clk);
			ovni_ev_set_mcv(&ev, mcv);
			if (ps > 0) {
				uint8_t p[16];
				fill(p, (uint32_t) ps, id);
				add_payload(&ev, p, ps, (int) id);
			}
			ovni_ev_emit(&ev);
		} else if (!strcmp(op, "emitraw")) {
			char mcv[8], hex[64] = "";
			sscanf(rest, "%7s %63s", mcv, hex);
			struct ovni_ev ev = {0};
			clk = next_clock();
			ovni_ev_set_clock(&ev, clk);
			ovni_ev_set_mcv(&ev, mcv);
			uint8_t p[32];
			int ps = 0;
			for (size_t i = 0; hex[i] && hex[i + 1] && hex[0] != '-'; i += 2)
				p[ps++] = (uint8_t) (hexval(hex[i]) * 16 + hexval(hex[i + 1]));
			if (ps > 0)
				add_payload(&ev, p, ps, n);
			ovni_ev_emit(&ev);
		} else if (!strcmp(op, "jumbo")) {
			char mcv[8];
			uint32_t nb, id;
			sscanf(rest, "%7s %" SCNu32 " %" SCNu32, mcv, &nb, &id);
			struct ovni_ev ev = {0};
			clk = next_clock();
			ovni_ev_set_clock(&ev, clk);
			ovni_ev_set_mcv(&ev, mcv);
			if (nb <= OVNI_MAX_EV_BUF)
				jfill(jbuf, nb, id);
			ovni_ev_jumbo_emit(&ev, jbuf, nb);
		} else if (!strcmp(op, "flush")) {
			ovni_flush();
		} else if (!strcmp(op, "mark_type")) {
			int t;
			long fl;
			char title[256];
			sscanf(rest, "%d %ld %255[^\n]", &t, &fl, title);
			ovni_mark_type(t, fl, title);
		} else if (!strcmp(op, "mark_label")) {
			int t;
			long long v;
			char label[256];
			sscanf(rest, "%d %lld %255[^\n]", &t, &v, label);
			ovni_mark_label(t, v, label);
		} else if (!strcmp(op, "mark_push") || !strcmp(op, "mark_pop") || !strcmp(op, "mark_set")) {
			int t;
			long long v;
			sscanf(rest, "%d %lld", &t, &v);
			if (op[5] == 'p' && op[6] == 'u')
				ovni_mark_push(t, v);
			else if (op[5] == 'p')
				ovni_mark_pop(t, v);
			else
				ovni_mark_set(t, v);
		} else if (!strcmp(op, "attr_str")) {
			char k[128], v[256];
			sscanf(rest, "%127s %255[^\n]", k, v);
			ovni_attr_set_str(k, v);
		} else if (!strcmp(op, "attr_double")) {
			char k[128];
			double v;
			sscanf(rest, "%127s %lf", k, &v);
			ovni_attr_set_double(k, v);
		} else if (!strcmp(op, "attr_bool")) {
			char k[128];
			int v;
			sscanf(rest, "%127s %d", k, &v);
			ovni_attr_set_boolean(k, v);
		} else if (!strcmp(op, "attr_json")) {
			char k[128], v[1024];
			sscanf(rest, "%127s %1023[^\n]", k, v);
			ovni_attr_set_json(k, v);
		} else if (!strcmp(op, "attr_flush")) {
			ovni_attr_flush();
		} else if (!strcmp(op, "version_check")) {
			char v[256] = "";
			sscanf(rest, "%255[^\n]", v);
			ovni_version_check_str(v);
		} else if (!strcmp(op, "barrier")) {
			if (mt)
				pthread_barrier_wait(&bar);
		} else if (!strcmp(op, "spawn_life")) {
			/* an earlier thread with the given id lives and finishes (in an OS thread of its own:
			 * the library refuses to initialise one OS thread twice) */
			int t = 0;
			pthread_t th;
			sscanf(rest, "%d", &t);
			pthread_create(&th, NULL, first_life, &t);
			pthread_join(th, NULL);
		} else if (!strcmp(op, "pad")) {
			/* harmless failing calls: the per-thread call counts of this OS thread get past
			 * anything another thread of the process did (fault injection by ordinal) */
			for (int k = 0; k < 60; k++) {
				char buf[8];
				mkdir("/nonexistent/verif-pad/x", 0755);
				close(open("/nonexistent/verif-pad", O_RDONLY));
				if (write(-1, buf, 0) < 0 && read(-1, buf, 0) < 0)
					unlink("/nonexistent/verif-pad");
				rmdir("/nonexistent/verif-pad");
				syscall(SYS_getdents64, -1, buf, 0);
			}
		} else if (!strcmp(op, "clockmode")) {
			logical_clock = strstr(rest, "logical") != NULL;
		} else if (!strcmp(op, "sysmark")) {
			/* a system call that changes nothing and is easy to find in a strace log */
			unlink("/nonexistent/verif-sysmark");
		} else if (!strcmp(op, "free")) {
			ovni_thread_free();
		} else if (!strcmp(op, "fini")) {
			ovni_proc_fini();
		} else {
			fprintf(stderr, "rtdrive: unknown op '%s'\n", op);
			return 2;
		}
		fprintf(logf, "{\"i\":%d,\"op\":\"%s\",\"fsize\":%ld,\"clk\":%" PRIu64 "}\n",
				n, op, fsize(), clk);
		fflush(logf);
		n++;
	}
	fclose(logf);
	return 0;
}

struct targ { const char *script, *log; int rc; };

static void *thread_main(void *p)
{
	struct targ *a = p;
	a->rc = run_script(a->script, a->log);
	return NULL;
}

int main(int argc, char *argv[])
{
	if (argc >= 4 && !strcmp(argv[1], "-mt")) {
		int n = (argc - 2) / 2;
		struct targ *a = calloc((size_t) n, sizeof(*a));
		pthread_t *th = calloc((size_t) n, sizeof(*th));
		mt = 1;
		pthread_barrier_init(&bar, NULL, (unsigned) n);
		for (int i = 0; i < n; i++) {
			a[i].script = argv[2 + 2 * i];
			a[i].log = argv[3 + 2 * i];
			pthread_create(&th[i], NULL, thread_main, &a[i]);
		}
		int rc = 0;
		for (int i = 0; i < n; i++) {
			pthread_join(th[i], NULL);
			if (a[i].rc != 0)
				rc = a[i].rc;
		}
		return rc;
	}
	if (argc < 3) {
		fprintf(stderr, "usage: rtdrive script log | rtdrive -mt script log script log ...\n");
		return 2;
	}
	return run_script(argv[1], argv[2]);
}
