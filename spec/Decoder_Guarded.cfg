\* guarded design: every invariant holds
SPECIFICATION Spec
CONSTANTS
  W = 8
  MaxSize = 40
  Guarded = TRUE
  JSizes <- JSQuick
  JFlags <- JFQuick
  MaxStr = 6
INVARIANTS TypeOK CursorInBounds Progress HeaderReadInBounds ReadsWithinEvent VerdictIsExit0or1 StepIsExtent
CHECK_DEADLOCK FALSE
