"""Trace validation: executions recorded from the implementation are written
as ndjson (concatenated with {"op":"reset"} / {"e":"Reset"} records) and
checked by a *Trace.tla spec under TLC.  Acceptance = all lines consumed."""
import json
import os
import re

from . import core


class TvResult:
    def __init__(self):
        self.accepted = []     # indices of accepted executions
        self.rejected = []     # (index, line_in_execution, record, tlc_tail)
        self.states = 0
        self.generated = 0
        self.tlc_runs = 0
        self.wall = 0.0
        self.inv_violations = []   # (index, invariant)
        self.skipped = []      # indices not validated because the rejection budget was used up


def validate(module, cfg, executions, reset_record, max_reject=80, workers=1,
             timeout=1800, chunk=400, dfs=False, parallel=None):
    """executions: list of lists of records (dicts).  Each execution is
    prefixed with reset_record.  Returns TvResult.  A rejected execution is
    reported with the first line that could not be explained; validation
    continues with the executions after it."""
    res = TvResult()
    chunks = [list(range(i, min(i + chunk, len(executions))))
              for i in range(0, len(executions), chunk)]

    off = 1 if reset_record is not None else 0

    budget = {"rej": 0}      # every rejection costs one more TLC run: after max_reject of them (the check
                             # has failed anyway) the remaining executions are left unvalidated

    def do_chunk(idx):
        out = []
        pending = list(idx)
        while pending:
            if budget["rej"] >= max_reject:
                out.append(("skip", pending))
                break
            r = _run(module, cfg, [executions[i] for i in pending], reset_record,
                     workers, timeout, dfs)
            out.append(("run", r))
            if r["accepted"]:
                out.append(("acc", pending))
                break
            if r["error"]:
                raise core.MachineryError("trace validation failed to run: %s\n%s"
                                          % (r["error"], r["tail"]))
            # find execution containing the first unconsumed line
            consumed = r["consumed"]
            pos = 0
            bad = None
            for k, i in enumerate(pending):
                n = len(executions[i]) + off
                if consumed < pos + n:
                    bad = k
                    break
                pos += n
            if bad is None:
                raise core.MachineryError("trace validation: inconsistent consumed count\n" + r["tail"])
            i = pending[bad]
            line = consumed - pos       # index within [reset?] + records
            rec = executions[i][line - off] if line >= off else reset_record
            out.append(("acc", pending[:bad]))
            out.append(("rej", (i, line, rec, r["tail"], r["violated"])))
            budget["rej"] += 1
            pending = pending[bad + 1:]
        return out

    outs = core.pmap(do_chunk, chunks, workers=parallel or max(1, core.NCPU // max(1, workers) // 2), threads=True)
    for o in outs:
        for kind, v in o:
            if kind == "run":
                res.tlc_runs += 1
                res.states += v["states"]
                res.generated += v["generated"]
                res.wall += v["wall"]
            elif kind == "acc":
                res.accepted.extend(v)
            elif kind == "skip":
                res.skipped.extend(v)
            else:
                res.rejected.append(v)
    return res


def _run(module, cfg, execs, reset_record, workers, timeout, dfs):
    d = core.mkscratch("tv")
    path = os.path.join(d, "trace.ndjson")
    n = 0
    with open(path, "w") as f:
        for ex in execs:
            if reset_record is not None:
                f.write(json.dumps(reset_record) + "\n")
                n += 1
            for rec in ex:
                f.write(json.dumps(rec) + "\n")
                n += 1
    r = core.tlc(module, cfg, workers=workers, env={"TRACE": path}, timeout=timeout,
                 tags=(), dfs=dfs)
    consumed = None
    m = re.search(r'<<"CONSUMED", (\d+), (\d+)>>', r.out)
    if m:
        consumed = int(m.group(1))
    out = {"states": r.states, "generated": r.generated, "wall": r.wall,
           "consumed": consumed, "accepted": False, "error": None,
           "tail": r.out[-1800:], "violated": r.violated}
    if consumed is None:
        if r.violated and r.violated not in ("property",):
            # an invariant failed in the middle of the trace: the number of
            # states in the printed behaviour tells how far we got
            k = len(re.findall(r"^State \d+:", r.out, re.M))
            out["consumed"] = max(0, k - 2)
        else:
            out["error"] = r.error or "no CONSUMED line"
    elif consumed == n and r.violated in (None,) and r.rc == 0:
        out["accepted"] = True
    import shutil
    shutil.rmtree(d, ignore_errors=True)
    return out
