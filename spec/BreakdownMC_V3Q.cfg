SPECIFICATION BSpec
CONSTANTS
  System <- SysC20V3Q
  Alphabet <- AlphaC20V3Q
  MaxLen = 8
  Lint = TRUE
  SortVariant = "code"
  StaleOK = TRUE
VIEW BView
INVARIANT BInv
ACTION_CONSTRAINT BExport
CHECK_DEADLOCK FALSE
