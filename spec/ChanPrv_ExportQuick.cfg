SPECIFICATION Spec
CONSTANTS
  StackMax = 512
  NRows = 2
  Variant = "code"
  Tracks = {}
  Record = TRUE
  Setups <- SetupsExportQ
INVARIANTS TypeOK DirtyListDrains FlushedIsShown StackDiscipline TrackView TimesSorted HeaderIsLastAdvance RegsDistinct Filter LogHeader
PROPERTIES StepProps
ACTION_CONSTRAINT Export
CHECK_DEADLOCK FALSE
