SPECIFICATION MCSpec
CONSTANTS
  System <- SysC08P
  Alphabet <- AlphaC08P
  MaxLen = 7
  Lint = TRUE
VIEW MCView
INVARIANT Inv
ACTION_CONSTRAINT Export
CHECK_DEADLOCK FALSE
