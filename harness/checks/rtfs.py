"""C09 (crash consistency) and C10 (I/O faults are never silent) - RtFs.tla.

Design: TLC explores RtFs (the literal call sequence of the runtime, a crash
between any two calls, one failing call) for both relocation orders and
copy-checking variants; the behaviour of the pinned commit is kept as
negative configurations that must be refuted.

Binding: scenario programs run through the real library (drivers/rtdrive)
under strace.  (1) The recorded system calls must be exactly the model's
call list (RtFsTrace).  (2) C09: for EVERY system call index N of every
scenario the run is repeated with SIGKILL delivered at the entry of the N-th
call; what survives on disk (tmp and final directory) is projected to the
abstract file system, ovniemu -l is run on it, and the record is validated
by RtFsTrace: the state must be the model's state at that crash point and
the C09 monitors are evaluated with the observed emulator verdict.
(2b) C09 also runs the error-injection family of (3), judged by the C09 monitors only.
(3) C10: for every libovni call index N an error is injected (ENOSPC / EIO /
EACCES, the call is not executed); the outcome (abort with diagnostic /
normal return), the disk state and the emulator verdicts are judged by the
C10 monitors of RtFsTrace.
"""
import json
import os
import re
import shutil
import struct

from vlib import core, emu, obs, tv

# (the stat family is traced for fault injection only: the model's Script does not list these calls)
TRACED = "mkdir,openat,open,write,close,unlink,rmdir,read,getdents64,newfstatat,stat,lstat,statx"


def scenario_script(name):
    """returns (mode, script lines)"""
    base = ["proc_init 1 node0 1000", "thread_init 1000", "cpu 0 0",
            "emitraw OHx 00000000e8030000ed5e000000000000"]
    if name.startswith("small"):
        body = ["emitraw OB. -", "flush", "emitraw OB. -", "emitraw OHe -", "flush"]
    elif name.startswith("one"):
        body = ["emitraw OB. -", "emitraw OHe -", "flush"]
    elif name.startswith("boundary"):
        # the end event finishes exactly at byte 4096 of the stream; the markers of the first
        # flush are written by the second one: 8 + 28 + 335*12 + 2*14 + 12 = 4096
        body = ["emitraw OB. -"] * 335 + ["emitraw OB. 0102"] * 2 + ["emitraw OHe -", "flush", "flush"]
    elif name.startswith("attr"):
        # the metadata is rewritten in the middle of the run (ovni_attr_flush truncates and rewrites stream.json)
        body = ["emitraw OB. -", "flush", "attr_str user.phase second", "attr_flush", "emitraw OB. -",
                "attr_double user.n 3", "attr_flush", "emitraw OHe -", "flush"]
    elif name.startswith("bigmeta"):
        # metadata larger than one stdio buffer (a thread that registers 300 CPUs): stream.json is written
        # with several write() calls
        base = base[:3] + ["cpu %d %d" % (i, i) for i in range(1, 300)] + base[3:]
        body = ["emitraw OB. -", "flush", "emitraw OB. -", "emitraw OHe -", "flush"]
    elif name.startswith("big"):
        body = ["emitraw OB. 0102030405060708"] * 700 + ["flush"] + ["emitraw OB. -"] * 100 + ["emitraw OHe -", "flush"]
    else:
        raise ValueError(name)
    mode = "tmp" if "-tmp" in name else "direct"
    if name.endswith("-reuse"):
        # the thread id was used before IN THIS PROCESS: an earlier thread with the same id ran to completion
        # (its finished stream is in the final directory) before the thread under test starts
        # (spawn_life: the earlier thread, in an OS thread of its own; pad: the call counts of the main OS thread
        # get past those of the earlier one, strace injects by per-thread ordinal; sysmark: where the log is cut)
        return mode, base[:1] + ["spawn_life 1000", "pad", "sysmark"] + base[1:] + body + ["free", "fini"]
    return mode, base + body + ["free", "fini"]


_line = re.compile(r"^(\d+)\s+(\w+)\((.*)\)\s+=\s+(-?\d+|\?)(.*)$")


_unfinished = re.compile(r"^(\d+)\s+(\w+)\((.*?)\s*<unfinished \.\.\.>$")
_resumed = re.compile(r"^(\d+)\s+<\.\.\. (\w+) resumed>(.*)$")


def parse_strace(path):
    """(with -f and several threads strace splits a call that another thread's output interrupts into
    "call(args <unfinished ...>" and "<... call resumed>rest": the two halves are joined again)"""
    out = []
    pending = {}
    for ln in open(path, errors="replace"):
        ln = ln.rstrip("\n")
        mu = _unfinished.match(ln)
        if mu:
            pending[mu.group(1)] = (mu.group(2), mu.group(3))
            continue
        mr = _resumed.match(ln)
        if mr and mr.group(1) in pending and pending[mr.group(1)][0] == mr.group(2):
            sysname, prefix = pending.pop(mr.group(1))
            ln = "%s %s(%s%s" % (mr.group(1), sysname, prefix, mr.group(3))
        m = _line.match(ln)
        if not m:
            continue
        out.append({"pid": int(m.group(1)), "sys": m.group(2), "args": m.group(3),
                    "ret": None if m.group(4) == "?" else int(m.group(4)), "rest": m.group(5)})
    return out


def project_calls(calls, tmpd, find):
    """strace calls -> abstract call records of RtFs (libovni calls on the trace
    directories only).  Returns (records, indices into calls of each record's first syscall,
    list of write sizes on the work stream)."""
    fds = {}
    recs = []
    idx = []
    flushes = []
    in_mkdirs = False
    dirfd = None
    for i, c in enumerate(calls):
        if c["ret"] is None:
            continue            # killed at the entry of this call: it was not executed
        a = c["args"]
        where = "tmp" if (tmpd and tmpd in a) else ("fin" if find in a else None)
        s = c["sys"]
        if s == "mkdir":
            if where is None and not in_mkdirs:
                # mkdir of the path prefixes (e.g. /tmp) belongs to the next trace dir mkdir run
                pass
            if not in_mkdirs:
                in_mkdirs = True
                recs.append({"c": "mkdirs", "w": "?", "n": 0})
                idx.append(i)
            if where:
                recs[-1]["w"] = where if recs[-1]["w"] == "?" else recs[-1]["w"]
            continue
        if s in ("openat", "open") and where:
            in_mkdirs = False
            m = re.search(r'"([^"]*)"', a)
            path = m.group(1)
            fd = c["ret"]
            base = os.path.basename(path)
            rd = "O_RDONLY" in a
            if "O_DIRECTORY" in a:
                recs.append({"c": "opendir", "w": where, "n": 0})
                idx.append(i)
                dirfd = fd
                continue
            f = "obs" if base == "stream.obs" else ("json" if base == "stream.json" else None)
            if f is None:
                continue
            if fd is not None and fd >= 0:
                fds[fd] = (f, where, rd)
            if rd:
                recs.append({"c": "copy_open_src_" + f, "w": where, "n": 0})
            elif fds_has_src(fds, f):
                recs.append({"c": "copy_open_dst_" + f, "w": where, "n": 0})
            elif f == "obs":
                recs.append({"c": "open_obs", "w": where, "n": 0})
            else:
                recs.append({"c": "open_json", "w": where, "n": 0})
            idx.append(i)
            continue
        in_mkdirs = False if s != "mkdir" else in_mkdirs
        if s == "write":
            m = re.match(r"(\d+),", a)
            fd = int(m.group(1)) if m else -1
            if fd not in fds:
                continue
            f, where, rd = fds[fd]
            n = c["ret"] if c["ret"] is not None and c["ret"] >= 0 else 0
            copying = fds_has_src(fds, f)
            if copying and f == "json" and recs and recs[-1]["c"] == "copy_write_json" and recs[-1].get("_fd") == fd:
                continue
            if copying:
                recs.append({"c": "copy_write_" + f, "w": where, "n": n, "_fd": fd})
            elif f == "obs":
                recs.append({"c": "write_obs", "w": where, "n": n})
                if c["ret"] is not None and c["ret"] > 0 and n != 8:
                    flushes.append(n)
            else:
                # first metadata write = init, later = fin (decided by content on disk, here by order);
                # metadata larger than the stdio buffer takes several write() calls: one abstract write
                if recs and recs[-1]["c"] in ("write_json_init", "write_json_fin", "copy_write_json") \
                        and recs[-1].get("_fd") == fd:
                    continue
                kind = "write_json_fin" if any(r["c"] == "write_json_init" for r in recs) else "write_json_init"
                recs.append({"c": kind, "w": where, "n": 0, "_fd": fd})
            idx.append(i)
            continue
        if s == "close":
            m = re.match(r"(\d+)", a)
            fd = int(m.group(1)) if m else -1
            if fd == dirfd:
                dirfd = None
                continue
            if fd not in fds:
                continue
            f, where, rd = fds.pop(fd)
            if rd:
                recs.append({"c": "copy_close_src_" + f, "w": where, "n": 0})
            elif fds_has_src(fds, f):
                recs.append({"c": "copy_close_dst_" + f, "w": where, "n": 0})
            elif f == "obs":
                recs.append({"c": "close_obs", "w": where, "n": 0})
            else:
                recs.append({"c": "close_json", "w": where, "n": 0})
            idx.append(i)
            continue
        if s == "unlink" and where:
            base = "obs" if "stream.obs" in a else "json"
            recs.append({"c": "unlink_" + base, "w": where, "n": 0})
            idx.append(i)
            continue
        if s == "rmdir" and where:
            if "thread." in a:
                recs.append({"c": "rmdir_thread", "w": where, "n": 0})
                idx.append(i)
            continue
    # the two mkdir runs of proc_init + thread_init are one abstract "mkdirs"
    merged = []
    midx = []
    for r, i in zip(recs, idx):
        if r["c"] == "mkdirs" and merged and merged[-1]["c"] == "mkdirs":
            continue
        merged.append(r)
        midx.append(i)
    return merged, midx, flushes


def fds_has_src(fds, f):
    return any(v[0] == f and v[2] for v in fds.values())


def json_state(path):
    if not os.path.exists(path):
        return "absent"
    try:
        data = open(path).read()
    except OSError:
        return "absent"
    if not data:
        return "empty"
    try:
        j = json.loads(data)
    except ValueError:
        return "empty"
    return "fin" if j.get("ovni", {}).get("finished") == 1 else "init"


def disk_state(root_tmp, root_fin):
    st = {"obs": {}, "json": {}}
    for w, root in (("tmp", root_tmp), ("fin", root_fin)):
        d = os.path.join(root, "loom.node0", "proc.1000", "thread.1000") if root else None
        po = os.path.join(d, "stream.obs") if d else None
        st["obs"][w] = os.path.getsize(po) if (po and os.path.exists(po)) else -1
        st["json"][w] = json_state(os.path.join(d, "stream.json")) if d else "absent"
    return st


def emu_verdict(bdir, root):
    if not root or not os.path.isdir(root):
        return "none"
    has = any("stream.json" in fn for _, _, fn in os.walk(root))
    if not has:
        return "none"
    r = emu.ovniemu(bdir, root, ("-l",))
    return "ok" if r.accepted else ("fail" if r.rc == 1 else r.verdict)


class Scenario:
    def __init__(self, name, drv, bdir):
        self.name = name
        self.drv = drv
        self.bdir = bdir
        self.mode, self.lines = scenario_script(name)

    def stale_bytes(self):
        """bytes of the finished earlier stream that is in the final thread directory when the thread starts"""
        if self.name.endswith("-stale"):
            return len(self.stale_files()[0])
        if self.name.endswith("-reuse"):
            return 8 + 28 + 12
        return 0

    def stale_files(self):
        if getattr(self, "_stale", None) is None:
            d = core.mkscratch("fsst")
            try:
                sp = os.path.join(d, "script")
                open(sp, "w").write("\n".join(self.lines) + "\n")
                rc, out, err = core.run([self.drv, sp, os.path.join(d, "log")], timeout=60,
                                        env={"OVNI_TRACEDIR": os.path.join(d, "final")}, cwd=d)
                sd = os.path.join(d, "final", "loom.node0", "proc.1000", "thread.1000")
                data = open(os.path.join(sd, "stream.obs"), "rb").read()
                c0 = struct.unpack("<Q", data[12:20])[0]
                # header + the execute event + an end event: a complete, much shorter stream
                self._stale = (data[:36] + obs.ev("OHe", c0 + 1), open(os.path.join(sd, "stream.json"), "rb").read())
            finally:
                shutil.rmtree(d, ignore_errors=True)
        return self._stale

    def run(self, inject=None, keep=False, shim=None, closeloss=False):
        """one run under strace; returns dict(calls, rc, stderr, state, emu, dir)"""
        d = core.mkscratch("fs")
        try:
            sp = os.path.join(d, "script")
            open(sp, "w").write("\n".join(self.lines) + "\n")
            find_ = os.path.join(d, "final")
            if "-longpath" in self.name:
                # a trace directory whose path is more than 600 characters long (legal: PATH_MAX is 4096)
                find_ = os.path.join(d, *(["p" * 100] * 6), "final")
            env = {"OVNI_TRACEDIR": find_}
            if self.mode == "tmp":
                env["OVNI_TMPDIR"] = os.path.join(d, "tmp")
            if self.name.endswith("-alias"):
                # OVNI_TMPDIR is another name (a symbolic link) of the trace directory itself
                os.makedirs(find_, exist_ok=True)
                os.symlink(find_, os.path.join(d, "tmp"))
            if self.name.endswith("-stale"):
                # the final thread directory still holds the finished (shorter) stream of an earlier run with
                # the same loom / pid / tid: it must not vouch for the new run
                sobs, sjson = self.stale_files()
                sd = os.path.join(env["OVNI_TRACEDIR"], "loom.node0", "proc.1000", "thread.1000")
                os.makedirs(sd)
                open(os.path.join(sd, "stream.obs"), "wb").write(sobs)
                open(os.path.join(sd, "stream.json"), "wb").write(sjson)
            if self.name.endswith("-pre"):
                # the trace directories already exist (another process of the loom was there first)
                for root in (env.get("OVNI_TMPDIR"), env["OVNI_TRACEDIR"]):
                    if root:
                        os.makedirs(os.path.join(root, "loom.node0", "proc.999", "thread.999"))
            if shim and closeloss:
                env.update({"LD_PRELOAD": shim, "VERIF_CLOSE_LOSS": "1"})
            elif shim:
                env.update({"LD_PRELOAD": shim, "VERIF_SHORTWRITE": "40"})
            cmd = ["strace", "-f", "-o", os.path.join(d, "strace.log"), "-e", "trace=" + TRACED]
            if inject:
                cmd += ["-e", "inject=" + inject]
            cmd += [self.drv, sp, os.path.join(d, "log")]
            rc, out, err = core.run(cmd, timeout=60, env=env, cwd=d)
            calls = parse_strace(os.path.join(d, "strace.log"))
            cnt = {}
            for c in calls:
                k_ = (c["pid"], c["sys"])          # strace counts the invocations per thread
                cnt[k_] = cnt.get(k_, 0) + 1
                c["_ord"] = cnt[k_]
            marks = [i for i, c in enumerate(calls) if c["sys"] == "unlink" and "verif-sysmark" in c["args"]]
            if marks:
                calls = calls[marks[-1] + 1:]      # the life of the thread under test only
            elif self.name.endswith("-reuse"):
                calls = []                         # stopped before the thread under test started
            tmpd = os.path.join(d, "tmp") if self.mode == "tmp" else None
            find = find_
            state = disk_state(tmpd, find)
            # ovniemu writes its output into the directory: run it on copies
            ev = {}
            for w, root in (("tmp", tmpd), ("fin", find)):
                if root and os.path.isdir(root):
                    cp = os.path.join(d, "emu_" + w)
                    shutil.copytree(root, cp)
                    ev[w] = emu_verdict(self.bdir, cp)
                else:
                    ev[w] = "none"
            res = {"calls": calls, "rc": rc, "stderr": err.decode("latin1", "replace"),
                   "state": state, "emu": ev, "tmpd": tmpd, "find": find}
            if keep:
                res["dir"] = d
            return res
        finally:
            if not keep:
                shutil.rmtree(d, ignore_errors=True)


def libovni_range(calls):
    """indices of the calls made after the driver opened its script/log (i.e. by libovni + driver log writes)"""
    start = 0
    for i, c in enumerate(calls):
        if c["sys"] in ("openat", "open") and '"script"' in c["args"] or "/script\"" in c["args"]:
            start = i
            break
    return start


def inj_for(calls, i, action):
    """strace inject expression hitting exactly call i (per-syscall ordinal)"""
    s = calls[i]["sys"]
    k = calls[i].get("_ord") or sum(1 for c in calls[:i + 1] if c["sys"] == s)
    return "%s:%s:when=%d" % (s, action, k)


def records_for(sc, ref, res, kind, outcome, jsonlast_chunk=4096):
    tmpd, find = res["tmpd"], res["find"]
    recs, idx, flushes = project_calls(res["calls"], tmpd, find)
    rrecs, ridx, rflushes = project_calls(ref["calls"], ref["tmpd"], ref["find"])
    rd = "obs_first"
    for r in rrecs:
        if r["c"].startswith("copy_open_src_"):
            rd = "json_first" if r["c"].endswith("json") else "obs_first"
            break
    head = {"c": "scenario", "kind": kind, "mode": sc.mode, "flushes": rflushes, "chunk": jsonlast_chunk,
            "rdorder": rd, "stale": sc.stale_bytes()}
    flushed = sum(c["ret"] for c in res["calls"]
                  if c["sys"] == "write" and c["ret"] and c["ret"] > 0 and is_stream_write(c, res))
    end = {"c": outcome, "obs": res["state"]["obs"], "json": res["state"]["json"], "flushed": flushed,
           "emu": res["emu"], "diag": bool(re.search(r"ERROR|FATAL|failed|abort", res["stderr"], re.I))}
    for r in recs:
        if r["c"] == "mkdirs":
            r["w"] = "tmp" if sc.mode == "tmp" else "fin"
    body = [{k: v for k, v in r.items() if not k.startswith("_")} for r in recs] if kind == "replay" else []
    return [head] + body + [end]


def is_stream_write(c, res):
    return c.get("_stream", False)


def mark_stream_writes(res):
    """flag the write() calls on the thread's own stream fd (work directory)"""
    work = res["tmpd"] or res["find"]
    fd = None
    for c in res["calls"]:
        if c["sys"] in ("openat", "open") and "stream.obs" in c["args"] and work in c["args"] \
                and "O_RDONLY" not in c["args"]:      # (the copy destination is in the other directory)
            fd = c["ret"]
        elif c["sys"] == "write" and fd is not None and c["args"].startswith("%d," % fd):
            c["_stream"] = True
        elif c["sys"] == "close" and fd is not None and c["args"].strip() == str(fd):
            fd = None


def main(pid, tier):
    level = "fault_enumeration"
    ck = core.Check(pid, level, tier)
    bdir = core.build("hooks")
    drv = core.cc_driver(bdir, "rtdrive.c")
    # ---- design
    if pid == "C09":
        cfgs = [("RtFs_C09.cfg", False), ("RtFs_C09_Neg.cfg", True), ("RtFs_C09_NegA.cfg", True),
                ("RtFs_C09_NegStale.cfg", True)]
    else:
        cfgs = [("RtFs_C10.cfg", False), ("RtFs_C10_Neg.cfg", True)]
    for cfg, neg in cfgs:
        r = core.tlc("RtFs", cfg, timeout=1200)
        core.tlc_expect_ok(r, cfg)
        ck.add_tlc(r, "RtFs/" + cfg + (" (behaviour of the pinned commit; must fail)" if neg else ""))
        if neg and not r.violated:
            raise core.MachineryError("negative configuration %s no longer fails" % cfg)
        if not neg and r.violated:
            ck.violation("RtFs model violates %s" % r.violated, {"tlc.out": r.out[-20000:]})
    ck.phase("tlc")
    names = ["small-direct", "small-tmp", "boundary-tmp", "one-direct", "one-tmp", "boundary-direct", "bigmeta-tmp",
             "small-tmp-pre", "one-direct-pre", "attr-tmp", "small-tmp-stale", "small-direct-stale",
             "small-tmp-reuse", "small-direct-reuse", "small-tmp-longpath-stale", "small-tmp-alias"]
    if tier == "thorough":
        names += ["big-tmp", "big-direct", "bigmeta-direct", "attr-direct"]
    execs = []
    owners = []
    for name in names:
        sc = Scenario(name, drv, bdir)
        ref = sc.run()
        if ref["rc"] != 0:
            raise core.MachineryError("reference run of %s failed: rc=%s %s" % (name, ref["rc"], ref["stderr"][-400:]))
        mark_stream_writes(ref)
        start = 0 if name.endswith("-reuse") else libovni_range(ref["calls"])   # (-reuse: list cut at the marker)
        ncalls = len(ref["calls"])
        execs.append(records_for(sc, ref, ref, "replay", "returned"))
        owners.append((name, "reference", None))
        if pid == "C10":
            # truthful short writes (every write of more than 40 bytes on a regular file transfers ~40%):
            # the run must still return with a complete, accepted trace
            res = sc.run(shim=core.cc_shim(bdir))
            mark_stream_writes(res)
            ck.case("%s:short-writes" % name, nontrivial=True)
            outcome = "returned" if res["rc"] == 0 else ("aborted" if res["rc"] == 3 else None)
            if outcome is None:
                ck.violation("scenario %s under short writes: driver ended with status %s\n%s"
                             % (name, res["rc"], res["stderr"][-600:]), {"stderr.txt": res["stderr"]},
                             sig="shortwrite-exit-%s" % res["rc"])
            else:
                execs.append(records_for(sc, ref, res, "fault", outcome))
                owners.append((name, "short writes", res))
        if pid == "C10":
            # the close of the stream reports an error and the data not yet on disk is lost
            res = sc.run(shim=core.cc_shim(bdir), closeloss=True)
            mark_stream_writes(res)
            ck.case("%s:close-reports-lost-writes" % name, nontrivial=True)
            outcome = "returned" if res["rc"] == 0 else ("aborted" if res["rc"] == 3 else None)
            if outcome is None:
                ck.violation("scenario %s with a failing close of the stream: driver ended with status %s\n%s"
                             % (name, res["rc"], res["stderr"][-600:]), {"stderr.txt": res["stderr"]},
                             sig="closeloss-exit-%s" % res["rc"])
            else:
                execs.append(records_for(sc, ref, res, "faultloss", outcome))
                owners.append((name, "close of the stream fails, unwritten data lost", res))
        if pid == "C09":
            points = list(range(start, ncalls))

            def one(i, sc=sc, ref=ref):
                res = sc.run(inject=inj_for(ref["calls"], i, "signal=KILL"))
                mark_stream_writes(res)
                return res
            results = core.pmap(one, points)
            for i, res in zip(points, results):
                killed = res["rc"] in (137, -9) or any("killed by SIGKILL" in c.get("rest", "") for c in res["calls"][-1:])
                ck.case("%s:kill@%d" % (name, i), nontrivial=True)
                if res["rc"] == 0:
                    # the injection point was never reached (e.g. last calls of the driver): nothing to judge
                    continue
                execs.append(records_for(sc, ref, res, "replay", "killed"))
                owners.append((name, "kill@%d %s" % (i, ref["calls"][i]["sys"]), res))
        if True:
            fkind = "fault" if pid == "C10" else "fault09"
            recs, idx, _ = project_calls(ref["calls"], ref["tmpd"], ref["find"])
            # every real syscall of libovni on the trace directories
            pts = []
            for i in range(start, ncalls):
                c = ref["calls"][i]
                a = c["args"]
                if (ref["tmpd"] and ref["tmpd"] in a) or ref["find"] in a or \
                        (c["sys"] in ("write", "close", "read", "getdents64") and not a.startswith(("1,", "2,", "3,", "4,"))):
                    if c["sys"] == "mkdir" and "EEXIST" in c["rest"]:
                        continue
                    pts.append(i)
            errs = {"write": ["ENOSPC", "EIO"], "mkdir": ["EACCES", "ENOSPC"], "openat": ["EACCES", "ENOSPC"],
                    "open": ["EACCES"], "close": ["EIO"], "unlink": ["EACCES"], "rmdir": ["EACCES"],
                    "read": ["EIO"], "getdents64": ["EIO"], "newfstatat": ["EIO", "ESTALE"], "stat": ["EIO"],
                    "lstat": ["EIO"], "statx": ["EIO"]}
            jobs = []
            for i in pts:
                es = errs.get(ref["calls"][i]["sys"], ["EIO"])
                for e in (es if pid == "C10" else es[:1]):
                    jobs.append((i, e))

            def onef(j, sc=sc, ref=ref):
                res = sc.run(inject=inj_for(ref["calls"], j[0], "error=" + j[1]))
                mark_stream_writes(res)
                return res
            results = core.pmap(onef, jobs)
            for (i, e), res in zip(jobs, results):
                ck.case("%s:%s@%d" % (name, e, i), nontrivial=True)
                if res["rc"] == 0:
                    outcome = "returned"
                elif res["rc"] == 3:
                    outcome = "aborted"
                elif pid == "C09":
                    continue        # how the run ends under a fault is C10's business
                else:
                    ck.violation("scenario %s with %s injected at call %d (%s): driver ended with status %s\n%s"
                                 % (name, e, i, ref["calls"][i]["sys"] + "(" + ref["calls"][i]["args"][:80] + ")",
                                    res["rc"], res["stderr"][-600:]), {"stderr.txt": res["stderr"]},
                                 sig="fault-exit-%s" % res["rc"])
                    continue
                execs.append(records_for(sc, ref, res, fkind, outcome))
                owners.append((name, "%s@%d %s(%s)" % (e, i, ref["calls"][i]["sys"], ref["calls"][i]["args"][:70]), res))
    ck.phase("runs")
    tvr = tv.validate("RtFsTrace", "RtFsTrace.cfg", execs, None, chunk=max(10, len(execs) // 8 + 1), parallel=8)
    ck.cov["traces_validated_against_impl"] = len(tvr.accepted)
    ck.cov["states"] += tvr.states
    ck.cov["transitions"] += tvr.generated
    # An execution whose call sequence or intermediate state is not the model's is not by itself a
    # violation of C09/C10 (a refactoring may reorder harmless calls): it is judged again by the
    # property monitors alone (outcome-only record); only a monitor failure is reported.
    drift = []
    rejected = []
    redo = []
    for rj in tvr.rejected:
        (i, line, rec, tail, violated) = rj
        ex = execs[i]
        if ex[0]["kind"] == "replay":
            redo.append(rj)
        else:
            rejected.append(rj)
    # executions left unvalidated because the rejection budget of the first pass was used up
    # (call-by-call drift is expected in some scenarios): they are judged by the monitors as well
    for i in tvr.skipped:
        redo.append((i, 0, execs[i][0], "", None))
    if redo:
        ex2 = []
        for (i, line, rec, tail, violated) in redo:
            k0 = execs[i][0]["kind"]
            head = dict(execs[i][0], kind="fault" if k0 == "replay" else k0)
            ex2.append([head, execs[i][-1]])
        tv2 = tv.validate("RtFsTrace", "RtFsTrace.cfg", ex2, None, chunk=max(10, len(ex2) // 8 + 1), parallel=8,
                          max_reject=100000)
        if tv2.skipped:
            raise core.MachineryError("trace validation left %d executions unjudged" % len(tv2.skipped))
        bad2 = {k: v for (k, _l, _r, _t, _v) in tv2.rejected for v in [(_l, _r, _t, _v)]}
        for k, rj in enumerate(redo):
            if k in bad2:
                (i, line, rec, tail, violated) = rj
                rejected.append((i, len(execs[i]) - 1, execs[i][-1], bad2[k][2], bad2[k][3]))
            else:
                drift.append("%s %s: record #%d %s" % (owners[rj[0]][0], owners[rj[0]][1], rj[1], json.dumps(rj[2])[:160]))
    ck.notes["executions"] = {"total": len(execs), "accepted": len(tvr.accepted), "rejected": len(rejected),
                              "model_drift": len(drift)}
    if drift:
        ck.notes["model_drift_samples"] = drift[:6]
        core.log("[C09/C10] model drift: %d executions are not call-by-call behaviours of RtFs but satisfy the "
                 "property monitors (update spec/RtFs.tla Script if the code was refactored)" % len(drift))
    for (i, line, rec, tail, violated) in rejected:
        name, what, res = owners[i]
        ex = execs[i]
        msg = ("scenario %s, %s: record #%d not explained by RtFs / monitor violated\nrecord: %s\nend: %s"
               % (name, what, line, json.dumps(rec), json.dumps(ex[-1])))
        if res is not None:
            msg += "\nstderr: " + res["stderr"][-300:]
        end = ex[-1]
        sig = "rtfs:%s:%s" % (name.split("-")[-1], classify(end, rec))
        ck.violation(msg, {"execution.ndjson": "\n".join(json.dumps(x) for x in ex), "tlc_tail.txt": tail}, sig=sig)
    for ex in execs[:1] + execs[-2:]:
        ck.sample(ex[:3] + ex[-1:])
    ck.phase("validate")
    from checks import rtfs_mt
    rtfs_mt.run(ck, pid, tier, bdir, drv)
    ck.phase("two_threads")
    ck.assumptions += ["SIGKILL is delivered at system call entry by strace (the call is not executed): exactly 'between two system calls'",
                       "error injection skips the system call (no partial effect); truthful short writes are not injected here",
                       "single-threaded scenarios + two-thread programs whose threads run one after the other "
                       "(threads write disjoint directories; races are C11)"]
    return ck.finish(rule="cases = (scenario, system call index[, errno]) pairs: every call index of every scenario; "
                          "all are distinct crash/fault points")


def classify(end, rec):
    if rec.get("c") in ("killed", "returned", "aborted"):
        if end["json"].get("fin") == "fin" and end["obs"].get("fin", -1) < end["flushed"]:
            return "finished-before-obs-complete"
        if end["c"] == "returned":
            return "returned-without-complete-copy"
        return "end-" + end["c"]
    return "call-order:" + str(rec.get("c"))
