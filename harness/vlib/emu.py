"""Running the emulator/tools and projecting their outputs (.prv/.pcf/.row)."""
import os
import re
import signal

from . import core

_EMPTY_CFG = None


def empty_cfg():
    global _EMPTY_CFG
    if _EMPTY_CFG is None:
        d = os.path.join(core.CACHE, "emptycfg")
        os.makedirs(d, exist_ok=True)
        _EMPTY_CFG = d
    return _EMPTY_CFG


class EmuRun:
    def __init__(self, rc, out, err):
        self.rc = rc
        self.out = out
        self.err = err
        self.timeout = rc is None
        self.signal = -rc if (rc is not None and rc < 0) else None
        text = err.decode("latin1", "replace")
        self.text = text
        self.finished_ok = "emulation finished ok" in text
        self.sanitizer = ("ERROR: AddressSanitizer" in text or "runtime error:" in text
                          or "ERROR: LeakSanitizer" in text)

    @property
    def accepted(self):
        return self.rc == 0 and self.finished_ok

    @property
    def clean_reject(self):
        """exit status 1 with a diagnostic, no 'finished ok'"""
        return self.rc == 1 and not self.finished_ok

    @property
    def verdict(self):
        if self.timeout:
            return "timeout"
        if self.signal:
            return "signal%d" % self.signal
        if self.sanitizer:
            return "sanitizer"
        if self.accepted:
            return "ok"
        if self.rc == 0:
            return "exit0-without-ok"
        return "fail" if self.rc == 1 else "exit%d" % self.rc

    def last_errors(self, n=4):
        ls = [l for l in self.text.splitlines() if "ERROR" in l or "error" in l.lower()]
        return ls[:n]


def ovniemu(bdir, tracedir, args=("-l",), timeout=60, env=None, fsize_blocks=None, nofile=None):
    """fsize_blocks: run with a file size limit of that many 512-byte blocks and SIGXFSZ ignored, so that
    writes beyond it fail with EFBIG (as on a full disk or an exhausted quota);
    nofile: run with that many file descriptors at most (ulimit -n)"""
    e = {"OVNI_CONFIG_DIR": empty_cfg(), "ASAN_OPTIONS": "detect_leaks=0",
         "UBSAN_OPTIONS": "print_stacktrace=1"}
    if env:
        e.update(env)
    cmd = [core.tool(bdir, "ovniemu")] + list(args) + [tracedir]
    if fsize_blocks is not None:
        cmd = ["sh", "-c", 'trap "" XFSZ; ulimit -f %d; exec "$@"' % fsize_blocks, "sh"] + cmd
    if nofile is not None:
        cmd = ["sh", "-c", 'ulimit -n %d; exec "$@"' % nofile, "sh"] + cmd
    rc, out, err = core.run(cmd, timeout=timeout, env=e)
    return EmuRun(rc, out, err)


def runtool(bdir, name, args, timeout=60, env=None):
    e = {"OVNI_CONFIG_DIR": empty_cfg(), "ASAN_OPTIONS": "detect_leaks=0"}
    if env:
        e.update(env)
    rc, out, err = core.run([core.tool(bdir, name)] + list(args), timeout=timeout, env=e)
    return EmuRun(rc, out, err)


# --------------------------------------------------------------------------
# Paraver files

class Prv:
    """Parsed .prv: header (duration, nrows) and lines (time,row,type,value)."""

    def __init__(self, path):
        self.path = path
        self.lines = []
        self.bad = []
        with open(path, "r", errors="replace") as f:
            hdr = f.readline().rstrip("\n")
            self.header = hdr
            m = re.match(r"#Paraver \(\d\d/\d\d/\d\d at \d\d:\d\d\):\s*(\d+)_ns:0:1:1\((\d+):1\)", hdr)
            if not m:
                m2 = re.match(r"#Paraver \(.*?\):\s*(\d+)_ns:0:1:1\((\d+):1\)", hdr)
                m = m2
            self.duration = int(m.group(1)) if m else None
            self.nrows = int(m.group(2)) if m else None
            for ln in f:
                ln = ln.rstrip("\n")
                if not ln or ln.startswith("#") or ln.startswith("c:"):
                    continue
                p = ln.split(":")
                # 2:0:1:1:row:time:type:value
                if len(p) != 8 or p[0] != "2":
                    self.bad.append(ln)
                    continue
                try:
                    self.lines.append((int(p[5]), int(p[4]), int(p[6]), int(p[7])))
                except ValueError:
                    self.bad.append(ln)

    def timeline(self):
        """dict (row,type) -> list of (time,value) in file order"""
        tl = {}
        for (t, r, ty, v) in self.lines:
            tl.setdefault((r, ty), []).append((t, v))
        return tl

    def view_at(self, times):
        """For each time in `times` (ascending) the dict (row,type)->value shown
        after all lines with time <= t are applied (last line wins)."""
        out = []
        cur = {}
        i = 0
        ls = self.lines
        for t in times:
            while i < len(ls) and ls[i][0] <= t:
                cur[(ls[i][1], ls[i][2])] = ls[i][3]
                i += 1
            out.append(dict(cur))
        return out


class Pcf:
    """Parsed .pcf: event types -> (title, {value: label})."""

    def __init__(self, path):
        self.types = {}
        cur = None
        mode = None
        with open(path, "r", errors="replace") as f:
            for ln in f:
                ln = ln.rstrip("\n")
                if ln.startswith("EVENT_TYPE"):
                    mode = "type"
                    cur = None
                    continue
                if ln.startswith("VALUES"):
                    mode = "values"
                    continue
                if not ln.strip():
                    if mode == "values":
                        mode = None
                    continue
                if mode == "type":
                    m = re.match(r"\s*(\d+)\s+(\d+)\s+(.*)", ln)
                    if m:
                        cur = int(m.group(2))
                        self.types[cur] = (m.group(3), {})
                    continue
                if mode == "values" and cur is not None:
                    m = re.match(r"\s*(-?\d+)\s+(.*)", ln)
                    if m:
                        self.types[cur][1][int(m.group(1))] = m.group(2)


class Row:
    def __init__(self, path):
        self.sections = {}
        cur = None
        with open(path, "r", errors="replace") as f:
            for ln in f:
                ln = ln.rstrip("\n")
                m = re.match(r"LEVEL (\w+) SIZE (\d+)", ln)
                if m:
                    cur = m.group(1)
                    self.sections[cur] = {"size": int(m.group(2)), "names": []}
                    continue
                if cur and ln != "":
                    self.sections[cur]["names"].append(ln)

    @property
    def thread_rows(self):
        return self.sections.get("THREAD", {"size": 0, "names": []})


def outputs(tracedir):
    """Return dict name -> path of emulator outputs."""
    out = {}
    for f in os.listdir(tracedir):
        if f.endswith((".prv", ".pcf", ".row")):
            out[f] = os.path.join(tracedir, f)
    return out
