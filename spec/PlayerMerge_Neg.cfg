SPECIFICATION MergeSpec
CONSTANTS
  NS = 3
  MaxEv = 2
  Clocks = {0,1,2}
  Offsets <- OffsetsSmall
  NL = 2
  Base = 2
  PVariant = "ok"
  MPick = "any"
  HVariant = "ok"
INVARIANTS MergeNonDecreasing MergePerStreamOrder MergeExactlyOnce MergeOutputTimes MergeNoStuck
CHECK_DEADLOCK FALSE
