SPECIFICATION BSpec
CONSTANTS
  System <- SysC206
  Alphabet <- AlphaC206
  MaxLen = 8
  Lint = TRUE
  SortVariant = "code"
  StaleOK = TRUE
VIEW BView
INVARIANT BInv
ACTION_CONSTRAINT BExport
CHECK_DEADLOCK FALSE
