SPECIFICATION Spec
CONSTANTS
  StackMax = 2
  NRows = 2
  Variant = "code"
  Tracks = {}
  Record = FALSE
  Setups <- SetupsMain
VIEW MCView
INVARIANTS TypeOK DirtyListDrains FlushedIsShown StackDiscipline TrackView TimesSorted HeaderIsLastAdvance RegsDistinct
PROPERTIES StepProps
CHECK_DEADLOCK FALSE
