SPECIFICATION BSpec
CONSTANTS
  System <- SysC20V2L
  Alphabet <- AlphaC20V2L
  MaxLen = 8
  Lint = TRUE
  SortVariant = "code"
  StaleOK = TRUE
VIEW BView
INVARIANT BInv
ACTION_CONSTRAINT BExport
CHECK_DEADLOCK FALSE
