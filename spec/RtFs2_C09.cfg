SPECIFICATION SpecCrash
CONSTANTS
  JsonLast = TRUE
  CheckCopy = TRUE
  Small = TRUE
INVARIANTS C09a2 C09b2
CHECK_DEADLOCK FALSE
