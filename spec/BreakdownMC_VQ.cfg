SPECIFICATION BSpec
CONSTANTS
  System <- SysC20VQ
  Alphabet <- AlphaC20VQ
  MaxLen = 8
  Lint = TRUE
  SortVariant = "code"
  StaleOK = TRUE
VIEW BView
INVARIANT BInv
ACTION_CONSTRAINT BExport
CHECK_DEADLOCK FALSE
