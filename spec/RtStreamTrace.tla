-------------------------- MODULE RtStreamTrace --------------------------
(* Trace validation for RtStream: every line of the log recorded by
   drivers/rtdrive.c (one per public API call, with the size of stream.obs
   observed after the call) must be explained by the corresponding RtStream
   action, and the stream decoded from disk at the end must be exactly the
   model's disk.  Several executions are concatenated with "reset" lines. *)
EXTENDS RtStream, Json, IOUtils, TLC

Log == ndJsonDeserialize(IOEnv.TRACE)

VARIABLE l
tvars == <<vars, l>>

TInit == Init /\ l = 1

IsOp(o) == l <= Len(Log) /\ Log[l].op = o /\ l' = l + 1

TReset == /\ IsOp("reset")
          /\ st' = "fresh" /\ evlen' = 0 /\ buf' = <<>> /\ disk' = <<>> /\ dbytes' = 0
          /\ now' = 1 /\ emitted' = <<>> /\ nflush' = 0 /\ nested' = FALSE /\ calls' = 0

\* logged observation: file size after the call = bytes written by the model
Obs == dbytes' = Log[l].fsize

TThreadInit == IsOp("thread_init") /\ ThreadInit /\ Obs
TEmit  == IsOp("emit")  /\ Log[l].pay \in LegalPay /\ Emit(Log[l].pay, Log[l].kind)
                        /\ emitted'[Len(emitted')] = Log[l].id /\ Obs
TJumbo == IsOp("jumbo") /\ EmitJumbo(Log[l].n) /\ emitted'[Len(emitted')] = Log[l].id /\ Obs
TFlush == IsOp("flush") /\ Flush /\ Obs
TFree  == IsOp("free")  /\ Free /\ Obs

\* the stream decoded from disk by the independent decoder
Same(o, e) == o.k = e.k /\ o.sz = e.sz /\ (IsUser(e) => o.id = e.id)
ObsMonotone(s) == \A i \in 1..(Len(s) - 1) : s[i].clk <= s[i + 1].clk
ObsPaired(s) == LET m == SelectSeq(s, LAMBDA e : e.k \in {"b", "e"}) IN
                /\ Len(m) % 2 = 0
                /\ \A i \in 1..Len(m) : m[i].k = (IF i % 2 = 1 THEN "b" ELSE "e")
TFinal == /\ IsOp("final")
          /\ LET s == Log[l].stream IN
             /\ Len(s) = Len(disk)
             /\ \A i \in 1..Len(s) : Same(s[i], disk[i])
             /\ ObsMonotone(s)
             /\ ObsPaired(s)
             /\ Log[l].fsize = dbytes
          /\ UNCHANGED vars

\* ovni_ev_jumbo_emit refuses (die) a jumbo that can never fit the buffer
TJumboDie == IsOp("jumbo_die") /\ st = "ready" /\ JumboTooLarge(Log[l].n) /\ UNCHANGED vars

TNext == TJumboDie \/ TReset \/ TThreadInit \/ TEmit \/ TJumbo \/ TFlush \/ TFree \/ TFinal
TSpec == TInit /\ [][TNext]_tvars

\* acceptance: all lines consumed (one state per line + the initial state)
Accepted == TLCGet("stats").diameter - 1 = Len(Log)
Report == PrintT(<<"CONSUMED", TLCGet("stats").diameter - 1, Len(Log)>>) /\ Accepted
=============================================================================
