SPECIFICATION Spec
CONSTANTS
  NT = 2
  DefCalls <- DefsD
  EvCalls <- EvD
  MaxDefs <- MaxDefsDq
  MaxEv <- MaxEvDq
  Variant = "faithful"
VIEW View
INVARIANTS
  MergeOrderIndependent
  ConflictsRefused
  AgreeingDefsMerge
  SingleThreadLoads
  AcceptedPersist
  RefusalIsLast
ACTION_CONSTRAINT Export
PROPERTY DefsMonotone
CHECK_DEADLOCK FALSE
