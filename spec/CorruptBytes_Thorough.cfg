SPECIFICATION BSpec
CONSTANTS
  Window = 64
  Stride = 4
  Variant = "code"
INVARIANTS TruncLosesEnd ExportInv
CHECK_DEADLOCK FALSE
