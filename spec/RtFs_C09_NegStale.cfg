SPECIFICATION SpecCrash
CONSTANTS
  JsonLast = TRUE
  CheckCopy = TRUE
  UnlinkStale <- No
INVARIANTS C09a C09b
CHECK_DEADLOCK FALSE
