------------------------------- MODULE System -------------------------------
(* Bounded family of traces for C15: every distribution of app_id / rank /
   loom_cpus over the threads, CPU list orders, processing orders, and every
   single contradiction; see SystemOps for the two layers being compared. *)
EXTENDS SystemOps

-----------------------------------------------------------------------------
(* Bounded family of traces *)
M(l, p, t, a, r, n, c) == [loom |-> l, pid |-> p, tid |-> t, app |-> a, rank |-> r, nranks |-> n, cpus |-> c]

\* base system: loom 1 {proc 40 (tids 11,12), proc 30 (tid 21)}, loom 2 {proc 50 (tids 31,32)}
\* ranks (when present): proc 40 -> 1, proc 30 -> 2, proc 50 -> 0  (rank order differs from pid/name order)
Slots == <<[l |-> 1, p |-> 40, t |-> 12], [l |-> 1, p |-> 40, t |-> 11], [l |-> 1, p |-> 30, t |-> 21],
           [l |-> 2, p |-> 50, t |-> 32], [l |-> 2, p |-> 50, t |-> 31]>>
AppOf(p) == CASE p = 40 -> 2 [] p = 30 -> 1 [] p = 50 -> 3
RankOf(p) == CASE p = 40 -> 1 [] p = 30 -> 2 [] p = 50 -> 0
CpusOfLoom(l) == IF l = 1 THEN {<<0, 11>>, <<1, 10>>} ELSE {<<0, 20>>}

\* a distribution: which slots carry app / rank, and for each slot its cpu list
CONSTANT WithOrders,  \* TRUE: all 120 processing orders; FALSE: a few
         Tiny         \* TRUE: a handful of distributions only (used by C13 for row-name checks)
VARIABLES S, tag
vars == <<S, tag>>

Perms(n) == {f \in [1..n -> 1..n] : \A i, j \in 1..n : i # j => f[i] # f[j]}
\* thorough: every processing order up to reversal (60 of the 120; reversed orders are in the small set)
Orders == IF WithOrders THEN {f \in Perms(5) : f[1] < f[5]} \cup {<<5, 4, 3, 2, 1>>}
          ELSE {<<1, 2, 3, 4, 5>>, <<5, 4, 3, 2, 1>>, <<3, 5, 1, 4, 2>>}

NonEmptySubsets(X) == SUBSET X \ {{}}
SlotsOfProc(p) == {i \in 1..5 : Slots[i].p = p}
SlotsOfLoom(l) == {i \in 1..5 : Slots[i].l = l}

\* cpu distributions of a loom: each cpu pair is carried by one or two slots of the loom
CpuDist(l) == [CpusOfLoom(l) -> {X \in NonEmptySubsets(SlotsOfLoom(l)) :
                                    Cardinality(X) <= (IF WithOrders THEN 2 ELSE 1) \/ X = SlotsOfLoom(l)}]
ListOf(P, rev) == LET s == SortBy(P, [a \in P |-> a[1]]) IN
                  IF rev THEN [i \in 1..Len(s) |-> s[Len(s) + 1 - i]] ELSE s

Build(appS, rankS, d1, d2, rev, ord) ==
   LET rec(i) ==
         LET sl == Slots[i]
             mine == {a \in CpusOfLoom(sl.l) : i \in (IF sl.l = 1 THEN d1[a] ELSE d2[a])} IN
         M(sl.l, sl.p, sl.t,
           IF i \in appS THEN AppOf(sl.p) ELSE 0,
           IF i \in rankS THEN RankOf(sl.p) ELSE -1,
           IF i \in rankS THEN 4 ELSE 0,
           ListOf(mine, rev))
   IN [k \in 1..5 |-> rec(ord[k])]

\* app on a non-empty subset of the slots of each process; rank on none or
\* on a non-empty subset of the slots of each process
AppChoices == IF Tiny THEN {{1, 3, 4}, {2, 3, 4, 5}}
              ELSE {A \in SUBSET (1..5) : \A p \in {40, 30, 50} : A \cap SlotsOfProc(p) # {}}
RankChoices == {{}} \cup AppChoices

\* single contradictions applied to one canonical valid trace
Canon(o, r) == Build({1, 3, 4}, r, [a \in CpusOfLoom(1) |-> {1, 3}], [a \in CpusOfLoom(2) |-> {5}], FALSE, o)
Mut(s, i, f, v) == [s EXCEPT ![i] = [s[i] EXCEPT ![f] = v]]
Pos(s, l, p, t) == CHOOSE i \in 1..Len(s) : s[i].loom = l /\ s[i].pid = p /\ s[i].tid = t
Contradictions(o) ==
   LET c == Canon(o, {}) cr == Canon(o, {1, 3, 5})
       a == Pos(c, 1, 40, 11) b == Pos(c, 1, 40, 12) d == Pos(c, 1, 30, 21) e == Pos(c, 2, 50, 31)
       g == Pos(c, 2, 50, 32) IN
   {<<"app-mismatch",   Mut(c, a, "app", 7)>>,
    <<"app-missing",    Mut(c, d, "app", 0)>>,
    <<"app-missing-loom2", Mut(c, g, "app", 0)>>,
    <<"app-negative",   Mut(Mut(c, b, "app", -2), a, "app", -2)>>,
    <<"rank-mismatch",  Mut(Mut(cr, a, "rank", 3), a, "nranks", 4)>>,
    \* the same with rank 0 on one side (0 is a rank, not "no rank")
    <<"rank-mismatch-zero", Mut(Mut(cr, g, "rank", 2), g, "nranks", 4)>>,
    <<"nranks-mismatch", Mut(Mut(cr, a, "rank", 1), a, "nranks", 5)>>,
    <<"nranks-missing", Mut(cr, d, "nranks", 0)>>,
    \* a second thread of the process carries only a (different) rank count
    <<"nranks-mismatch-without-rank", Mut(cr, a, "nranks", 5)>>,
    \* the rank in one thread, the rank count in another one: the union is complete
    <<"rank-and-nranks-split", Mut(Mut(cr, b, "nranks", 0), a, "nranks", 4)>>,
    <<"rank-ge-nranks", Mut(cr, d, "rank", 4)>>,
    <<"rank-partial",   Mut(Mut(cr, d, "rank", -1), d, "nranks", 0)>>,
    <<"index-two-phyids", Mut(c, a, "cpus", <<<<0, 15>>>>)>>,
    <<"phyid-two-indices", Mut(c, a, "cpus", <<<<1, 11>>>>)>>,
    <<"index-gap",      Mut(c, a, "cpus", <<<<3, 17>>>>)>>,
    <<"cpus-missing",   Mut(c, e, "cpus", <<>>)>>,
    <<"cpu-negative-index", Mut(c, a, "cpus", <<<<-1, 17>>>>)>>,
    <<"duplicate-tid",  Mut(c, a, "tid", 12)>>,
    <<"loom2-only-ranks", Mut(Mut(c, e, "rank", 0), e, "nranks", 4)>>,
    <<"reverse-cpu-order", Mut(c, g, "cpus", <<<<0, 20>>>>)>>}

\* ---- second family: three looms with rank information on any subset of them (mixed: looms are
\* ordered by name, the processes of a ranked loom by rank, of an unranked loom by pid), in every
\* processing order.  PID order and rank order differ in looms 1 and 3.
\* PIDs are unique inside a loom only: loom 2 has a process with the PID of one of loom 1
\* The rank order of the looms (3, 2, 1) is the reverse of their name order: a comparison that uses the ranks
\* for some pairs of looms and the names for others cannot be consistent here.
Slots3 == <<[l |-> 1, p |-> 40, t |-> 11, r |-> 3, a |-> 4], [l |-> 1, p |-> 30, t |-> 21, r |-> 4, a |-> 3],
            [l |-> 2, p |-> 40, t |-> 31, r |-> 2, a |-> 5],
            [l |-> 3, p |-> 70, t |-> 41, r |-> 0, a |-> 7], [l |-> 3, p |-> 60, t |-> 51, r |-> 1, a |-> 6]>>
BuildMixed(R, ord) ==
   LET rec(i) == LET sl == Slots3[i] IN
          M(sl.l, sl.p, sl.t, sl.a,
            IF sl.l \in R THEN sl.r ELSE -1, IF sl.l \in R THEN 5 ELSE 0,
            IF i \in {1, 3, 4} THEN <<<<0, 10 * sl.l>>>> ELSE <<>>)
   IN [k \in 1..5 |-> rec(ord[k])]
MixedOrders == IF WithOrders THEN Perms(5)
               ELSE {<<1, 2, 3, 4, 5>>, <<5, 4, 3, 2, 1>>, <<3, 5, 1, 4, 2>>, <<4, 5, 3, 1, 2>>, <<3, 1, 2, 4, 5>>,
                     <<2, 1, 3, 5, 4>>, <<4, 1, 3, 2, 5>>, <<3, 4, 1, 5, 2>>}

\* two-level enumeration (so that TLC's workers share the work): the initial
\* states choose who carries app / rank, the step chooses CPU lists and order
Init == /\ S = <<>>
        /\ \/ \E a \in AppChoices, r \in RankChoices : tag = <<"seed", a, r>>
           \/ tag = <<"seed-contradictions">>
           \/ tag = <<"seed-mixed">>
Next == \/ /\ tag[1] = "seed"
           /\ \E d1 \in CpuDist(1), d2 \in CpuDist(2), rev \in BOOLEAN, o \in Orders :
                 S' = Build(tag[2], tag[3], d1, d2, rev, o)
           /\ tag' = <<"valid">>
        \/ /\ tag[1] = "seed-contradictions"
           /\ \E o \in Orders : \E x \in Contradictions(o) : S' = x[2] /\ tag' = <<x[1]>>
        \/ /\ tag[1] = "seed-mixed"
           /\ \E R \in SUBSET {1, 2, 3}, o \in MixedOrders : S' = BuildMixed(R, o)
           /\ tag' = <<"mixed">>
Spec == Init /\ [][Next]_vars
IsSeed == S = <<>>

\* ---- what TLC checks on every trace of the family
MergeMatchesUnion == IsSeed \/ ImplAgrees(S)
ValidAreAccepted == (~IsSeed /\ tag = <<"valid">>) => Expected(S).verdict = "ok"
\* distribution independence: the rows of every valid trace are those of the canonical one
\* with the same rank choice (same union of metadata)
HasRanks == \E i \in 1..Len(S) : S[i].rank # -1
RowsIndependent ==
   (~IsSeed /\ tag = <<"valid">>) =>
      LET c == Canon(<<1, 2, 3, 4, 5>>, IF HasRanks THEN {1, 3, 5} ELSE {}) IN
      /\ Expected(S).trows = Expected(c).trows
      /\ Expected(S).crows = Expected(c).crows

MixedAccepted == (~IsSeed /\ tag = <<"mixed">>) => Expected(S).verdict = "ok"
MixedRowsIndependent ==
   (~IsSeed /\ tag = <<"mixed">>) =>
      LET R == {S[i].loom : i \in {j \in 1..Len(S) : S[j].rank # -1}}
          c == BuildMixed(R, <<1, 2, 3, 4, 5>>) IN
      /\ Expected(S).trows = Expected(c).trows
      /\ Expected(S).crows = Expected(c).crows

\* deterministic 1-in-SampleMod sample of the valid family for the conformance step
CONSTANT SampleMod
RECURSIVE HashOf(_, _)
HashOf(s, i) == IF i > Len(s) THEN 0
                ELSE (s[i].tid * i + Len(s[i].cpus) * 7 + s[i].app * 3 + s[i].rank + 1 + HashOf(s, i + 1)) % 9973
ExportInv == (~IsSeed /\ (tag # <<"valid">> \/ HashOf(S, 1) % SampleMod = 0)) => PrintT(<<"TR", ToJson([tag |-> tag[1], streams |-> S, exp |-> Expected(S)])>>)
=============================================================================
