---------------------------- MODULE RtStream ----------------------------
(* Per-thread event stream of the ovni runtime (src/rt/ovni.c).

   Implementation layer: the staging buffer with its fill level, the
   flush-before-overflow rule of ovni_ev_add / ovni_ev_add_jumbo and the
   RECURSIVE call ovni_ev_add -> add_flush_events -> ovni_ev_add, written so
   that a nested flush is a reachable behaviour whenever the arithmetic
   allows it.  One action per public API call (the linearization point of a
   sequential thread is the return of the call).

   Property layer (C01, C02): Fidelity, OnlyMarkers, HeaderFirst, Tiling,
   ClockMonotone, FlushPaired, BufferBound.                                *)
EXTENDS Naturals, Sequences, FiniteSets, RtArith

CONSTANTS PaySizes,    \* payload sizes tried by Emit (subset of LegalPay)
          JumboSizes,  \* jumbo data sizes tried by EmitJumbo
          MaxCalls     \* bound on API calls (state constraint)

VARIABLES st,       \* "fresh" | "ready" | "freed"
          evlen,    \* rthread.evlen
          buf,      \* events staged in rthread.evbuf (sequence of records)
          disk,     \* events already written to stream.obs
          dbytes,   \* bytes handed to write(2) so far (file size)
          now,      \* logical clock: every ovni_clock_now() returns now, now+1
          emitted,  \* ghost: ids of the user events handed to the library, in call order
          nflush,   \* ghost: number of flush_evbuf() calls
          nested,   \* ghost: a flush happened inside add_flush_events
          calls

vars == <<st, evlen, buf, disk, dbytes, now, emitted, nflush, nested, calls>>

\* event kinds: "u" normal user event, "j" jumbo user event, "m" mark event
\* (OM[ OM] OM= written by the mark API), "b"/"e" flush markers OF[ OF]
Ev(k, id, sz, clk) == [k |-> k, id |-> id, sz |-> sz, clk |-> clk]
IsUser(e)   == e.k \in {"u", "j", "m"}
IsMarker(e) == e.k \in {"b", "e"}

-----------------------------------------------------------------------------
(* The buffer as a record, so that the recursion of the code can be written
   as a recursive operator. *)
B(l, b, d, db, n, nf, ns) ==
   [evlen |-> l, buf |-> b, disk |-> d, dbytes |-> db, now |-> n, nflush |-> nf, nested |-> ns]

Cur == B(evlen, buf, disk, dbytes, now, nflush, nested)

\* flush_evbuf(): write_evbuf(evbuf, evlen); evlen = 0
FlushBuf(s) == [s EXCEPT !.disk = s.disk \o s.buf, !.dbytes = s.dbytes + s.evlen,
                         !.buf = <<>>, !.evlen = 0, !.nflush = s.nflush + 1]

\* memcpy(&evbuf[evlen], ev, size); evlen += size
Copy(s, e) == [s EXCEPT !.buf = Append(s.buf, e), !.evlen = s.evlen + e.sz]

RECURSIVE EvAdd(_, _, _)
\* ovni_ev_add(ev); depth > 0 when called from add_flush_events
EvAdd(s, e, depth) ==
   IF NeedFlush(s.evlen, e.sz)
   THEN LET t0 == s.now                                   \* t0 = ovni_clock_now()
            s1 == [FlushBuf(s) EXCEPT !.now = s.now + 2,  \* t1 = ovni_clock_now()
                                      !.nested = s.nested \/ depth > 0]
            s2 == Copy(s1, e)
            s3 == EvAdd(s2, Ev("b", 0, HdrSize, t0), depth + 1)      \* add_flush_events
        IN  EvAdd(s3, Ev("e", 0, HdrSize, t0 + 1), depth + 1)
   ELSE Copy(s, e)

\* ovni_ev_add_jumbo(ev, buf, bufsize)
EvAddJumbo(s, e) ==
   IF NeedFlush(s.evlen, e.sz)
   THEN LET t0 == s.now
            s1 == [FlushBuf(s) EXCEPT !.now = s.now + 2]
            s2 == Copy(s1, e)
        IN  IF Reserve /\ ~MarkersFit(s2.evlen)
            THEN \* fixed code: write the big event out and retake t1
                 LET s3 == [FlushBuf(s2) EXCEPT !.now = s2.now + 1]
                     s4 == EvAdd(s3, Ev("b", 0, HdrSize, t0), 1)
                 IN  EvAdd(s4, Ev("e", 0, HdrSize, s2.now), 1)
            ELSE LET s3 == EvAdd(s2, Ev("b", 0, HdrSize, t0), 1)
                 IN  EvAdd(s3, Ev("e", 0, HdrSize, t0 + 1), 1)
   ELSE Copy(s, e)

Install(s) == /\ evlen' = s.evlen /\ buf' = s.buf /\ disk' = s.disk
              /\ dbytes' = s.dbytes /\ now' = s.now /\ nflush' = s.nflush
              /\ nested' = s.nested

-----------------------------------------------------------------------------
Init == /\ st = "fresh" /\ evlen = 0 /\ buf = <<>> /\ disk = <<>> /\ dbytes = 0
        /\ now = 1 /\ emitted = <<>> /\ nflush = 0 /\ nested = FALSE /\ calls = 0

\* ovni_thread_init: write_stream_header() puts the 8-byte header in the
\* buffer and flushes it with its own write.
ThreadInit ==
   /\ st = "fresh"
   /\ st' = "ready" /\ dbytes' = StreamHdr
   /\ UNCHANGED <<evlen, buf, disk, now, emitted, nflush, nested>>
   /\ calls' = calls + 1

NextId == Len(emitted) + 1

\* the caller stamps the event with ovni_clock_now() and hands it over
Emit(pay, kind) ==
   /\ st = "ready"
   /\ LET e == Ev(kind, NextId, NormalSize(pay), now)
          s == EvAdd([Cur EXCEPT !.now = now + 1], e, 0)
      IN  Install(s) /\ emitted' = Append(emitted, e.id)
   /\ calls' = calls + 1 /\ UNCHANGED st

EmitJumbo(n) ==
   /\ st = "ready"
   /\ ~JumboTooLarge(n)                       \* otherwise die("event too large")
   /\ LET e == Ev("j", NextId, JumboSize(n), now)
          s == EvAddJumbo([Cur EXCEPT !.now = now + 1], e)
      IN  Install(s) /\ emitted' = Append(emitted, e.id)
   /\ calls' = calls + 1 /\ UNCHANGED st

\* ovni_flush(): pre stamped, flush_evbuf(), post stamped, both added
Flush ==
   /\ st = "ready"
   /\ LET s1 == [FlushBuf(Cur) EXCEPT !.now = now + 2]
          s2 == EvAdd(s1, Ev("b", 0, HdrSize, now), 0)
          s3 == EvAdd(s2, Ev("e", 0, HdrSize, now + 1), 0)
      IN  Install(s3)
   /\ calls' = calls + 1 /\ UNCHANGED <<st, emitted>>

\* ovni_thread_free(): does NOT flush; whatever is staged is dropped
Free ==
   /\ st = "ready"
   /\ st' = "freed" /\ buf' = <<>> /\ evlen' = 0
   /\ UNCHANGED <<disk, dbytes, now, emitted, nflush, nested>>
   /\ calls' = calls + 1

Next == \/ ThreadInit
        \/ \E p \in PaySizes : Emit(p, "u")
        \/ Emit(12, "m")                       \* ovni_mark_push/pop/set: 8 + 4 bytes
        \/ \E n \in JumboSizes : EmitJumbo(n)
        \/ Flush
        \/ Free

Spec == Init /\ [][Next]_vars

Bound == calls < MaxCalls

-----------------------------------------------------------------------------
(* Property layer *)
Stream == disk \o buf

SumSz(s) == LET RECURSIVE Sum(_)
                Sum(i) == IF i = 0 THEN 0 ELSE s[i].sz + Sum(i - 1)
            IN  Sum(Len(s))

FilterSeq(s, T(_)) == SelectSeq(s, T)

UserIds(s) == LET u == SelectSeq(s, IsUser) IN [i \in 1..Len(u) |-> u[i].id]

\* C01: every event handed over is in the stream exactly once, in call order
Fidelity == st = "ready" => UserIds(Stream) = emitted
\* once flushed and freed, everything is on disk
FidelityAtEnd == (st = "freed" /\ Len(emitted) > 0) =>
                    (UserIds(disk) = SubSeq(emitted, 1, Len(UserIds(disk))))
\* C01: the only other events are the library's flush markers
OnlyMarkers == \A i \in 1..Len(Stream) : IsUser(Stream[i]) \/ IsMarker(Stream[i])
\* C01: stream begins with the 8-byte header; C02: events tile the file
HeaderFirst == st # "fresh" => dbytes >= StreamHdr
Tiling == st # "fresh" => (dbytes = StreamHdr + SumSz(disk) /\ evlen = SumSz(buf))
\* memcpy stays inside the CAP-byte buffer
BufferBound == evlen <= CAP

\* C02: clocks never decrease
ClockMonotone == \A i \in 1..(Len(Stream) - 1) : Stream[i].clk <= Stream[i + 1].clk
\* C02: flush markers alternate begin/end, never nested, starting with begin
Markers(s) == SelectSeq(s, IsMarker)
FlushPaired ==
   LET m == Markers(Stream) IN
   /\ Len(m) % 2 = 0
   /\ \A i \in 1..Len(m) : m[i].k = (IF i % 2 = 1 THEN "b" ELSE "e")
   /\ \A i \in 1..(Len(m) - 1) : m[i].clk <= m[i + 1].clk
\* no flush ever happens while the flush markers are being added
NoNestedFlush == ~nested

\* After ovni_flush every user event is on disk (what C01 calls
\* "once the thread has flushed and been freed")
FlushedAllOnDisk == [][Flush => UserIds(disk') = emitted']_vars
=============================================================================
