------------------------------ MODULE SortMod ------------------------------
(* The sort module of the emulator (src/emu/sort.c), C20.

   n input channels (values NULL or int64; NULL counts as 0) and n output
   channels ("rows").  Whenever one input changes, sort_cb_input() updates
   the sorted copy and writes the outputs that differ from what they held.

   Property layer (what C20 claims):
     RowsSorted         after every change the rows hold exactly the multiset
                        of the input values, in non-decreasing order
     OnlyChangedWritten only the rows whose content changes are written
                        (rows start unset: the first change fills them)
   Implementation layer: sort_cb_input as written - first change = full copy
   + qsort (libc, trusted: modelled by the reference sort), later changes =
   sort_replace(sorted, n, old, new) (SortOps!SortReplace, both branches,
   the n/2 jump), no-op when old = new (NULL <-> 0).

   TLC explores every input history (the state space is finite: n in
   1..MaxN, values in Vals \cup {Null}) and checks Impl => Property; every
   transition is exported as a JSON line for the replay on the real code.  *)
EXTENDS SortOps, TLC, Json

CONSTANTS MaxN,        \* array sizes 1..MaxN
          Vals,        \* int64 values the inputs take
          Variant,     \* "code" | wrong variants of sort_replace (see SortOps)
          WriteAll     \* FALSE = as written; TRUE = WRONG: every output is rewritten on every change

Null == -1             \* VALUE_NULL of an input / an output never written

VARIABLES n,           \* number of inputs
          ins,         \* [1..n -> Vals \cup {Null}]  input channels
          values,      \* sort->values
          sorted,      \* sort->sorted
          copied,      \* sort->copied
          outs,        \* output channels (Null = never written)
          written,     \* ghost: outputs written by the last change
          changed,     \* ghost: outputs whose content differs after the last change
          oob,         \* ghost: sort_replace left the array
          last         \* ghost: the last change <<index (0-based), old input, new input>>

vars == <<n, ins, values, sorted, copied, outs, written, changed, oob, last>>

Eff(x) == IF x = Null THEN 0 ELSE x          \* "int64_t new = 0; if (cur.type == VALUE_INT64) new = cur.i;"
Zeros(k) == [i \in 1..k |-> 0]

Init == /\ n \in 1..MaxN
        /\ ins = [i \in 1..n |-> Null]
        /\ values = Zeros(n) /\ sorted = Zeros(n)      \* calloc
        /\ copied = FALSE
        /\ outs = [i \in 1..n |-> Null]
        /\ written = {} /\ changed = {} /\ oob = FALSE /\ last = <<>>

\* sort_cb_input for input i (1-based) whose channel now holds x
Change(i, x) ==
   LET old == values[i]
       new == Eff(x)
   IN
   /\ ins' = [ins EXCEPT ![i] = x]
   /\ last' = <<i - 1, ins[i], x>>
   /\ n' = n
   /\ IF old = new
      THEN \* nothing to do if no change
           /\ UNCHANGED <<values, sorted, copied, outs, oob>>
           /\ written' = {} /\ changed' = {}
      ELSE LET v2 == [values EXCEPT ![i] = new]
               r  == IF copied THEN SortReplace(Variant, sorted, old, new)
                     ELSE R(SortAsc(v2), FALSE)                 \* memcpy + qsort
           IN
           /\ values' = v2
           /\ sorted' = r.arr
           /\ oob' = r.oob
           /\ copied' = TRUE
           /\ written' = IF WriteAll THEN 1..n ELSE {j \in 1..n : outs[j] # r.arr[j]}
           /\ changed' = {j \in 1..n : outs[j] # r.arr[j]}
           /\ outs' = r.arr

Next == ~oob /\ \E i \in 1..n : \E x \in (Vals \cup {Null}) \ {ins[i]} : Change(i, x)
Spec == Init /\ [][Next]_vars

-----------------------------------------------------------------------------
(* Property layer *)
InputValues == [i \in 1..n |-> Eff(ins[i])]
RowValue(j) == Eff(outs[j])                       \* NULL shows as 0 in the Paraver row

RowsSorted ==
   /\ ~oob
   /\ values = InputValues
   /\ IsSortOf([j \in 1..n |-> RowValue(j)], InputValues)
   /\ copied => sorted = SortAsc(InputValues) /\ outs = sorted
OnlyChangedWritten == written \subseteq changed
AllChangedWritten  == changed \subseteq written
RefSortIsSort == IsSortOf(SortAsc(InputValues), InputValues)

Inv == RowsSorted /\ OnlyChangedWritten /\ AllChangedWritten /\ RefSortIsSort

-----------------------------------------------------------------------------
(* Export: one line per transition, expected values from the PROPERTY layer *)
View == <<n, ins, values, sorted, copied, outs, written, changed, oob>>
Export ==
   PrintT(<<"TR", ToJson([n |-> n, ins |-> ins, copied |-> copied, sorted |-> sorted,
                          idx |-> last'[1], old |-> Eff(last'[2]), new |-> Eff(last'[3]), x |-> last'[3],
                          rows |-> [j \in 1..n |-> Eff(outs[j])],
                          exprows |-> SortAsc([i \in 1..n |-> Eff(ins'[i])]),
                          wr |-> {j - 1 : j \in {k \in 1..n :
                                     outs[k] # (IF Eff(last'[2]) = Eff(last'[3]) THEN outs[k]
                                                ELSE SortAsc([i \in 1..n |-> Eff(ins'[i])])[k])}}])>>)
=============================================================================
