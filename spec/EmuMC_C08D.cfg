SPECIFICATION MCSpec
CONSTANTS
  System <- SysC08D
  Alphabet <- AlphaC08D
  MaxLen = 7
  Lint = TRUE
VIEW MCView
INVARIANT Inv
ACTION_CONSTRAINT Export
CHECK_DEADLOCK FALSE
