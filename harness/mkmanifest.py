#!/usr/bin/env python3
"""Writes /verif/MANIFEST.json from the table below (single source of truth)."""
import json
import os

HERE = os.path.dirname(os.path.dirname(os.path.abspath(__file__)))

ALL = ["C%02d" % i for i in range(1, 21)]

CHECKS = {
 "C01": dict(
    level="model_checking", ref="DESIGN.md §4 C01",
    technique="TLA+ spec RtStream/RtStreamAbs checked by TLC + TLC-generated call sequences replayed through libovni and validated against the spec (trace validation)",
    text="TLC explores every call sequence of the scaled faithful model (CAP=56) and every fill level of the real 2 MiB buffer in the size-abstracted model; invariants Fidelity, OnlyMarkers, HeaderFirst, Tiling, BufferBound. The spec is bound to src/rt/ovni.c by replaying every call at every one of the last 64 fill levels plus TLC -simulate walks through the real library and validating the recorded file sizes and the decoded stream with RtStreamTrace.tla.",
    note="Payload/jumbo bytes are opaque ids in TLA+; their byte equality (MCV, clock, payload, jumbo data) is checked by the harness decoder against the driver's emit log. Logical clock abstracts CLOCK_MONOTONIC. Exhaustive only within the stated constants."),
 "C02": dict(
    level="model_checking", ref="DESIGN.md §4 C02",
    technique="TLA+ spec RtStream/RtStreamAbs checked by TLC (ClockMonotone, FlushPaired, NoNestedFlush) + negative configurations + replay of TLC-generated protocol-conformant programs through libovni, trace validation and ovniemu -l",
    text="Same models as C01 with the validity invariants (tiling, monotone clocks, paired non-nested flush markers); the arithmetic of the pinned commit is kept as a negative configuration that TLC must refute. Every generated program is run against the real library, its stream validated by RtStreamTrace.tla (observed markers paired, clocks monotone, sizes) and the directory is fed to ovniemu -l which must accept.",
    note="Programs are single-threaded protocol-conformant scripts (multi-thread isolation is C11). Exhaustive within constants; the emulator is part of the observation."),
}

NA_REASON = "check not built yet in this round (planned, see DESIGN.md §4/§8); not claimed until its machinery exists"


def main():
    checks = []
    for pid in ALL:
        if pid not in CHECKS:
            continue
        c = CHECKS[pid]
        checks.append({
            "property_id": pid,
            "quick_cmd": "./check %s --tier quick" % pid,
            "thorough_cmd": "./check %s --tier thorough" % pid,
            "evidence_file": "evidence/%s.json" % pid,
            "replay_cmd_template": "./check %s --replay {path}" % pid,
            "engine": "tlc",
            "level_claimed": {"category": c["level"], "text": c["text"], "design_ref": c["ref"]},
            "level_note": c["note"],
            "technique": c["technique"],
        })
    man = {
        "version": 1,
        "setup_cmd": "./setup.sh",
        "hooks": {
            "guard": "OVNI_VERIF",
            "enable": "checks configure /repo out of tree into /verif/.cache/build/<variant>-<tree hash> with -DCMAKE_C_FLAGS=-DOVNI_VERIF (variants: hooks, asan, tsan)",
            "baseline_off_cmd": "cmake --build /repo/_build && ctest --test-dir /repo/_build -j8 --timeout 900",
            "source_commits": HOOK_COMMITS,
            "add_only": True,
        },
        "engines": [
            {"name": "tlc", "path": "/usr/local/bin/tlc",
             "serves_properties": sorted(CHECKS), "kind_free_text": "TLA+ explicit-state model checker (TLC 1.8.0) on the specs in /verif/spec, used for exhaustive bounded exploration, behaviour generation and trace validation"},
        ],
        "checks": checks,
        "not_applicable": [{"property_id": p, "reason": NA_REASON} for p in ALL if p not in CHECKS],
        "notes": "Fix commits in /repo (unguarded, 'fix:'): see known-findings.txt. ./check <id> exits 2 on machinery failure (never a VIOLATION).",
    }
    with open(os.path.join(HERE, "MANIFEST.json"), "w") as f:
        json.dump(man, f, indent=1)
        f.write("\n")


HOOK_COMMITS = []

if __name__ == "__main__":
    main()
