SPECIFICATION MCSpec
CONSTANTS
  System <- SysC07V
  Alphabet <- AlphaC07V
  MaxLen = 12
  Lint = TRUE
VIEW MCView
INVARIANT Inv
ACTION_CONSTRAINT Export
CHECK_DEADLOCK FALSE
