-------------------------------- MODULE RtFs2 --------------------------------
(* Two threads of one process, each with the file-system behaviour of RtFs
   (same Script, same Effect), executed one after the other (thread 2 starts
   when ovni_thread_free of thread 1 has returned; threads write disjoint
   directories, so every interleaving of their calls has the same effect on
   the two directories as this order or its mirror image).  The process is
   killed between any two calls (C09) or one call fails (C10).

   The emulator looks at a whole trace directory: it accepts it when at
   least one stream is visible and EVERY visible stream is finished and
   acceptable.  "A stream visible in it lacks events its thread had already
   flushed" is therefore quantified over both streams.                    *)
EXTENDS Naturals, Integers, Sequences, FiniteSets, TLC

CONSTANTS JsonLast, CheckCopy,
          Small        \* TRUE: thread 2 ranges over a reduced scenario family (quick tier)

VARIABLES sc1, pc1, obs1, json1, flushed1, status1, fault1, copyfail1, moveok1,
          sc2, pc2, obs2, json2, flushed2, status2, fault2, copyfail2, moveok2,
          proc        \* "running" | "killed" | "aborted" | "returned"

v1 == <<sc1, pc1, obs1, json1, flushed1, status1, fault1, copyfail1, moveok1>>
v2 == <<sc2, pc2, obs2, json2, flushed2, status2, fault2, copyfail2, moveok2>>
vars == <<v1, v2, proc>>

A == INSTANCE RtFs WITH sc <- sc1, pc <- pc1, obs <- obs1, json <- json1, flushed <- flushed1,
                        status <- status1, fault <- fault1, copyfail <- copyfail1, moveok <- moveok1
B == INSTANCE RtFs WITH sc <- sc2, pc <- pc2, obs <- obs2, json <- json2, flushed <- flushed2,
                        status <- status2, fault <- fault2, copyfail <- copyfail2, moveok <- moveok2

Init2 == /\ \E s \in A!Scenarios : A!Init(s) /\ s.stale = 0         \* (stale earlier streams: RtFs alone)
         /\ \E s \in B!Scenarios : B!Init(s) /\ s.mode = sc1.mode      \* OVNI_TMPDIR is per process
                                   /\ s.stale = 0
                                   /\ (Small => (s.chunk = sc1.chunk /\ s.rdorder = sc1.rdorder
                                                 /\ s.flushes \in {<<3>>, <<2, 3>>}
                                                 /\ s.accept \subseteq ({8 + A!Total(s.flushes)} \cup 9..11)))
         /\ proc = "running"

ProcOf(s1, s2) == IF s1 = "aborted" \/ s2 = "aborted" THEN "aborted"
                  ELSE IF s2 = "returned" THEN "returned" ELSE "running"

StepA == proc = "running" /\ status1 = "running" /\ A!Step /\ UNCHANGED v2 /\ proc' = ProcOf(status1', status2)
StepB == proc = "running" /\ status1 = "returned" /\ status2 = "running" /\ B!Step /\ UNCHANGED v1
         /\ proc' = ProcOf(status1, status2')
Crash == proc = "running" /\ proc' = "killed" /\ UNCHANGED <<v1, v2>>
\* one failing call in the whole process
FailA == proc = "running" /\ status1 = "running" /\ fault2 = 0 /\ A!Fail /\ UNCHANGED v2
         /\ proc' = ProcOf(status1', status2)
FailB == proc = "running" /\ status1 = "returned" /\ status2 = "running" /\ fault1 = 0 /\ B!Fail /\ UNCHANGED v1
         /\ proc' = ProcOf(status1, status2')

NextCrash == StepA \/ StepB \/ Crash
NextFault == NextCrash \/ FailA \/ FailB
SpecCrash == Init2 /\ [][NextCrash]_vars
SpecFault == Init2 /\ [][NextFault]_vars

-----------------------------------------------------------------------------
Dirs == {"tmp", "fin"}
EmuAccepts2(d) == /\ A!Visible(d) \/ B!Visible(d)
                  /\ A!Visible(d) => A!EmuAccepts(d)
                  /\ B!Visible(d) => B!EmuAccepts(d)

\* C09a for the whole directory: accepted => no visible stream lacks flushed bytes
C09a2 == proc = "killed" =>
           \A d \in Dirs : EmuAccepts2(d) =>
              /\ A!Visible(d) => obs1[d] >= flushed1
              /\ B!Visible(d) => obs2[d] >= flushed2
C09b2 == A!C09b /\ B!C09b
\* C10a: after a normal return of the process every thread has a complete copy and the final
\* (or, failing relocation, the temporary) directory is a complete valid trace
C10a2 == proc = "returned" => /\ A!Complete("tmp") \/ A!Complete("fin")
                              /\ B!Complete("tmp") \/ B!Complete("fin")
C10b2 == A!C10b /\ B!C10b
C10c2 == proc = "returned" =>
           \A d \in Dirs : EmuAccepts2(d) =>
              /\ A!Visible(d) => obs1[d] >= flushed1
              /\ B!Visible(d) => obs2[d] >= flushed2
=============================================================================
