------------------------------- MODULE Player -------------------------------
(* C03: the emulator replays all streams as one time-ordered, loss-free
   sequence.

   Property layer  `Merge`       what any correct replay may do;
   implementation  `HeapPlayer`  src/emu/player.c on top of the pointer heap
                                 of src/include/heap.h (module PtrHeap),
                                 stream_step/stream_evclock of src/emu/stream.c.

   This module holds the definitions of both layers (it declares no
   variables, so that each of the state machines below can be checked by
   TLC on its own):
     PlayerMerge.tla  Merge as a state machine over explicit systems
                      (cursor per stream, emitted), its properties; also the
                      base of the trace validation PlayerTrace.tla
     PlayerHeap.tla   HeapPlayer against streams revealed on demand (all
                      streams within the bounds), structural invariants of
                      the heap and the refinement HeapPlayer => Merge
     PlayerEnum.tla   explicit systems: the whole replay as a function of
                      the order in which the directories are enumerated
                      (Enumerate, SortByPath, IndependentOfEnumeration),
                      export of the systems replayed end to end

   Streams are numbered 1..n in the order of their relative paths
   ("loom.<name>/proc.<pid>/thread.<tid>"; the loom is the first path
   component, so the loom index is non-decreasing in the stream index).
   A system is a record
       [loom   |-> <<loom of stream 1, ...>>,
        off    |-> <<clock offset of loom 1, ...>>,
        clocks |-> <<raw clocks of stream 1, ...>>,   (explicit systems only)
        base   |-> raw clock origin, tool |-> "emu" | "dump"]
   and the corrected time of an event with raw clock c of stream s is
       base + c + off[loom[s]]
   For the dump tools (ovnidump, ovnitop) every offset is zero: they never
   load an offset table (scope note of the design).                        *)
EXTENDS PtrHeap, TLC, Json

CONSTANTS NS,         \* number of streams (PlayerHeap: exactly NS, empty ones included; explicit systems: 1..NS)
          MaxEv,      \* events per stream (max) of the explicit systems; PlayerHeap streams have any length
          Clocks,     \* raw clock values
          Offsets,    \* clock offsets a loom may have
          NL,         \* looms (max)
          Base,       \* raw clock origin (corrected clocks must be >= 0, see StepStream)
          PVariant,   \* "ok" or a deliberately wrong player (negative configurations): "popfirst" pops
                      \* before re-inserting the stepped stream, "rawkey" never applies the offset,
                      \* "wrongsign" subtracts it, "firstloaded" takes firstclock from the first
                      \* loaded stream, "nosort" leaves the stream list in enumeration order
          MPick       \* "min" (the property) or "any" (negative configuration of Merge)

None == -1000
\* values for the configuration files (a .cfg cannot hold negative numbers)
OffsetsStd == {-2, 0, 3}
OffsetsSmall == {-2, 0}
OffsetsZero == {0}
Looms == 1..NL

NonDecr(q) == \A i \in 1..(Len(q) - 1) : q[i] <= q[i + 1]
SortedSeqs == {q \in UNION {[1..n -> Clocks] : n \in 0..MaxEv} : NonDecr(q)}
LoomAssignments(n) == {f \in [1..n -> Looms] : NonDecr(f)}
MinOf(S) == CHOOSE x \in S : \A y \in S : x <= y

NStreams(sys) == Len(sys.loom)
EffOff(sys, l) == IF sys.tool = "dump" THEN 0 ELSE sys.off[l]
Corr(sys, s, c) == sys.base + c + EffOff(sys, sys.loom[s])

(***************************************************************************)
(* Property layer: Merge                                                   *)
(***************************************************************************)
\* heads: stream -> corrected clock of its next event, or None
MergeEnabled(heads, s) ==
   /\ heads[s] # None
   /\ MPick = "min" => \A t \in DOMAIN heads : heads[t] # None => heads[s] <= heads[t]

MHead(sys, cur, s) == IF cur[s] < Len(sys.clocks[s])
                      THEN Corr(sys, s, sys.clocks[s][cur[s] + 1]) ELSE None
MHeads(sys, cur) == [s \in 1..NStreams(sys) |-> MHead(sys, cur, s)]

\* one emitted event: stream, index in the stream, corrected time, output time
Em(s, k, c, first) == [s |-> s, k |-> k, c |-> c, d |-> c - first]
FirstOf(em, c) == IF em = <<>> THEN c ELSE em[1].c      \* corrected time of the first emitted event

\* v is one of the explicit systems within the bounds (written with nested
\* quantifiers so that TLC enumerates the initial states without building the set)
IsExplicitSystem(v) ==
   \E n \in 1..NS : \E lm \in LoomAssignments(n) : \E of \in [Looms -> Offsets] :
      \E cl \in [1..n -> SortedSeqs] :
         v = [loom |-> lm, off |-> of, clocks |-> cl, base |-> Base, tool |-> "emu"]

NonDecreasing(em) == \A i \in 1..(Len(em) - 1) : em[i].c <= em[i + 1].c
PerStreamOrder(em) == \A i, j \in 1..Len(em) : (i < j /\ em[i].s = em[j].s) => em[i].k < em[j].k
ExactlyOnce(sys, em) ==
   /\ \A s \in 1..NStreams(sys) : \A k \in 1..Len(sys.clocks[s]) :
         Cardinality({i \in 1..Len(em) : em[i].s = s /\ em[i].k = k}) = 1
   /\ \A i \in 1..Len(em) : em[i].s \in 1..NStreams(sys) /\ em[i].k \in 1..Len(sys.clocks[em[i].s])
OutputTimes(em) == \A i \in 1..Len(em) : em[i].d = em[i].c - em[1].c /\ em[i].d >= 0

(***************************************************************************)
(* Implementation layer: HeapPlayer                                        *)
(* p = [h, key, active, loaded, cur, firstEvent, firstclock, lastclock,    *)
(*      deltaclock, phase, i, err]                                         *)
(*   key[s]    = stream->lastclock (0 initially)                           *)
(*   active[s] = stream->active,  loaded[s] = (stream->cur_ev != NULL)     *)
(*   cur       = player->stream (0 = NULL)                                 *)
(*   the event handed to the emulator by player_step is the current one of  *)
(*   stream cur, with sclock = lastclock and dclock = deltaclock            *)
(***************************************************************************)
PlayerInit(n) ==
   [h |-> HeapEmpty(1..n), key |-> [s \in 1..n |-> 0], active |-> [s \in 1..n |-> TRUE],
    loaded |-> [s \in 1..n |-> FALSE], cur |-> 0, firstEvent |-> TRUE, firstclock |-> 0,
    lastclock |-> 0, deltaclock |-> 0, phase |-> "init", i |-> 1, err |-> FALSE]

\* stream_evclock: raw clock + stream->clock_offset (set by system.c init_offsets)
ImplClock(sys, s, c) ==
   CASE PVariant = "rawkey"    -> sys.base + c
     [] PVariant = "wrongsign" -> sys.base + c - EffOff(sys, sys.loom[s])
     [] OTHER                  -> sys.base + c + EffOff(sys, sys.loom[s])

(* step_stream(player, stream): a = what the file holds next for this stream
   (raw clock, or None at the end of the file); consulted only if the stream
   is active.  A stream without events is inactive from the start
   (load_obs), which is the same as answering None to its first step.       *)
StepStream(sys, p, s, a) ==
   IF ~p.active[s] THEN p
   ELSE IF a = None                    \* end of the file; lastclock of a finished stream is never read again
        THEN [p EXCEPT !.active[s] = FALSE, !.loaded[s] = FALSE, !.key[s] = 0]
   ELSE LET clock == ImplClock(sys, s, a) IN
        IF clock < p.key[s] THEN [p EXCEPT !.err = TRUE]              \* "clock goes backwards"
        ELSE LET k2 == [p.key EXCEPT ![s] = clock]
             IN  [p EXCEPT !.key = k2, !.loaded[s] = TRUE, !.h = HeapInsert(p.h, s, k2)]

Consults(p, s) == s # 0 /\ p.active[s]

\* player_init: step every stream of the (sorted) list once
PInitOne(sys, p, s, a, last) ==
   LET p1 == StepStream(sys, p, s, a)
       p2 == IF PVariant = "firstloaded" /\ p1.firstEvent /\ p1.loaded[s]
             THEN [p1 EXCEPT !.firstEvent = FALSE, !.firstclock = p1.key[s], !.lastclock = 0]
             ELSE p1
   IN  [p2 EXCEPT !.i = p.i + 1, !.phase = IF last THEN "run" ELSE "init"]

\* update_clocks + emu_ev for the popped stream s
Deliver(p, s) ==
   LET sclock == p.key[s]
       first  == IF p.firstEvent THEN sclock ELSE p.firstclock
       last0  == IF p.firstEvent THEN sclock ELSE p.lastclock
   IN  [p EXCEPT !.cur = s, !.firstEvent = FALSE, !.firstclock = first, !.lastclock = sclock,
                 !.deltaclock = sclock - first, !.err = p.err \/ sclock < last0]   \* "backwards jump in time"

\* player_step: re-insert the stream returned last time, then pop
PStep(sys, p, a) ==
   IF PVariant = "popfirst"
   THEN LET r == HeapPop(p.h, p.key)
            p1 == [p EXCEPT !.h = r.h]
            p2 == IF p.cur # 0 THEN StepStream(sys, p1, p.cur, a) ELSE p1
        IN  IF r.node = 0 THEN [p2 EXCEPT !.phase = "done"] ELSE Deliver(p2, r.node)
   ELSE LET p1 == IF p.cur # 0 THEN StepStream(sys, p, p.cur, a) ELSE p
            r  == HeapPop(p1.h, p1.key)
            p2 == [p1 EXCEPT !.h = r.h]
        IN  IF r.node = 0 THEN [p2 EXCEPT !.phase = "done"] ELSE Deliver(p2, r.node)

\* streams the implementation believes to be inside the heap between two calls
InHeap(p) == {s \in DOMAIN p.key : p.loaded[s] /\ s # p.cur}

(***************************************************************************)
(* Explicit systems: the whole run as a function of the stream list order, *)
(* Enumerate / SortByPath / IndependentOfEnumeration                       *)
(***************************************************************************)
XAnswer(sys, pos, s) == IF pos[s] < Len(sys.clocks[s]) THEN sys.clocks[s][pos[s] + 1] ELSE None

RECURSIVE XInitAll(_, _, _)
XInitAll(sys, order, st) ==
   IF st.p.i > Len(order) THEN [st EXCEPT !.p.phase = "run"]
   ELSE LET s == order[st.p.i]
            a == XAnswer(sys, st.pos, s)
        IN  XInitAll(sys, order,
                     [p |-> PInitOne(sys, st.p, s, a, FALSE),
                      pos |-> IF a # None THEN [st.pos EXCEPT ![s] = @ + 1] ELSE st.pos,
                      out |-> <<>>])

RECURSIVE XRun(_, _)
XRun(sys, st) ==
   LET c == st.p.cur
       con == Consults(st.p, c)
       a == IF con THEN XAnswer(sys, st.pos, c) ELSE None
       p2 == PStep(sys, st.p, a)
       pos2 == IF con /\ a # None THEN [st.pos EXCEPT ![c] = @ + 1] ELSE st.pos
   IN  IF p2.phase = "done" THEN [out |-> st.out, err |-> p2.err]
       ELSE XRun(sys, [p |-> p2, pos |-> pos2,
                       out |-> Append(st.out, [s |-> p2.cur, k |-> pos2[p2.cur],
                                               c |-> p2.lastclock, d |-> p2.deltaclock])])

\* the replay produced by the implementation when the stream list is `order`
RunAll(sys, order) ==
   LET n == NStreams(sys) IN
   XRun(sys, XInitAll(sys, order, [p |-> PlayerInit(n), pos |-> [s \in 1..n |-> 0], out |-> <<>>]))

\* Enumerate: the file system hands out the stream directories in any order
Enumerations(sys) == Permutations(1..NStreams(sys))
\* SortByPath: trace_load sorts the list by relative path = by (loom, stream index)
PathLess(sys, a, b) == sys.loom[a] < sys.loom[b] \/ (sys.loom[a] = sys.loom[b] /\ a < b)
SortByPath(sys, e) == SortSeq(e, LAMBDA a, b : PathLess(sys, a, b))
LoadOrder(sys, e) == IF PVariant = "nosort" THEN e ELSE SortByPath(sys, e)

\* a replay is a run of Merge: every emission an enabled step, nothing left
RECURSIVE IsMergeRunFrom(_, _, _, _)
IsMergeRunFrom(sys, out, i, cur) ==
   IF i > Len(out) THEN \A s \in 1..NStreams(sys) : cur[s] = Len(sys.clocks[s])
   ELSE LET e == out[i]
            hd == MHeads(sys, cur)
        IN  /\ MergeEnabled(hd, e.s)
            /\ e.k = cur[e.s] + 1
            /\ e.c = hd[e.s]
            /\ e.d = e.c - out[1].c
            /\ IsMergeRunFrom(sys, out, i + 1, [cur EXCEPT ![e.s] = @ + 1])
IsMergeRun(sys, out) == IsMergeRunFrom(sys, out, 1, [s \in 1..NStreams(sys) |-> 0])

=============================================================================
