/* C03: replay of TLC-generated op sequences on the REAL heap of
 * src/include/heap.h (header only, included directly).
 *
 * usage: heapharness <opsfile> [first-sequence]
 *
 * opsfile: one sequence per line, tokens "i <key>" (heap_insert of a new
 * node with that key) and "p" (heap_pop_max).  The comparison function is the
 * inverted one of src/emu/player.c (stream_cmp): the minimum key is kept at
 * the root.  A new node is always the free node with the smallest number
 * (1..MAXN), as in spec/HeapOps.tla.
 *
 * output: one JSON line per sequence, a list with one entry per op
 *   ["i", key, -2, node, size, [root, [par..], [lft..], [rgt..]]]
 *   ["p", -1, popped key (-1 = NULL), popped node, size, [...]]
 * where size is head.size after the op and the last element is the pointer
 * structure of the nodes currently inside (node numbers, 0 = NULL, -1 = a
 * pointer to something that is not a node; nodes outside show 0).
 * The line is flushed when the sequence is complete, so that the caller
 * knows which sequence crashed (die() in heap.h aborts) and can resume after
 * it with the second argument.  Nothing is judged here. */
#include <stdio.h>
#include <stdlib.h>
#include <string.h>
#include <unistd.h>
#include "heap.h"

#define MAXN 16

struct item {
	int key;
	int id;
	int inside;
	heap_node_t hh;
};

static struct item items[MAXN + 1];
static int nnodes = 7;

static int
item_cmp(heap_node_t *a, heap_node_t *b)
{
	struct item *ia = heap_elem(a, struct item, hh);
	struct item *ib = heap_elem(b, struct item, hh);

	/* Return the opposite, so we have min-heap (as stream_cmp) */
	if (ia->key < ib->key)
		return +1;
	else if (ia->key > ib->key)
		return -1;
	else
		return 0;
}

static int
idof(heap_node_t *n)
{
	if (n == NULL)
		return 0;
	for (int i = 1; i <= MAXN; i++)
		if (&items[i].hh == n)
			return i;
	return -1;
}

static void
dump(heap_head_t *head)
{
	printf("[%d,[", idof(head->root));
	for (int i = 1; i <= nnodes; i++)
		printf("%s%d", i > 1 ? "," : "", items[i].inside ? idof(items[i].hh.parent) : 0);
	printf("],[");
	for (int i = 1; i <= nnodes; i++)
		printf("%s%d", i > 1 ? "," : "", items[i].inside ? idof(items[i].hh.left) : 0);
	printf("],[");
	for (int i = 1; i <= nnodes; i++)
		printf("%s%d", i > 1 ? "," : "", items[i].inside ? idof(items[i].hh.right) : 0);
	printf("]]");
}

int
main(int argc, char *argv[])
{
	if (argc < 2) {
		fprintf(stderr, "usage: heapharness opsfile [first] [nnodes]\n");
		return 2;
	}
	FILE *f = fopen(argv[1], "r");
	if (f == NULL) {
		perror(argv[1]);
		return 2;
	}
	long first = argc > 2 ? atol(argv[2]) : 0;
	if (argc > 3)
		nnodes = atoi(argv[3]);
	if (nnodes < 1 || nnodes > MAXN)
		return 2;

	/* a runaway loop in a damaged heap must not hang the check */
	alarm(20);

	char *line = NULL;
	size_t cap = 0;
	long seq = 0;
	static char obuf[1 << 16];
	setvbuf(stdout, obuf, _IOFBF, sizeof(obuf));

	while (getline(&line, &cap, f) > 0) {
		if (seq++ < first)
			continue;

		heap_head_t head;
		heap_init(&head);
		memset(items, 0, sizeof(items));
		for (int i = 1; i <= MAXN; i++)
			items[i].id = i;

		int nops = 0;
		printf("[");
		char *save = NULL;
		for (char *tok = strtok_r(line, " \n", &save); tok; tok = strtok_r(NULL, " \n", &save)) {
			if (nops++)
				printf(",");
			if (tok[0] == 'i') {
				char *k = strtok_r(NULL, " \n", &save);
				if (k == NULL)
					return 2;
				int n = 0;
				for (int i = 1; i <= nnodes; i++) {
					if (!items[i].inside) {
						n = i;
						break;
					}
				}
				if (n == 0) {
					fprintf(stderr, "no free node\n");
					return 2;
				}
				items[n].key = atoi(k);
				items[n].inside = 1;
				heap_insert(&head, &items[n].hh, item_cmp);
				printf("[\"i\",%d,-2,%d,%zu,", items[n].key, n, head.size);
			} else if (tok[0] == 'p') {
				heap_node_t *node = heap_pop_max(&head, item_cmp);
				int key = -1, n = 0;
				if (node != NULL) {
					n = idof(node);
					if (n > 0) {
						key = items[n].key;
						items[n].inside = 0;
					}
				}
				printf("[\"p\",-1,%d,%d,%zu,", key, n, head.size);
			} else {
				fprintf(stderr, "bad token %s\n", tok);
				return 2;
			}
			dump(&head);
			printf("]");
		}
		printf("]\n");
		/* one write per sequence: complete lines only */
		fflush(stdout);
	}

	return 0;
}
