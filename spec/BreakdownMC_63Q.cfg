SPECIFICATION BSpec
CONSTANTS
  System <- SysC2063Q
  Alphabet <- AlphaC2063Q
  MaxLen = 8
  Lint = TRUE
  SortVariant = "code"
  StaleOK = TRUE
VIEW BView
INVARIANT BInv
ACTION_CONSTRAINT BExport
CHECK_DEADLOCK FALSE
