"""C19 (the tools are total: any trace bytes give a clean exit 0/1 with a
diagnostic, never a crash, a hang or an access outside the loaded stream).

Spec: spec/Decoder.tla, the stream decoder with C integers scaled to 8 bits.
  * Guarded variant: TLC proves CursorInBounds, Progress, HeaderReadInBounds,
    ReadsWithinEvent, VerdictIsExit0or1, StepIsExtent.
  * Current variant (arithmetic of the code): TLC must refute every one of
    these invariants (non-vacuity and the design findings); the run without
    invariants exports every decoder transition with its boundary class and
    the outcome predicted for the current arithmetic.

Bind: the exported transitions are materialised as byte strings on valid seed
traces (the scaled size field is mapped back to 32 bits by keeping its
distance to 0 / 2^31 / 2^32); the same value classes are swept over every
event of every seed (flags nibble, jumbo flag, size field, clock), every file
prefix, every payload shape of every event of the catalogue
(spec/data/events.json), unterminated labels, every metadata key with every
JSON type, damaged JSON, and a seeded random structure-aware stage.  Every
input is given to ovniemu -l, ovnidump, ovnitop, ovnisort -c and ovnisort
from the ASan+UBSan build with OVNI_VERIF_HEAPBUF=1 (stream in an exact-size
heap buffer) under a timeout.

Verdict: a run FAILS iff the tool dies by a signal (abort() included), times
out, a sanitizer reports, or the exit status is not 0/1.  Nothing else is
compared, no expected value is computed here.  Failures are grouped by the
signature tool:kind:frames.  A design invariant refuted by TLC on the current
arithmetic is only reported together with a concrete input of the predicted
class on which a real tool misbehaves; if the tree is guarded nothing is
reported.
"""
import base64
import collections
import hashlib
import json
import os
import random
import re
import resource
import select
import shutil
import signal
import struct
import subprocess
import time

from vlib import core, obs, emu

E = obs.ev
TOOLS = [("ovniemu", "ovniemu", ["-l"]),
         ("ovnidump", "ovnidump", []),
         ("ovnitop", "ovnitop", []),
         ("ovnisort-c", "ovnisort", ["-c"]),
         ("ovnisort", "ovnisort", []),
         # the emulator with debug output: every event goes through the dbg() formatting as well
         # (run on every third input)
         ("ovniemu-d", "ovniemu", ["-d"]),
         # ovnisort with a look-back ring of 4 entries (the default holds a million): the ring wraps around on
         # every stream of more than a few events (run on the inputs that go to ovnisort, every other one)
         ("ovnisort-n4", "ovnisort", ["-n", "4"])]
T_SHORT = 2.0          # first pass
T_LONG = 10.0          # confirmation of a hang
INVS = ["CursorInBounds", "Progress", "HeaderReadInBounds", "ReadsWithinEvent",
        "VerdictIsExit0or1", "StepIsExtent"]


# --------------------------------------------------------------------------
# seeds: valid traces.  A seed is a list of streams (relpath, meta dict, [event bytes]);
# stream 0 is the one that is mutated.

def _models():
    with open(os.path.join(core.SPEC, "data", "events.json")) as f:
        return json.load(f)["models"]


def _tag(x):
    return struct.pack("<Q", x)


def seeds():
    mods = _models()
    allreq = {m["name"]: m["version"] for m in mods.values()}
    out = []
    # S0: ovni only, one stream: thread life cycle, affinity, flush, sort region
    m = obs.thread_meta(101, 1001, "node1.x", app_id=1, cpus=[(0, 10), (1, 11)])
    ev = [E("OHx", 1000, obs.i32(0, 101) + _tag(7)), E("OAs", 1010, obs.i32(1)),
          E("OF[", 1020), E("OF]", 1030), E("OHp", 1040), E("OHr", 1050),
          E("OU[", 1060), E("OB.", 1062), E("OB.", 1064), E("OU]", 1070),
          E("OHC", 1080, obs.i32(0) + _tag(9)), E("OHe", 1090)]
    out.append(("ovni", [("loom.node1.x/proc.1001/thread.101", m, ev)]))
    # S1: every model enabled; nosv and nanos6 task types (jumbo) and tasks
    m = obs.thread_meta(101, 1001, "node1.x", app_id=1, cpus=[(0, 10), (1, 11)], require=allreq)
    ev = [E("OHx", 1000, obs.i32(0, 101) + _tag(7)),
          E("VYc", 1010, jumbo=obs.u32(5) + b"typeA\0"),
          E("VTc", 1020, obs.u32(1, 5)), E("VTx", 1030, obs.u32(1, 0)),
          E("VTp", 1040, obs.u32(1, 0)), E("VTr", 1050, obs.u32(1, 0)),
          E("VTe", 1060, obs.u32(1, 0)),
          E("6Yc", 1070, jumbo=obs.u32(9) + b"a longer type label\0"),
          E("6Tc", 1080, obs.u32(3, 9)), E("6Tx", 1090, obs.u32(3)),
          E("6Te", 1100, obs.u32(3)), E("OHe", 1110)]
    out.append(("tasks", [("loom.node1.x/proc.1001/thread.101", m, ev)]))
    # S2: marks (metadata definitions + events), rank
    extra = {"ovni.mark.1.title": "phase", "ovni.mark.1.chan_type": "stack",
             "ovni.mark.1.labels": {"1": "one", "2": "two"},
             "ovni.mark.2.title": "step", "ovni.mark.2.chan_type": "single"}
    m = obs.thread_meta(101, 1001, "node1.x", app_id=1, cpus=[(0, 10), (1, 11)],
                        rank=0, nranks=2, extra=extra)
    ev = [E("OHx", 1000, obs.i32(0, 101) + _tag(7)),
          E("OM[", 1010, struct.pack("<qi", 1, 1)), E("OM=", 1020, struct.pack("<qi", 77, 2)),
          E("OM[", 1030, struct.pack("<qi", 2, 1)), E("OM]", 1040, struct.pack("<qi", 2, 1)),
          E("OM]", 1050, struct.pack("<qi", 1, 1)), E("OHe", 1060)]
    out.append(("marks", [("loom.node1.x/proc.1001/thread.101", m, ev)]))
    # S3: three streams, two looms, thread creation, remote affinity; two streams of the same process
    # carry the same mark definitions (the second goes through the "already defined" paths)
    mk = {"ovni.mark.1.title": "phase", "ovni.mark.1.chan_type": "stack", "ovni.mark.1.labels": {"1": "one"}}
    m1 = obs.thread_meta(101, 1001, "node1.x", app_id=1, cpus=[(0, 10), (1, 11)], rank=0, nranks=2, extra=mk)
    e1 = [E("OHx", 1000, obs.i32(0, 101) + _tag(7)), E("OHC", 1010, obs.i32(1) + _tag(8)),
          E("OAr", 1040, obs.i32(0, 102)), E("OAr", 1045, obs.i32(1, 102)), E("OB.", 1050),
          E("OHe", 1100)]
    m2 = obs.thread_meta(102, 1001, "node1.x", app_id=1, rank=0, nranks=2, extra=mk)
    e2 = [E("OHx", 1020, obs.i32(1, 101) + _tag(8)), E("OHp", 1030), E("OHr", 1070), E("OHe", 1090)]
    m3 = obs.thread_meta(201, 2001, "node2.x", app_id=2, cpus=[(0, 20)], rank=1, nranks=2)
    e3 = [E("OHx", 1005, obs.i32(0, 201) + _tag(7)), E("OHe", 1095)]
    out.append(("multi", [("loom.node1.x/proc.1001/thread.101", m1, e1),
                          ("loom.node1.x/proc.1001/thread.102", m2, e2),
                          ("loom.node2.x/proc.2001/thread.201", m3, e3)]))
    return out


class Inp:
    """One input: the files of every stream of the trace."""
    __slots__ = ("fam", "label", "seed", "files", "pred", "nontrivial", "tools")

    def __init__(self, fam, label, seed, files, pred=None, nontrivial=True, tools=None):
        self.tools = tools        # None = every tool, else the names of TOOLS to run
        self.fam = fam            # family
        self.label = label        # what was changed
        self.seed = seed          # seed name
        self.files = files        # list of (relpath, json bytes, obs bytes)
        self.pred = pred          # prediction of the current-arithmetic model, or None
        self.nontrivial = nontrivial

    def key(self):
        h = hashlib.sha1()
        for rel, j, o in self.files:
            h.update(rel.encode() + b"\0" + j + b"\0" + o + b"\1")
        return h.hexdigest()

    def nbytes(self):
        return sum(len(j) + len(o) for _, j, o in self.files)


def seed_files(streams):
    return [(rel, json.dumps(m, indent=1).encode(), obs.HDR + b"".join(evs)) for rel, m, evs in streams]


def with_obs(streams, data, k=0):
    f = seed_files(streams)
    f[k] = (f[k][0], f[k][1], data)
    return f


def with_json(streams, jbytes, k=0):
    f = seed_files(streams)
    f[k] = (f[k][0], jbytes, f[k][2])
    return f


def table_for(inp):
    """A quarter of the inputs (decided by their content) comes with a well-formed clock offset table for the
    hosts of its looms, as ovnisync would have left it in the trace directory (ovniemu loads it)."""
    if int(inp.key()[:6], 16) % 4 != 1 and "[with-table]" not in inp.label:
        return None
    hosts = []
    for rel, j, o in inp.files:
        m = re.match(r"loom\.([^./]+)", rel)
        if m and m.group(1) not in hosts:
            hosts.append(m.group(1))
    txt = "rank       hostname             offset_median        offset_mean          offset_std\n"
    for r, h in enumerate(hosts):
        txt += "%-10d %-20s %-20d %-20.6f %-20.6f\n" % (r, h, 1000 * r, 1000.0 * r + 0.5, 2.5)
    return txt.encode()


def write_files(td, files, table=None):
    if table is not None:
        os.makedirs(td, exist_ok=True)
        with open(os.path.join(td, "clock-offsets.txt"), "wb") as f:
            f.write(table)
    for rel, j, o in files:
        d = os.path.join(td, rel)
        os.makedirs(d, exist_ok=True)
        with open(os.path.join(d, "stream.json"), "wb") as f:
            f.write(j)
        with open(os.path.join(d, "stream.obs"), "wb") as f:
            f.write(o)


# --------------------------------------------------------------------------
# running one tool with bounded capture

class Res:
    __slots__ = ("rc", "timeout", "text", "wall")


_LIMITS_SET = False


def _limits():
    """no core files, bounded output files (inherited by the tools; set once per spawning process so
    that subprocess can use vfork instead of fork + preexec_fn)"""
    global _LIMITS_SET
    if not _LIMITS_SET:
        resource.setrlimit(resource.RLIMIT_CORE, (0, 0))
        soft, hard = resource.getrlimit(resource.RLIMIT_FSIZE)
        lim = 1 << 28
        if hard != resource.RLIM_INFINITY:
            lim = min(lim, hard)
        resource.setrlimit(resource.RLIMIT_FSIZE, (lim, hard))
        _LIMITS_SET = True


def run_tool(bdir, exe, args, timeout, heapbuf=True):
    """stdout is discarded, stderr is kept (first 48 KiB + last 16 KiB).  On a timeout
    the process first gets SIGABRT (ASan, handle_abort=1, prints where it was), then SIGKILL."""
    env = dict(os.environ)
    env.pop("OVNI_VERIF_HEAPBUF", None)
    if heapbuf:
        env["OVNI_VERIF_HEAPBUF"] = "1"
    env.update({"OVNI_CONFIG_DIR": emu.empty_cfg(),
                "ASAN_OPTIONS": "detect_leaks=0:handle_abort=1:allocator_may_return_null=1",
                "UBSAN_OPTIONS": "print_stacktrace=1"})
    t0 = time.time()
    _limits()
    p = subprocess.Popen([core.tool(bdir, exe)] + list(args), stdout=subprocess.DEVNULL,
                         stderr=subprocess.PIPE, stdin=subprocess.DEVNULL, env=env)
    fd = p.stderr.fileno()
    head = bytearray()
    tail = bytearray()
    deadline = t0 + timeout
    timed_out = False
    killed = False
    while True:
        now = time.time()
        if now >= deadline:
            if not timed_out:
                timed_out = True
                try:
                    p.send_signal(signal.SIGABRT)
                except ProcessLookupError:
                    pass
                deadline = now + 3.0
                continue
            if not killed:
                killed = True
                p.kill()
                deadline = now + 5.0
                continue
            break
        r, _, _ = select.select([fd], [], [], min(0.5, deadline - now))
        if r:
            b = os.read(fd, 65536)
            if not b:
                break
            room = 49152 - len(head)
            if room > 0:
                head += b[:room]
                b = b[room:]
            if b:
                tail += b
                if len(tail) > 16384:
                    del tail[:len(tail) - 16384]
        elif p.poll() is not None and not select.select([fd], [], [], 0)[0]:
            break
    try:
        rc = p.wait(timeout=5)
    except subprocess.TimeoutExpired:
        p.kill()
        rc = p.wait()
    p.stderr.close()
    res = Res()
    res.rc = rc
    res.timeout = timed_out
    res.text = (bytes(head) + (b"\n[...]\n" + bytes(tail) if tail else b"")).decode("latin1", "replace")
    res.wall = time.time() - t0
    return res


# --------------------------------------------------------------------------
# failure classification and signatures

_HELPERS = ("get_jumbo_payload_size", "ovni_payload_size", "ovni_ev_size")
_re_frame = re.compile(r"^\s*#\d+ 0x[0-9a-f]+ in (\S+) (\S+?):(\d+)", re.M)
_re_asan = re.compile(r"ERROR: AddressSanitizer: ([A-Za-z0-9_-]+)")
_re_ubsan = re.compile(r"^(\S+?):(\d+):(\d+): runtime error: (.*)$", re.M)
_UB = [("signed integer overflow", "signed-integer-overflow"),
       ("unsigned integer overflow", "unsigned-integer-overflow"),
       ("null pointer", "null-pointer"), ("misaligned", "misaligned"),
       ("out of bounds", "index-out-of-bounds"), ("shift exponent", "shift"),
       ("left shift", "shift"), ("division by zero", "division-by-zero"),
       ("negation of", "negation-overflow"), ("outside the range of representable", "float-cast-overflow"),
       ("not a valid value for type", "invalid-value"), ("overflowed", "pointer-overflow"),
       ("insufficient space", "object-size"), ("variable length array", "vla-bound")]


_LOADING = ("trace_load", "emu_init", "emu_connect", "player_init", "system_init", "stream_load",
            "load_json", "emu_load", "models_register", "model_probe", "model_create", "model_connect")
_BADMEM = ("heap-buffer-overflow", "SEGV", "unknown-crash", "BUS", "heap-use-after-free", "wild-addr-read",
           "wild-addr-write", "wild-jump")


def _is_repo_frame(path):
    return "/src/" in path and "libsanitizer" not in path and not path.startswith("../") \
        and path.endswith((".c", ".h"))


def _frames(text):
    """function names of the frames of the first stack in text that belong to the tool"""
    out = []
    started = False
    for line in text.splitlines():
        m = _re_frame.match(line)
        if m:
            started = True
            if _is_repo_frame(m.group(2)):
                out.append(m.group(1))
        elif started:
            break
    return out


def _top(frames, n=2):
    fr = list(frames)
    # the size helpers are one location for the purpose of a signature
    while len(fr) > 1 and fr[0] in _HELPERS and fr[1] in _HELPERS:
        fr.pop(0)
    if fr and fr[0] in _HELPERS:
        fr[0] = "ovni_ev_size"
    fr = [f for f in fr if f not in ("vdie", "verr")]
    ded = []
    for f in fr:
        if not ded or ded[-1] != f:
            ded.append(f)
    return "<".join(ded[:n]) if ded else "?"


def classify(res):
    """None if the run is clean, else (kind, where, excerpt)"""
    t = res.text
    if res.timeout:
        i = t.find("ERROR: AddressSanitizer: ABRT")
        fr = _frames(t[i:]) if i >= 0 else []
        # the sampled point of a loop is arbitrary: only tell loading the trace from walking the events
        where = "loading" if any(f in _LOADING for f in fr) else "events"
        return ("timeout", where, t[:600] + "\n[...]\n" + (t[i:i + 1500] if i >= 0 else t[-600:]))
    m = _re_ubsan.search(t)
    a = _re_asan.search(t)
    if m and (not a or m.start() < a.start()):
        cat = None
        for pat, name in _UB:
            if pat in m.group(4):
                cat = name
                break
        if cat is None:
            cat = "-".join(re.sub(r"[^a-z ]", "", m.group(4).lower()).split()[:3]) or "ub"
        fr = _frames(t[m.end():m.end() + 4000])
        where = _top(fr) if fr else "%s.L%s" % (os.path.basename(m.group(1)), m.group(2))
        return ("ubsan-" + cat, where, t[max(0, m.start() - 300):m.start() + 1800])
    if a:
        typ = a.group(1)
        seg = t[a.start():a.start() + 6000]
        if typ == "ABRT":
            fr = [f for f in _frames(seg)]
            f2 = re.search(r"FATAL: (\w+):(.*)", t)
            where = _top(fr) if fr else (f2.group(1) if f2 else "?")
            return ("abort", where, (f2.group(0) + "\n" if f2 else "") + seg[:1500])
        rw = ""
        m2 = re.search(r"^(READ|WRITE) of size", seg, re.M) or \
            re.search(r"caused by a (READ|WRITE) memory access", seg)
        if m2:
            rw = "-" + m2.group(1)
        if typ in _BADMEM:
            typ = "bad"           # where a wild pointer lands decides the ASan type, not the defect
        return ("asan-" + typ + rw, _top(_frames(seg)), t[max(0, a.start() - 300):a.start() + 2500])
    if res.rc is not None and res.rc < 0:
        f2 = re.search(r"FATAL: (\w+):(.*)", t)
        try:
            name = signal.Signals(-res.rc).name
        except ValueError:
            name = "SIG%d" % -res.rc
        return ("signal-" + name, f2.group(1) if f2 else "?", t[-1500:])
    if res.rc not in (0, 1):
        errs = re.findall(r"ERROR: (\w+):", t)
        return ("exit-%s" % res.rc, errs[-1] if errs else "?", t[-1500:])
    return None


def make_sig(tool, kind, where):
    return re.sub(r"[^A-Za-z0-9_.<:+-]", "_", "%s:%s:%s" % (tool, kind, where))


# --------------------------------------------------------------------------
# input generation

def unscale(rel):
    """scaled size field (distance to 0 / 2^(W-1) / 2^W, see Decoder!Rel) -> 32-bit value"""
    return ({"zero": 0, "half": 1 << 31, "top": 1 << 32}[rel["base"]] + rel["delta"]) & 0xFFFFFFFF


def header(mcv, clock, fl, jumbo, hi=0):
    m = mcv.encode("latin1") if isinstance(mcv, str) else mcv
    return struct.pack("<B3sQ", (fl & 0x0F) | (0x10 if jumbo else 0) | hi, m, clock & 0xFFFFFFFFFFFFFFFF)


def _fill(src, n):
    return (src + b"\0" * n)[:n]


def plain_len(fl):
    return 0 if fl == 0 else fl + 1


def load_case(rec, data, evs, pos):
    """bytes of a stream whose cursor finds, at event `pos`, the event of the exported
    Load transition with exactly rec['rem'] bytes left in the file"""
    e = evs[pos]
    prefix = data[:e["off"]]
    rest = data[e["off"] + e["size"]:]
    src = e["jdata"] if e["jumbo"] else e["payload"]
    if rec["jumbo"]:
        js = unscale(rec["js"])
        body = header(e["mcv"], e["clock"], rec["fl"], True) + struct.pack("<I", js)
        body += _fill(src, js) if js <= 64 else b""
    else:
        body = header(e["mcv"], e["clock"], rec["fl"], False) + _fill(src, plain_len(rec["fl"]))
    body += rest
    if len(body) < rec["rem"]:
        body += b"\0" * (rec["rem"] - len(body))
    return prefix + body[:rec["rem"]]


def sig_need(sig):
    """bytes read by print_arg for a signature such as '(i32 cpu, u64 tag)'; None with a str"""
    n = 0
    for a in sig.strip("()").split(","):
        a = a.strip()
        if not a:
            continue
        ty = a.split()[0]
        if ty == "str":
            return None
        n += {"u8": 1, "i8": 1, "u16": 2, "i16": 2, "u32": 4, "i32": 4, "u64": 8, "i64": 8}[ty]
    return n


def catalogue():
    """mcv -> dict(sig, jumbo, checked, op, need) from events.json"""
    out = {}
    for m in _models().values():
        for mcv, e in m["events"].items():
            sg = e.get("sig") or ""
            out[mcv] = {"sig": sg, "jumbo": bool(e.get("jumbo")),
                        "checked": e.get("payload_checked"), "op": e.get("payload_check_op"),
                        "need": sig_need(sg) if "(" in sg else 0}
    return out


def gen_model(ck, rng, tier, sd, lines):
    """inputs materialised from the transitions exported by TLC (current arithmetic)"""
    out = []
    cat = catalogue()
    loads = collections.OrderedDict()
    cons = collections.OrderedDict()
    opens = collections.OrderedDict()
    for o in lines:
        if o["k"] == "load":
            key = (o["jumbo"], o["fl"] if not o["jumbo"] else -1,
                   (o["js"]["base"], o["js"]["delta"]), o["remc"], o["sizec"], o["out"], o["hdr_oob"])
            loads.setdefault(key, []).append(o)
        elif o["k"] == "consume":
            if o["kind"] == "none" or o["sizec"] not in ("plain", "faithful"):
                continue
            tc = "last" if o["tail"] == 0 else "more"
            key = (o["kind"], o["need"], o["op"], o["jumbo"], o["pay"], o["strl"], tc, o["out"])
            cons.setdefault(key, []).append(o)
        elif o["k"] == "open":
            opens.setdefault((o["cls"], o["size"]), o)
    # -- Open: file sizes 0..8 and damaged stream headers
    name, streams = sd[0]
    base = seed_files(streams)[0][2]
    for (cls, size), o in opens.items():
        if cls in ("empty", "short-stream-header", "header-only"):
            out.append(Inp("model-open", "%s size=%d" % (cls, size), name, with_obs(streams, base[:size]),
                           pred="exit"))
        elif cls == "bad-magic-or-version" and size in (8, 9, 20, 40):
            for k, bad in enumerate((b"ovnj" + base[4:8], b"ovni\2\0\0\0", b"\0" * 8, b"ovni\xff\xff\xff\xff")):
                out.append(Inp("model-open", "%s size=%d #%d" % (cls, size, k), name,
                               with_obs(streams, (bad + base[8:])[:size] + b"\0" * max(0, size - len(base))),
                               pred="exit"))
    # -- Load: one (thorough: several) placements per class
    nplace = 2 if tier == "quick" else 8
    dec = [(n, s, seed_files(s)[0][2]) for n, s in sd]
    dec = [(n, s, d, obs.decode(d)) for n, s, d in dec]
    places = []
    for n, s, d, evs in dec:
        idx = sorted(set([0, len(evs) - 1] + [i for i, e in enumerate(evs) if e["jumbo"]] + [len(evs) // 2]))
        places += [(n, s, d, evs, i) for i in idx]
    ck.notes["model_load_classes"] = len(loads)
    for ci, (key, recs) in enumerate(loads.items()):
        bad = key[5] != "exit1" and (key[4] in ("zero-size", "negative-size", "int-overflow", "wrapped-positive"))
        pred = {"zero-size": "loop", "negative-size": "loop-or-wild-read", "int-overflow": "ub",
                "wrapped-positive": "misparse"}.get(key[4]) if bad else None
        if key[6]:
            pred = (pred + "+" if pred else "") + "header-over-read"
        chosen = rng.sample(places, min(nplace, len(places)))
        for (n, s, d, evs, pos) in chosen:
            rec = recs[rng.randrange(len(recs))]
            if rec["jumbo"]:
                lab = "ev%d jumbo fl=%d size=0x%08X rem=%d [%s/%s]" % (pos, rec["fl"], unscale(rec["js"]),
                                                                     rec["rem"], rec["remc"], rec["sizec"])
            else:
                lab = "ev%d flags=0x%02x rem=%d [%s]" % (pos, rec["fl"], rec["rem"], rec["remc"])
            out.append(Inp("model-load", lab, n, with_obs(s, load_case(rec, d, evs, pos)), pred=pred))
    # -- Consume: payload shapes against what the consumers read
    tn, ts = [x for x in sd if x[0] == "tasks"][0]
    tdata = seed_files(ts)[0][2]
    tevs = obs.decode(tdata)
    first, tailb = tdata[:tevs[1]["off"]], tdata[tevs[1]["off"]:]      # header + OHx | the rest
    ck.notes["model_consume_classes"] = len(cons)
    skipped = 0
    for key, recs in cons.items():
        kind, need, op, jumbo, pay, strl, tc, outc = key
        if kind == "checked":
            mcvs = [m for m, c in cat.items() if c["checked"] == need and c["op"] == op and not c["jumbo"]]
        elif kind == "unchecked":
            mcvs = [m for m, c in cat.items() if c["need"] == need and not c["jumbo"]]
        else:
            mcvs = [m for m, c in cat.items() if c["jumbo"]]
        if not mcvs:
            skipped += 1
            continue
        mcvs.sort()
        if tier == "quick":
            mcvs = [mcvs[rng.randrange(len(mcvs))]]
        pred = None
        if outc == "null":
            pred = "null-payload"
        elif kind == "unchecked" and pay < need:
            pred = "payload-over-read"
        elif kind == "label" and strl + 1 > pay - 8:
            pred = "label-over-read"
        for mcv in mcvs:
            clock = 1005
            if jumbo:
                js = pay - 4
                if kind == "label":
                    jd = struct.pack("<I", 21)[:max(0, min(4, js))]
                    lab = bytearray(b"L" * max(0, js - 4))
                    if strl < len(lab):
                        lab[strl] = 0
                    jd += bytes(lab)
                else:
                    jd = bytes((7 * i + 1) & 0xFF for i in range(js))
                evb = header(mcv, clock, 3, True) + struct.pack("<I", js) + jd
            else:
                fl = 0 if pay == 0 else pay - 1
                evb = header(mcv, clock, fl, False) + bytes((7 * i + 1) & 0xFF or 1 for i in range(pay))
            data = first + evb + (tailb if tc == "more" else b"")
            out.append(Inp("model-consume", "%s %s need=%s%s pay=%d strl=%d %s" % (mcv, kind, op, need, pay, strl, tc),
                           tn, with_obs(ts, data), pred=pred))
    ck.notes["model_consume_classes_without_event"] = skipped
    return out


def real_sizes(lines):
    """the 32-bit size fields of the exported transitions, by class of the size arithmetic"""
    by = collections.OrderedDict()
    for o in lines:
        if o["k"] == "load" and o["jumbo"]:
            by.setdefault(o["sizec"], set()).add(unscale(o["js"]))
    return {k: sorted(v) for k, v in by.items()}


def gen_sweep(ck, rng, tier, sd, lines):
    """the value classes of the model applied to every event of every seed, without cutting the file"""
    out = []
    sizes = real_sizes(lines)
    allsz = sorted(set(x for v in sizes.values() for x in v))
    ck.notes["size_field_values"] = {k: ["0x%08X" % x for x in v] for k, v in sizes.items()}
    for n, s in sd:
        d = seed_files(s)[0][2]
        evs = obs.decode(d)
        jpos = [i for i, e in enumerate(evs) if e["jumbo"]]
        full_at = set(jpos[:1] + [0] if tier == "quick" else jpos + [0, len(evs) - 1])
        for i, e in enumerate(evs):
            o = e["off"]
            pre, post = d[:o], d[o + e["size"]:]
            body = d[o + 12:o + e["size"]]
            # every low nibble, the jumbo flag, the reserved bits
            for fl in range(16):
                nf = (e["flags"] & 0xF0) | fl
                if nf != e["flags"]:
                    out.append(Inp("flags", "ev%d %s flags 0x%02x->0x%02x" % (i, e["mcv"], e["flags"], nf), n,
                                   with_obs(s, pre + bytes([nf]) + d[o + 1:])))
            for x in ((0x10, 0x80, 0xF0) if tier == "quick" else (0x10, 0x20, 0x40, 0x80, 0xF0)):
                nf = e["flags"] ^ x
                out.append(Inp("flags", "ev%d %s flags 0x%02x->0x%02x" % (i, e["mcv"], e["flags"], nf), n,
                               with_obs(s, pre + bytes([nf]) + d[o + 1:])))
            # size field: written over the first 4 payload bytes (jumbo flag set)
            vals = set()
            if i in full_at:
                vals.update(allsz)
            else:
                for k, v in sizes.items():
                    vals.update(rng.sample(v, min(1 if tier == "quick" else 3, len(v))))
            end = len(d) - o - 16                       # jumbo data reaching exactly the end of the file
            vals.update(x & 0xFFFFFFFF for x in (0, 1, len(body) - 4, len(body) - 3, end, end + 1, end - 1)
                        if x >= 0)
            # a step back onto the previous event: 2-cycle
            if i > 0:
                vals.add((-(evs[i - 1]["size"]) - 16) & 0xFFFFFFFF)
            for js in sorted(vals):
                nb = bytes([(e["flags"] & 0xE0) | 0x13]) + d[o + 1:o + 12] + struct.pack("<I", js) + body[4:]
                if len(body) < 4:
                    nb = bytes([(e["flags"] & 0xE0) | 0x13]) + d[o + 1:o + 12] + struct.pack("<I", js)
                out.append(Inp("size-field", "ev%d %s jumbo size=0x%08X" % (i, e["mcv"], js), n,
                               with_obs(s, pre + nb + post)))
            # clock
            for c in (0, 1 << 63, (1 << 64) - 1, (1 << 63) - 1, e["clock"] - 500):
                out.append(Inp("clock", "ev%d %s clock=%d" % (i, e["mcv"], c), n,
                               with_obs(s, pre + d[o:o + 4] + struct.pack("<Q", c & (2 ** 64 - 1)) + d[o + 12:])))
            # model / category / value bytes
            mv = [(1, 0), (1, 0xFF), (1, ord("Z")), (2, 0), (2, ord("?")), (3, 0), (3, 0x7F)]
            for k, ch in (rng.sample(mv, 3) if tier == "quick" else mv):
                nb = bytearray(d)
                nb[o + k] = ch
                out.append(Inp("mcv", "ev%d %s byte%d=0x%02x" % (i, e["mcv"], k, ch), n, with_obs(s, bytes(nb))))
        # sort regions: unsorted and extreme clocks inside OU[ OU]
        for k, clocks in enumerate(([1500, 1400], [1, 0], [1 << 63, 5], [(1 << 64) - 1, (1 << 63)], [1061, 1061])):
            reg = E("OU[", 1600) + b"".join(E("OB.", c) for c in clocks) + E("OU]", 1700)
            last = evs[-1]
            out.append(Inp("sort-region", "region#%d clocks=%s before last event" % (k, clocks), n,
                           with_obs(s, d[:last["off"]] + reg + d[last["off"]:])))
            out.append(Inp("sort-region", "region#%d clocks=%s at end" % (k, clocks), n, with_obs(s, d + reg)))
        # sort windows that span more than 2^31 / 2^32 ns (clock differences do not fit in an int)
        for k, (t0, clocks, t1) in enumerate(((3000001600, [2500000000, 1650], 3000001700),
                                              (5000000000, [4999999999, 700000000, 4999999998], 5000000001),
                                              (1 << 40, [(1 << 40) - 1, (1 << 33) + 5, 1 << 32, (1 << 31) + 1700], (1 << 40) + 1))):
            reg = E("OU[", t0) + b"".join(E("OB.", c) for c in clocks) + E("OU]", t1)
            out.append(Inp("sort-region", "wide region#%d clocks=%s at end" % (k, clocks), n, with_obs(s, d + reg)))
        # traces with several streams: a region at the very start of EACH stream whose events predate
        # everything before them (ovnisort keeps one look-back ring for the whole trace)
        if len(s) > 1:
            files = seed_files(s)
            for kk in range(len(s)):
                dk = files[kk][2]
                evk = obs.decode(dk)
                if not evk:
                    continue
                o0 = evk[0]["off"]
                for clocks in ([2, 1], [1, 0]):
                    reg = E("OU[", 3) + b"".join(E("OB.", c) for c in clocks) + E("OU]", 4)
                    out.append(Inp("sort-region", "stream#%d region at its start clocks=%s" % (kk, clocks), n,
                                   with_obs(s, dk[:o0] + reg + dk[o0:], kk)))
        out.append(Inp("sort-region", "region left open", n, with_obs(s, d + E("OU[", 1600) + E("OB.", 5))))
        out.append(Inp("sort-region", "region with a jumbo of wrapped size", n,
                       with_obs(s, d + E("OU[", 1600) + header("OB.", 3, 3, True) + struct.pack("<I", 0xFFFFFFF0)
                                + E("OU]", 1700))))
    return out


def gen_trunc(ck, rng, tier, sd):
    """every prefix of the mutated stream; trailing fragments of 1..15 bytes"""
    out = []
    for n, s in sd:
        d = seed_files(s)[0][2]
        evs = obs.decode(d)
        bounds = set(e["off"] for e in evs) | {len(d)}
        for L in range(0, len(d)):
            if tier == "quick" and not (L < 48 or L > len(d) - 40 or L % 3 == 0
                                        or any(abs(L - b) <= 2 for b in bounds)
                                        or any(e["jumbo"] and 0 <= L - e["off"] <= 24 for e in evs)):
                continue
            what = "prefix %d/%d" % (L, len(d))
            out.append(Inp("truncate", what + (" (event boundary)" if L in bounds else ""), n, with_obs(s, d[:L])))
        frag = {"zeros": b"\0" * 15, "jumbo-header": header("OB.", 2000, 3, True) + b"\xff\xff\xff",
                "plain16-header": header("OB.", 2000, 15, False) + b"\1\2\3", "ff": b"\xff" * 15}
        for nm, fb in frag.items():
            if tier == "quick" and n in ("marks", "multi") and nm in ("zeros", "ff"):
                continue
            for k in range(1, 16):
                out.append(Inp("fragment", "%d trailing bytes (%s)" % (k, nm), n, with_obs(s, d + fb[:k])))
    return out


def gen_shapes(ck, rng, tier, sd):
    """every event of the catalogue with payload shapes its handler / printer does not expect"""
    out = []
    cat = catalogue()
    tn, ts = [x for x in sd if x[0] == "tasks"][0]
    d = seed_files(ts)[0][2]
    evs = obs.decode(d)
    first, rest = d[:evs[1]["off"]], d[evs[1]["off"]:]
    interesting = sorted(m for m, c in cat.items() if c["need"] or c["checked"] or c["jumbo"])
    others = sorted(m for m in cat if m not in interesting)
    if tier == "quick":
        others = rng.sample(others, len(others) // 8)
    ck.notes["catalogue_events_with_payload"] = len(interesting)
    ck.notes["catalogue_events_other_sampled"] = len(others)

    def put(fam, lab, evb, last):
        out.append(Inp(fam, lab + (" last" if last else ""), tn, with_obs(ts, first + evb + (b"" if last else rest))))

    for mcv in interesting:
        c = cat[mcv]
        for pay in [0] + list(range(2, 17)):
            fl = 0 if pay == 0 else pay - 1
            for last in (False, True):
                if tier == "quick" and last and pay not in (0, 2, 4, 8, 12, 16):
                    continue
                put("payload-shape", "%s plain payload=%d" % (mcv, pay),
                    header(mcv, 1005, fl, False) + bytes(range(1, pay + 1)), last)
        labels = [b"", b"\1", b"\1\0\0", struct.pack("<I", 33), struct.pack("<I", 33) + b"\0",
                  struct.pack("<I", 33) + b"A", struct.pack("<I", 33) + b"unterminated",
                  struct.pack("<I", 33) + b"x" * 300, struct.pack("<I", 33) + b"x" * 300 + b"\0",
                  struct.pack("<I", 33) + b"x" * 5000 + b"\0", struct.pack("<I", 33) + b"%s%s%n\0",
                  struct.pack("<I", 0) + b"zero id\0",
                  # labels around the sizes of the tools' line buffers (1 KiB): a few bytes past the end is what
                  # the sanitizer's red zones see, thousands of bytes past it may land in another frame
                  struct.pack("<I", 33) + b"y" * 1000 + b"\0", struct.pack("<I", 33) + b"y" * 1030 + b"\0",
                  struct.pack("<I", 33) + b"y" * 4090 + b"\0"]
        for k, jd in enumerate(labels):
            if tier == "quick" and not c["jumbo"] and k not in (0, 3, 6, 8):
                continue
            for last in (False, True):
                put("payload-shape", "%s jumbo data#%d len=%d" % (mcv, k, len(jd)),
                    header(mcv, 1005, 3, True) + struct.pack("<I", len(jd)) + jd, last)
    for mcv in others:
        for pay in (4, 16):
            put("payload-shape", "%s plain payload=%d" % (mcv, pay),
                header(mcv, 1005, pay - 1, False) + bytes(range(1, pay + 1)), False)
        put("payload-shape", "%s jumbo empty" % mcv, header(mcv, 1005, 3, True) + struct.pack("<I", 0), True)
        put("payload-shape", "%s jumbo 8" % mcv, header(mcv, 1005, 3, True) + struct.pack("<I", 8) + b"\1" * 8, False)
    # unknown events of every known model character, unknown model
    for ch in "OV6DMTPK" + "x\0\xff":
        for pay in (0, 16):
            put("payload-shape", "unknown event %r payload=%d" % (ch + "??", pay),
                header(ch + "??", 1005, 0 if pay == 0 else pay - 1, False) + b"\1" * pay, False)
    return out


JVALS = [("null", None), ("true", True), ("false", False), ("zero", 0), ("one", 1), ("minus1", -1),
         ("half", 0.5), ("2^31", 2147483648), ("-2^31-1", -2147483649), ("2^32", 4294967296),
         ("2^32+1", 4294967297), ("1e300", 1e300), ("-1e300", -1e300), ("empty-string", ""),
         ("string", "x"), ("numeric-string", "1"), ("slash-string", "a/b"), ("long-string", "y" * 5000),
         ("empty-array", []), ("array", [1]), ("array-of-objects", [{}]), ("empty-object", {}),
         ("object", {"a": {"b": 1}})]


def _paths(meta, pre=()):
    """every key path of the metadata (arrays: first element only)"""
    out = []
    if isinstance(meta, dict):
        for k, v in meta.items():
            out.append(pre + (k,))
            out += _paths(v, pre + (k,))
    elif isinstance(meta, list) and meta:
        out.append(pre + (0,))
        out += _paths(meta[0], pre + (0,))
    return out


def _set(meta, path, val, delete=False):
    m = json.loads(json.dumps(meta))
    cur = m
    for p in path[:-1]:
        cur = cur[p]
    if delete:
        del cur[path[-1]]
    else:
        cur[path[-1]] = val
    return m


def gen_meta(ck, rng, tier, sd):
    out = []
    keys_seen = set()
    for n, s in sd:
        if n not in ("marks", "tasks", "multi"):
            continue
        meta = s[0][1]
        paths = _paths(meta)
        for p in paths:
            ps = ".".join(str(x) for x in p)
            if n == "tasks" and ps in keys_seen:
                continue
            # the multi-stream seed exercises the merge of definitions made by several streams
            merge = n == "multi"
            if merge and not any(ps.startswith(x) for x in ("ovni.mark", "ovni.loom_cpus", "ovni.rank", "ovni.nranks",
                                                            "ovni.app_id", "ovni.loom", "ovni.pid", "ovni.tid")):
                continue
            keys_seen.add(ps)
            out.append(Inp("meta-delete", "delete %s" % ps, n,
                           with_json(s, json.dumps(_set(meta, p, None, delete=True)).encode())))
            for vn, v in (rng.sample(JVALS, 8) if merge and tier == "quick" else JVALS):
                # ovnidump, ovnitop and ovnisort share stream_load (parse + "version") and read no other
                # key: in the quick tier the three of them run on "version" and on a sample of the rest
                sub = None
                if tier == "quick" and ps != "version" and rng.random() >= 0.2:
                    sub = ("ovniemu", "ovnidump")
                out.append(Inp("meta-type", "%s = %s" % (ps, vn), n,
                               with_json(s, json.dumps(_set(meta, p, v)).encode()), tools=sub))
        # the same key changed in another stream of a multi-stream trace (merge paths)
        if n == "multi":
            m2 = s[1][1]
            for p in _paths(m2):
                ps = ".".join(str(x) for x in p)
                for vn, v in rng.sample(JVALS, 6):
                    out.append(Inp("meta-type", "stream1 %s = %s" % (ps, vn), n,
                                   with_json(s, json.dumps(_set(m2, p, v)).encode(), k=1)))
    # a stream that is not a thread stream (ovni.part is another string: the emulator ignores it) next to thread
    # streams, with and without a clock offset table in the trace directory, with and without events
    for n, s in sd:
        if len(s) < 2:
            continue
        for k_ in range(len(s)):
            mk = json.loads(s[k_][1]) if isinstance(s[k_][1], (bytes, str)) else s[k_][1]
            aux = json.dumps(_set(mk, ["ovni", "part"], "aux")).encode()
            for tab in ("", " [with-table]"):
                out.append(Inp("non-thread-stream", "stream%d ovni.part = aux%s" % (k_, tab), n, with_json(s, aux, k=k_)))
                files = with_json(s, aux, k=k_)
                files[k_] = (files[k_][0], files[k_][1], files[k_][2][:8])
                out.append(Inp("non-thread-stream", "stream%d ovni.part = aux, no events%s" % (k_, tab), n, files))
    ck.notes["metadata_keys_mutated"] = sorted(keys_seen)
    # mark definitions: names of types and labels, missing members
    n, s = [x for x in sd if x[0] == "marks"][0]
    meta = s[0][1]
    for tname in ("-1", "100", "99", "1e2", "abc", "", " 1", "99999999999999999999", "0x10", "1.5"):
        m = json.loads(json.dumps(meta))
        m["ovni"]["mark"][tname] = {"title": "t", "chan_type": "single", "labels": {"1": "a"}}
        out.append(Inp("meta-mark", "mark type name %r" % tname, n, with_json(s, json.dumps(m).encode())))
        m = json.loads(json.dumps(meta))
        m["ovni"]["mark"]["1"]["labels"][tname] = "lab"
        out.append(Inp("meta-mark", "mark label name %r" % tname, n, with_json(s, json.dumps(m).encode())))
    for ct in ("stack", "single", "STACK", "", "x" * 3000):
        m = json.loads(json.dumps(meta))
        m["ovni"]["mark"]["1"]["chan_type"] = ct
        out.append(Inp("meta-mark", "chan_type %r" % ct[:12], n, with_json(s, json.dumps(m).encode())))
    m = json.loads(json.dumps(meta))
    m["ovni"]["mark"] = {str(k): {"title": "t%d" % k, "chan_type": "single"} for k in range(100)}
    out.append(Inp("meta-mark", "100 mark types", n, with_json(s, json.dumps(m).encode())))
    m = json.loads(json.dumps(meta))
    m["ovni"]["mark"]["1"]["labels"] = {str(k): "l" for k in range(3000)}
    out.append(Inp("meta-mark", "3000 labels", n, with_json(s, json.dumps(m).encode())))
    m = json.loads(json.dumps(meta))
    m["ovni"]["mark"]["1"]["labels"] = {"1": "same", "2": "same", "-9223372036854775808": "min", "9223372036854775807": "max"}
    out.append(Inp("meta-mark", "extreme label values", n, with_json(s, json.dumps(m).encode())))
    # loom_cpus shapes
    for k, cp in enumerate(([{"index": 0}], [{"phyid": 1}], [{"index": -1, "phyid": 1}], [{"index": 1 << 40, "phyid": 1}],
                            [{"index": 0, "phyid": 1}, {"index": 0, "phyid": 2}], [{"index": 5, "phyid": 1}],
                            [{"index": 0, "phyid": -1}], [{"index": "0", "phyid": "1"}], [1, 2], [[], []], [None],
                            [{"index": 0, "phyid": 1}] * 3, [{"index": i, "phyid": i} for i in range(400)],
                            [{"index": 1000000, "phyid": 7}], [{"index": 2147483647, "phyid": 7}])):
        m = json.loads(json.dumps(meta))
        m["ovni"]["loom_cpus"] = cp
        out.append(Inp("meta-cpus", "loom_cpus shape #%d" % k, n, with_json(s, json.dumps(m).encode())))
    # whole file
    good = json.dumps(meta, indent=1).encode()
    whole = {"empty": b"", "space": b" \n", "brace": b"{", "array": b"[]", "null": b"null", "number": b"1",
             "string": b"\"x\"", "nul bytes": b"\0" * 64, "binary": bytes(range(256)),
             "nested arrays 5000": b"[" * 5000 + b"]" * 5000,
             "nested arrays 200000": b"[" * 200000 + b"]" * 200000,
             "nested objects 3000": b"{\"a\":" * 3000 + b"1" + b"}" * 3000,
             "version nested": b"{\"version\":" + b"[" * 3000 + b"]" * 3000 + b"}",
             "duplicate keys": b"{\"version\":3,\"version\":\"x\",\"ovni\":1,\"ovni\":{}}",
             "comments": b"/* c */" + good + b"// x\n", "unterminated comment": b"/*" + good,
             "escapes": good.replace(b"node1.x", b"node\\u0000\\ud800.x"),
             "huge number": good.replace(b"\"tid\": 101", b"\"tid\": 1" + b"0" * 400),
             "exponent": good.replace(b"\"tid\": 101", b"\"tid\": 1e999999"),
             "long key": b"{\"" + b"k" * 100000 + b"\":1,\"version\":3}",
             "trailing garbage": good + b"}}}}", "utf8 bom": b"\xef\xbb\xbf" + good}
    for nm, b in whole.items():
        out.append(Inp("meta-file", nm, n, with_json(s, b)))
    step = 3 if tier == "quick" else 1
    for L in range(1, len(good), step):
        out.append(Inp("meta-file", "json prefix %d/%d" % (L, len(good)), n, with_json(s, good[:L])))
    return out


def gen_random(ck, rng, tier, sd, lines):
    """seeded structure-aware mutations: 1..3 operations on events and metadata"""
    out = []
    sizes = sorted(set(x for v in real_sizes(lines).values() for x in v))
    per = 100 if tier == "quick" else 1500
    for n, s in sd:
        d0 = seed_files(s)[0][2]
        meta0 = s[0][1]
        for k in range(per):
            d = bytearray(d0)
            meta = None
            ops = []
            for _ in range(rng.randint(1, 3)):
                try:
                    evs = obs.decode(bytes(d), strict=False)
                except obs.DecodeError:
                    evs = []
                op = rng.choice(["flags", "size", "trunc", "insert", "dup", "swap", "byte", "bits", "clock",
                                 "meta", "payload", "drop"])
                if not evs and op not in ("trunc", "insert", "byte", "meta"):
                    op = "byte"
                ops.append(op)
                if op == "flags":
                    e = rng.choice(evs)
                    d[e["off"]] = rng.randrange(256)
                elif op == "size":
                    e = rng.choice(evs)
                    d[e["off"]] = (d[e["off"]] & 0xE0) | 0x10 | rng.randrange(16)
                    v = rng.choice(sizes + [rng.randrange(64), len(d) - e["off"] - 16 + rng.randint(-2, 2),
                                            rng.getrandbits(32)]) & 0xFFFFFFFF
                    d[e["off"] + 12:e["off"] + 16] = struct.pack("<I", v)
                elif op == "trunc":
                    del d[rng.randrange(len(d) + 1):]
                elif op == "insert":
                    at = rng.choice([e["off"] for e in evs] + [len(d)]) if evs else len(d)
                    d[at:at] = bytes(rng.randrange(256) for _ in range(rng.randint(1, 20)))
                elif op == "dup":
                    e = rng.choice(evs)
                    d[e["off"]:e["off"]] = d[e["off"]:e["off"] + e["size"]]
                elif op == "swap" and len(evs) >= 2:
                    i = rng.randrange(len(evs) - 1)
                    a, b = evs[i], evs[i + 1]
                    d[a["off"]:b["off"] + b["size"]] = d[b["off"]:b["off"] + b["size"]] + d[a["off"]:a["off"] + a["size"]]
                elif op == "byte" and d:
                    d[rng.randrange(len(d))] = rng.randrange(256)
                elif op == "bits":
                    e = rng.choice(evs)
                    i = e["off"] + rng.randrange(min(16, e["size"]))
                    d[i] ^= 1 << rng.randrange(8)
                elif op == "clock":
                    e = rng.choice(evs)
                    d[e["off"] + 4:e["off"] + 12] = struct.pack("<Q", rng.choice(
                        [0, 1 << 63, (1 << 64) - 1, rng.getrandbits(64), e["clock"] + rng.randint(-2000, 2000) & (2 ** 64 - 1)]))
                elif op == "payload":
                    e = rng.choice(evs)
                    for i in range(e["off"] + 12, min(len(d), e["off"] + e["size"])):
                        if rng.random() < 0.5:
                            d[i] = rng.choice([0, 0xFF, rng.randrange(256)])
                elif op == "drop":
                    e = rng.choice(evs)
                    del d[e["off"]:e["off"] + e["size"]]
                elif op == "meta":
                    base = meta if meta is not None else meta0
                    p = rng.choice(_paths(base))
                    try:
                        meta = _set(base, p, rng.choice(JVALS)[1], delete=rng.random() < 0.15)
                    except (KeyError, IndexError, TypeError):
                        pass
            f = with_obs(s, bytes(d))
            if meta is not None:
                f[0] = (f[0][0], json.dumps(meta).encode(), f[0][2])
            out.append(Inp("random", "#%d %s" % (k, "+".join(ops)), n, f))
    return out


# --------------------------------------------------------------------------
# execution

def _sweep_stale():
    """scratch directories left in /dev/shm by a run that was killed"""
    try:
        for f in os.listdir("/dev/shm"):
            p = os.path.join("/dev/shm", f)
            if f.startswith("verif-c19-") and time.time() - os.path.getmtime(p) > 3600:
                shutil.rmtree(p, ignore_errors=True)
    except OSError:
        pass


def _scratch():
    """/dev/shm when it is there: creating and removing the few files of a trace costs ~20 ms on the
    disk of the sandbox, as much as the run itself"""
    import tempfile
    if os.path.isdir("/dev/shm") and os.access("/dev/shm", os.W_OK):
        return tempfile.mkdtemp(prefix="verif-c19-", dir="/dev/shm")
    return core.mkscratch("c19")


# Hook H1 keeps the stream in a private heap copy.  When ovnisort really sorts a region it rewrites
# the FILE with pwrite() and expects to see the new bytes through its mapping; with the heap copy it
# does not, and its own consistency checks (rebuild_ring, ring_check) abort.  That is an artefact of
# the hook, not of the tool: a failure of `ovnisort` located in the code that runs after the rewrite
# is only kept if the run on the mapped file (no OVNI_VERIF_HEAPBUF) fails as well.
_AFTER_REWRITE = ("rebuild_ring", "ring_check", "execute_sort_plan", "find_destination")


def run_case(bdir, inp, tool, timeout, keep=None):
    """returns (result, classification, number of hook artefacts discarded)"""
    tn, exe, args = tool
    d = keep or _scratch()
    try:
        td = os.path.join(d, "trace")
        write_files(td, inp.files, table_for(inp))
        res = run_tool(bdir, exe, args + [td], timeout)
        cls = classify(res)
        art = 0
        if cls and tn in ("ovnisort", "ovnisort-n4") and any(f in cls[1] for f in _AFTER_REWRITE):
            shutil.rmtree(td, ignore_errors=True)
            write_files(td, inp.files, table_for(inp))
            res2 = run_tool(bdir, exe, args + [td], timeout, heapbuf=False)
            cls2 = classify(res2)
            if cls2 is None:
                art = 1
            res, cls = res2, cls2
        return res, cls, art
    finally:
        if not keep:
            shutil.rmtree(d, ignore_errors=True)


def bundle_for(inp, tn, exe, args, res, cls, sig):
    b = {"case.json": {"property": "C19", "sig": sig, "tool": tn, "family": inp.fam, "change": inp.label,
                       "seed": inp.seed, "model_prediction": inp.pred,
                       "kind": cls[0], "where": cls[1], "rc": res.rc, "timeout": res.timeout,
                       "wall_s": round(res.wall, 2),
                       "replay": "build /repo with ASan+UBSan and -DOVNI_VERIF (core.build('asan')); "
                                 "OVNI_VERIF_HEAPBUF=1 ASAN_OPTIONS=detect_leaks=0:handle_abort=1 "
                                 "OVNI_CONFIG_DIR=<empty dir> %s %s trace/  (ovnisort rewrites the trace: "
                                 "use a copy)" % (exe, " ".join(args)),
                       "streams": [{"dir": rel, "stream.json.b64": base64.b64encode(j).decode(),
                                    "stream.obs.hex": o.hex() if len(o) <= 4096 else None,
                                    "stream.obs.len": len(o)} for rel, j, o in inp.files]},
         "stderr.txt": res.text}
    if table_for(inp) is not None:
        b["trace/clock-offsets.txt"] = table_for(inp)
    for rel, j, o in inp.files:
        b["trace/%s/stream.json" % rel] = j
        b["trace/%s/stream.obs" % rel] = o
    return b


def tlc_runs(ck, tier):
    """Guarded must hold; the current arithmetic must be refuted for every invariant;
    returns the exported transitions and the refuted invariants"""
    jobs = [("guarded", "Decoder_Guarded.cfg" if tier == "quick" else "Decoder_Guarded_Thorough.cfg")]
    jobs += [("cur:" + inv, "Decoder_Cur_%s.cfg" % inv) for inv in INVS]
    jobs += [("export", "Decoder_Cur_Export.cfg" if tier == "quick" else "Decoder_Cur_Export_Thorough.cfg")]

    def one(job, w):
        name, cfg = job
        return core.tlc("Decoder", cfg, workers=w, timeout=3000,
                        heap="12g" if name in ("guarded", "export") else "2g")

    if tier == "quick":
        # the two larger runs side by side, then the six refutations (about 1 s of work each) side by side
        big = [j for j in jobs if j[0] in ("guarded", "export")]
        small = [j for j in jobs if j not in big]
        rb = core.pmap(lambda j: one(j, 8), big, threads=True, workers=2)
        rsm = core.pmap(lambda j: one(j, 2), small, threads=True, workers=len(small))
        got = dict(zip([j[0] for j in big + small], rb + rsm))
        rs = [got[j[0]] for j in jobs]
    else:
        rs = [one(j, core.NCPU) for j in jobs]
    refuted = []
    lines = None
    for (name, cfg), r in zip(jobs, rs):
        core.tlc_expect_ok(r, "Decoder/" + cfg)
        ck.add_tlc(r, "Decoder/%s" % cfg)
        if name == "guarded":
            if r.violated:
                # the guarded design is the reference the findings are explained with: a failure is
                # a defect of the model, not of the tools
                raise core.MachineryError("Decoder (guarded design) violates %s\n%s" % (r.violated, r.out[-3000:]))
        elif name.startswith("cur:"):
            inv = name[4:]
            if r.violated != inv:
                raise core.MachineryError("negative configuration %s: TLC did not refute %s on the current "
                                          "arithmetic (got %r)" % (cfg, inv, r.violated))
            refuted.append(inv)
        else:
            if r.violated:
                raise core.MachineryError("export run reported %s" % r.violated)
            lines = [o for tg, o in r.lines if tg == "TR" and isinstance(o, dict)]
            # TLC prints in the order its workers get there: make the choice of representatives reproducible
            lines.sort(key=lambda o: json.dumps(o, sort_keys=True))
    if not lines:
        raise core.MachineryError("Decoder export is empty")
    return lines, refuted


# which design invariant of Decoder.tla a failure signature witnesses (for the text of the report only)
def design_link(kind, where, pred):
    if kind == "timeout":
        return "Progress"
    if "ovni_ev_size" in where and kind.startswith("asan-bad"):
        return "HeaderReadInBounds (size field of a trailing fragment) / CursorInBounds (cursor moved backwards)"
    if kind.startswith("ubsan-signed-integer-overflow") and "ovni_ev_size" in where:
        return "VerdictIsExit0or1 (undefined size arithmetic)"
    if pred and ("loop" in pred or "wild" in pred or "misparse" in pred):
        return "CursorInBounds / StepIsExtent"
    if pred and ("over-read" in pred or "null" in pred):
        return "ReadsWithinEvent"
    return None


def main(pid, tier):
    ck = core.Check(pid, "exploration", tier)
    bdir = core.build("asan")
    rng = random.Random(core.seed())
    _sweep_stale()

    lines, refuted = tlc_runs(ck, tier)
    ck.notes["current_arithmetic_refuted_invariants"] = refuted
    ck.notes["exported_transitions"] = len(lines)
    ck.phase("tlc")

    sd = seeds()
    # the seeds must be clean on every tool, otherwise nothing below means anything
    inputs = []
    for n, s in sd:
        inp = Inp("seed", "unchanged", n, seed_files(s), nontrivial=False)
        for tool in TOOLS:
            res, cls, _ = run_case(bdir, inp, tool, T_LONG)
            if cls:
                # a tool that crashes or hangs on a well-formed trace: that IS the property; the unchanged
                # trace goes through the tools below like every other input and is reported there
                if not any(i.fam == "seed" and i.seed == n for i in inputs):
                    inputs.append(inp)
            elif res.rc != 0:
                raise core.MachineryError("seed %s is not accepted by %s: rc=%s %s\n%s"
                                          % (n, tool[0], res.rc, cls, res.text[-1500:]))
    inputs += gen_model(ck, rng, tier, sd, lines)
    inputs += gen_sweep(ck, rng, tier, sd, lines)
    inputs += gen_trunc(ck, rng, tier, sd)
    inputs += gen_shapes(ck, rng, tier, sd)
    inputs += gen_meta(ck, rng, tier, sd)
    inputs += gen_random(ck, rng, tier, sd, lines)
    del lines
    seedkeys = {Inp("seed", "", n, seed_files(s)).key() for n, s in sd}
    seen = set()
    uniq = []
    for i in inputs:
        k = i.key()
        if k in seen:
            continue
        seen.add(k)
        i.nontrivial = k not in seedkeys
        uniq.append(i)
    fam = collections.Counter(i.fam for i in uniq)
    ck.notes["inputs_by_family"] = dict(fam)
    ck.notes["inputs"] = len(uniq)
    ck.phase("generate")

    items = [(ii, ti) for ii in range(len(uniq)) for ti in range(len(TOOLS))
             if (uniq[ii].tools is None or TOOLS[ti][0] in uniq[ii].tools
                 or (TOOLS[ti][0] == "ovniemu-d" and "ovniemu" in uniq[ii].tools)
                 or (TOOLS[ti][0] == "ovnisort-n4" and "ovnisort" in uniq[ii].tools))
             and (TOOLS[ti][0] != "ovniemu-d" or ii % 3 == 0)
             and (TOOLS[ti][0] != "ovnisort-n4" or ii % 2 == 0)]
    core.log("[C19] %d inputs (%d generated), %d tool runs" % (len(uniq), len(inputs), len(items)))
    rng2 = random.Random(core.seed() + 1)
    rng2.shuffle(items)            # spread the slow (hanging) runs over the workers

    def work(it):
        ii, ti = it
        res, cls, art = run_case(bdir, uniq[ii], TOOLS[ti], T_SHORT)
        if cls is None:
            return (ii, ti, None, res.rc, res.wall, None, art)
        return (ii, ti, cls, res.rc, res.wall, res.text, art)

    results = core.pmap(work, items)
    ck.phase("run")

    # hangs: confirm with the long timeout (the smallest inputs of every tool first)
    hang = [r for r in results if r[2] and r[2][0] == "timeout"]
    confirmed = {}
    notconf = []
    if hang:
        by_tool = collections.defaultdict(list)
        for r in hang:
            by_tool[r[1]].append(r)
        again = []
        for ti, rs in by_tool.items():
            rs.sort(key=lambda r: (uniq[r[0]].nbytes(), r[0]))
            again += [(r[0], r[1]) for r in rs[:4]]

        def work2(it):
            ii, ti = it
            res, cls, art = run_case(bdir, uniq[ii], TOOLS[ti], T_LONG)
            return (ii, ti, cls, res.rc, res.wall, res.text, art)

        for r in core.pmap(work2, again, threads=True, workers=min(core.NCPU, max(1, len(again)))):
            if r[2] and r[2][0] == "timeout":
                confirmed[(r[0], r[1])] = r
            else:
                notconf.append((r[0], r[1]))
        # a tool none of whose hangs was confirmed: run all of them with the long timeout
        for ti, rs in by_tool.items():
            if not any((r[0], ti) in confirmed for r in rs):
                rest = [(r[0], r[1]) for r in rs if (r[0], r[1]) not in notconf]
                for r in core.pmap(work2, rest, threads=True, workers=core.NCPU):
                    if r[2] and r[2][0] == "timeout":
                        confirmed[(r[0], r[1])] = r
                    else:
                        notconf.append((r[0], r[1]))
    ck.notes["timeouts_first_pass_%ss" % T_SHORT] = len(hang)
    ck.notes["timeouts_confirmed_%ss" % T_LONG] = len(confirmed)
    ck.phase("confirm-hangs")

    # group
    groups = collections.OrderedDict()
    clean = 0
    rcs = collections.Counter()
    pred_hit = collections.Counter()
    pred_all = collections.Counter()
    failing_inputs = set()
    artefacts = 0
    for (ii, ti, cls, rc, wall, text, art) in results:
        inp = uniq[ii]
        artefacts += art
        rcs[str(rc)] += 1
        if cls is None:
            clean += 1
            continue
        if cls[0] == "timeout":
            if (ii, ti) in notconf:
                clean += 1           # slow, not hung: finished within the long timeout
                continue
            tconf = [c for c in confirmed if c[1] == ti]
            if not tconf:
                continue
            if (ii, ti) in confirmed:
                (_, _, cls, rc, wall, text, _) = confirmed[(ii, ti)]
        failing_inputs.add(ii)
        sig = make_sig(TOOLS[ti][0], cls[0], cls[1])
        g = groups.setdefault(sig, {"n": 0, "fams": collections.Counter(), "best": None, "kind": cls[0],
                                    "where": cls[1], "tool": TOOLS[ti][0], "preds": collections.Counter()})
        g["n"] += 1
        g["fams"][inp.fam] += 1
        if inp.pred:
            g["preds"][inp.pred] += 1
        conf = cls[0] != "timeout" or (ii, ti) in confirmed
        cand = (0 if conf else 1, inp.nbytes(), ii, ti, cls, rc, wall, text)
        if g["best"] is None or cand[:3] < g["best"][:3]:
            g["best"] = cand
    for i, inp in enumerate(uniq):
        ck.case(inp.key(), nontrivial=inp.nontrivial)
        if inp.pred:
            pred_all[inp.pred] += 1
            if i in failing_inputs:
                pred_hit[inp.pred] += 1
    ck.notes["tool_runs"] = len(results)
    ck.notes["ovnisort_hook_artefacts_discarded"] = artefacts
    ck.notes["clean_runs"] = clean
    ck.notes["exit_status_histogram"] = dict(rcs)
    ck.notes["failing_inputs"] = len(failing_inputs)
    ck.notes["model_predicted_misbehaviour"] = {k: {"inputs": pred_all[k], "a_tool_misbehaved": pred_hit[k]}
                                               for k in sorted(pred_all)}
    ck.cov["traces_validated_against_impl"] = clean
    ck.notes["tree_behaves_like"] = ("current arithmetic (Decoder, Guarded = FALSE)" if any(pred_hit.values())
                                     else "guarded design (no input of a class predicted to misbehave did)")

    # report: one violation per signature; distinct locations first so that the (bounded) list of
    # bundles shows every defect before it shows the same defect through another tool
    order = sorted(groups.items(), key=lambda kv: (kv[1]["best"][1], kv[0]))
    first, later, seen_loc = [], [], set()
    for sig, g in order:
        loc = (g["kind"], g["where"].split("<")[0])
        (later if loc in seen_loc else first).append((sig, g))
        seen_loc.add(loc)
    table = []
    for sig, g in first + later:
        (_, nb, ii, ti, cls, rc, wall, text) = g["best"]
        inp = uniq[ii]
        tn, exe, args = TOOLS[ti]
        res = Res()
        res.rc, res.timeout, res.text, res.wall = rc, cls[0] == "timeout", text or "", wall
        link = design_link(cls[0], cls[1], inp.pred)
        what = ("%s %s at %s (%d runs; families %s)\nsmallest input: seed '%s', %s (%d bytes in all files)\n"
                "signature %s%s\n%s"
                % (tn, cls[0], cls[1], g["n"], dict(g["fams"]), inp.seed, inp.label, nb, sig,
                   ("\ndesign invariant of Decoder.tla refuted by TLC on the current arithmetic and witnessed "
                    "here: %s" % link) if link and refuted else "",
                   cls[2][:1500]))
        reported = ck.violation(what, bundle_for(inp, tn, exe, args, res, cls, sig), sig=sig)
        table.append({"sig": sig, "runs": g["n"], "families": dict(g["fams"]), "seed": inp.seed,
                      "smallest_input": inp.label, "bytes": nb, "design_invariant": link,
                      "known": not reported})
    ck.notes["signatures"] = table
    for row in table:
        core.log("[C19] %-70s runs=%-5d %s%s: %s" % (row["sig"], row["runs"], "(known) " if row["known"] else "",
                                                    row["seed"], row["smallest_input"]))
    for i in (0, len(uniq) // 3, 2 * len(uniq) // 3, len(uniq) - 1):
        ck.sample({"family": uniq[i].fam, "seed": uniq[i].seed, "change": uniq[i].label})
    ck.assumptions += [
        "a TLA+ model cannot establish memory safety of C: what is claimed is the soundness of the guarded decoder "
        "design within 8-bit scaled integers, and the absence of crashes / hangs / sanitizer reports on the "
        "generated structure-aware input family",
        "AddressSanitizer + UBSan (gcc) and the heap-buffer hook H1 (OVNI_VERIF_HEAPBUF) are the observation "
        "channel and part of the trusted base; float-cast-overflow is not part of -fsanitize=undefined",
        "ASAN_OPTIONS handle_abort=1: abort() (die) is reported by ASan with a stack and exit status 1; "
        "allocator_may_return_null=1: an oversize malloc returns NULL as in a normal build",
        "ovnisort (sort mode) rewrites the file with pwrite() and reads the result through its mapping; with the "
        "heap copy of hook H1 it cannot, so a failure of ovnisort located after the rewrite (rebuild_ring, "
        "ring_check, ...) is re-run on the mapped file and only kept if it fails there as well",
        "a hang is a run that exceeds %.0f s (first pass %.0f s; the smallest hanging inputs of every tool are "
        "re-run with the long timeout, the others are counted under the confirmed signature)" % (T_LONG, T_SHORT),
        "exit status 1 vs 0 is not compared with the model (C19 only asks for one of the two)"]
    return ck.finish(rule="one case per distinct input (sha1 of all stream files), run through 5 tool invocations; "
                          "non-trivial = differs from its seed in bytes that steer the decoder (flags, size field, "
                          "file length, payload shape, metadata key type); inputs = TLC-exported decoder transitions "
                          "materialised on 4 seeds + the same value classes swept over every event + every prefix + "
                          "catalogue payload shapes + metadata types + seeded random stage")
