SPECIFICATION SpecSim
CONSTANTS
  NT = 1
  Calls <- CallsSim
  MaxOps <- EnvMaxOps
  MinDie <- EnvMinDie
  Ending <- EnvTail
  ProcAtStart = FALSE
  Variant = "faithful"
INVARIANT SimInv
ACTION_CONSTRAINT ExportEnd
CHECK_DEADLOCK FALSE
