SPECIFICATION TSpec
CONSTANT AllowStale = TRUE
POSTCONDITION Report
CHECK_DEADLOCK FALSE
