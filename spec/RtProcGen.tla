------------------------------ MODULE RtProcGen ------------------------------
(* Schedule generator for the conformance step of C11: RtProc with a history
   of the steps taken; run with -simulate, every completed behaviour (no
   thread can move) is printed as a plan for drivers/mtdrive.              *)
EXTENDS RtProc, Json

VARIABLE hist
gvars == <<vars, hist>>
GInit == Init /\ hist = <<>>
GNext == Next /\ hist' = Append(hist, last'[1])
GSpec == GInit /\ [][GNext]_gvars
AllDone == \A t \in Threads : ~Active(t)
Export == AllDone => PrintT(<<"TR", ToJson([progs |-> [t \in Threads |-> prog[t]], sched |-> hist])>>)
=============================================================================
