---------------------------- MODULE PlayerMerge ----------------------------
(* The property layer of C03 as a state machine over an explicit system:
   one cursor per stream; a step emits the next event of ANY stream whose
   next corrected clock is minimal among the streams that still have events
   (ties are free).  `emitted` records the replay:
       [s, k, c, d] = stream, index in the stream, corrected time,
                      output time = c - corrected time of the first emitted
   TLC checks that every run of Merge is non-decreasing in corrected time,
   keeps the order inside each stream, and at termination holds every event
   exactly once.                                                           *)
EXTENDS Player

VARIABLES msys, cursor, emitted
mvars == <<msys, cursor, emitted>>

MergeEmit(s) ==
   LET hd == MHeads(msys, cursor) IN
   /\ MergeEnabled(hd, s)
   /\ cursor' = [cursor EXCEPT ![s] = @ + 1]
   /\ emitted' = Append(emitted, Em(s, cursor[s] + 1, hd[s], FirstOf(emitted, hd[s])))
   /\ UNCHANGED msys

MergeInit == /\ IsExplicitSystem(msys)
             /\ cursor = [s \in 1..NStreams(msys) |-> 0]
             /\ emitted = <<>>
MergeNext == \E s \in 1..NStreams(msys) : MergeEmit(s)
MergeSpec == MergeInit /\ [][MergeNext]_mvars

MergeDone == \A s \in 1..NStreams(msys) : cursor[s] = Len(msys.clocks[s])

MergeNonDecreasing == NonDecreasing(emitted)
MergePerStreamOrder == PerStreamOrder(emitted)
MergeExactlyOnce == MergeDone => ExactlyOnce(msys, emitted)
MergeOutputTimes == OutputTimes(emitted)
\* Merge can always go on until every event is out (no event is ever stuck)
MergeNoStuck == MergeDone \/ ENABLED MergeNext
=============================================================================
