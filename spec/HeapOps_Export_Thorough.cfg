SPECIFICATION GSpec
CONSTANTS
  MaxNodes = 7
  Keys = {0,1,2,3}
  MaxOps = 7
  HVariant = "ok"
  Grammar = "any"
INVARIANTS WellFormed SizeIsCount HistOK
CONSTRAINT GExport
CHECK_DEADLOCK FALSE
