SPECIFICATION MCSpec
CONSTANTS
  System <- SysC08T
  Alphabet <- AlphaC08T
  MaxLen = 7
  Lint = TRUE
VIEW MCView
INVARIANT Inv
ACTION_CONSTRAINT Export
CHECK_DEADLOCK FALSE
