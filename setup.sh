#!/bin/sh
# Offline setup: nothing to fetch. Parse all specs (fails early on a broken spec)
# and create the cache directory. /repo is built by each check itself.
set -e
cd "$(dirname "$0")"
mkdir -p .cache/build .cache/scratch evidence
rm -rf .cache/scratch/* 2>/dev/null || true
cd spec
ls *.tla | xargs -P 8 -I{} sh -c 'tla-sany {} >/tmp/sany.$$.{}.log 2>&1 || { echo "SANY failed on {}"; tail -20 /tmp/sany.$$.{}.log; rm -f /tmp/sany.$$.{}.log; exit 255; }; rm -f /tmp/sany.$$.{}.log'
echo setup ok
