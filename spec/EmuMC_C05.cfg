SPECIFICATION MCSpec
CONSTANTS
  System <- SysC05
  Alphabet <- AlphaC05
  MaxLen = 30
  Lint = TRUE
VIEW MCView
INVARIANT Inv
ACTION_CONSTRAINT Export
CHECK_DEADLOCK FALSE
