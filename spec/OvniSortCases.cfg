SPECIFICATION CSpec
CONSTANTS
  MaxLen = 0
  MaxClock = 0
  Rings = {}
  MaxB = 0
  MaxJ = 0
  Strict = TRUE
  JumboInside = TRUE
  ExportUnspecLen = 0
  Variant = "code"
CHECK_DEADLOCK FALSE
