\* arithmetic of the current code: TLC must refute CursorInBounds (design finding + non-vacuity of the invariant)
SPECIFICATION Spec
CONSTANTS
  W = 8
  Sizes <- SzQuick
  Guarded = FALSE
  JSizes <- JSQuick
  JFlags <- JFQuick
  MaxStr = 6
INVARIANTS CursorInBounds
CHECK_DEADLOCK FALSE
