SPECIFICATION Spec
CONSTANTS
  MaxN = 6
  Vals = {0,1,2}
  Variant = "code"
  WriteAll = FALSE
VIEW View
INVARIANTS RowsSorted OnlyChangedWritten AllChangedWritten RefSortIsSort
ACTION_CONSTRAINT Export
CHECK_DEADLOCK FALSE
