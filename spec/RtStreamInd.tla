---------------------------- MODULE RtStreamInd ----------------------------
(* Inductive invariant of the size arithmetic of the runtime staging buffer
   (same arithmetic as RtArith / RtStreamAbs, recursion unrolled: after a
   flush the fill level is at most one event plus two markers) for the REAL
   capacity and EVERY payload size and EVERY jumbo size 0..CAP (symbolic),
   checked with Apalache:  Init => IndInv  and  IndInv /\ Next => IndInv'. *)
EXTENDS Integers, RtArith

VARIABLES
  \* @type: Int;
  evlen,
  \* @type: Bool;
  nested

Hdr == HdrSize

\* add one 12-byte marker at fill level l from inside add_flush_events: [l, nested]
\* @type: (Int) => Int;
AfterMarker(l) == IF NeedFlush(l, Hdr) THEN 3 * Hdr ELSE l + Hdr
MarkerNests(l) == NeedFlush(l, Hdr)

\* the two markers appended after a forced flush, starting at fill level l
TwoMarkersLevel(l) == AfterMarker(AfterMarker(l))
TwoMarkersNest(l) == MarkerNests(l) \/ MarkerNests(AfterMarker(l))

EmitTo(size) ==
   IF NeedFlush(evlen, size)
   THEN /\ evlen' = TwoMarkersLevel(size)
        /\ nested' = (nested \/ TwoMarkersNest(size))
   ELSE /\ evlen' = evlen + size /\ nested' = nested

Emit == \E p \in LegalPay : EmitTo(NormalSize(p))

Jumbo == \E n \in 0..CAP :
   LET size == JumboSize(n) IN
   /\ ~JumboTooLarge(n)                            \* else die("event too large")
   /\ IF NeedFlush(evlen, size)
      THEN IF Reserve /\ ~MarkersFit(size)
           THEN /\ evlen' = TwoMarkersLevel(0) /\ nested' = (nested \/ TwoMarkersNest(0))
           ELSE /\ evlen' = TwoMarkersLevel(size) /\ nested' = (nested \/ TwoMarkersNest(size))
      ELSE /\ evlen' = evlen + size /\ nested' = nested

Flush == /\ evlen' = TwoMarkersLevel(0) /\ nested' = (nested \/ TwoMarkersNest(0))

Init == evlen = 0 /\ nested = FALSE
Next == Emit \/ Jumbo \/ Flush

ConstInit == CAP = 2097152 /\ Reserve = TRUE
ConstInitNeg == CAP = 2097152 /\ Reserve = FALSE

IndInv == evlen >= 0 /\ evlen < CAP /\ ~nested
\* the same set of states in assignment form (initial predicate of the induction step)
IndInit == evlen \in 0..(CAP - 1) /\ nested = FALSE
=============================================================================
