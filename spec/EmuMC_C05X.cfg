SPECIFICATION MCSpec
CONSTANTS
  System <- SysC05X
  Alphabet <- AlphaC05X
  MaxLen = 30
  Lint = TRUE
VIEW MCView
INVARIANT Inv
ACTION_CONSTRAINT Export
CHECK_DEADLOCK FALSE
