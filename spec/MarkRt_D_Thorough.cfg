SPECIFICATION Spec
CONSTANTS
  NT = 2
  DefCalls <- DefsD
  EvCalls <- EvD
  MaxDefs <- MaxDefsDt
  MaxEv <- MaxEvD
  Variant = "faithful"
VIEW View
INVARIANTS
  MergeOrderIndependent
  ConflictsRefused
  AgreeingDefsMerge
  SingleThreadLoads
  AcceptedPersist
  RefusalIsLast
ACTION_CONSTRAINT Export
PROPERTY DefsMonotone
CHECK_DEADLOCK FALSE
