#!/usr/bin/env python3
"""Writes /verif/MANIFEST.json from the table below (single source of truth)."""
import json
import os

HERE = os.path.dirname(os.path.dirname(os.path.abspath(__file__)))

ALL = ["C%02d" % i for i in range(1, 21)]

CHECKS = {
 "C01": dict(
    level="model_checking", ref="DESIGN.md §4 C01",
    technique="TLA+ spec RtStream/RtStreamAbs checked by TLC + TLC-generated call sequences replayed through libovni and validated against the spec (trace validation)",
    text="TLC explores every call sequence of the scaled faithful model (CAP=56) and every fill level of the real 2 MiB buffer in the size-abstracted model; invariants Fidelity, OnlyMarkers, HeaderFirst, Tiling, BufferBound. The spec is bound to src/rt/ovni.c by replaying every call at every one of the last 64 fill levels plus TLC -simulate walks through the real library and validating the recorded file sizes and the decoded stream with RtStreamTrace.tla; runs are repeated under an LD_PRELOAD shim that makes write() truthfully short, and three-thread programs (all threads freeing at once, with and without relocation from OVNI_TMPDIR) are validated stream by stream; scripts also run with relocation (incl. OVNI_TMPDIR being the trace directory itself, under another name or the same, existing or not), with 7-digit pid/tid, without the execute event in front, with payloads handed over in several ovni_payload_add calls, with the wall clock stepped backwards under the shim, with every sequence of up to three small events before the first flush, with every sequence of up to three flush-separated segments made of one kind of call only (plain events / marks / fitting jumbo events), with the call under test as the last thing before the final flush, as programs with a time base of their own that starts at zero (clocks handed over = clocks in the stream), with metadata updates (ovni_attr_set/flush) between the events, and with stack marks (nested pushes of different and of equal values). The inductive invariant 0 <= fill < CAP and no nested flush (RtStreamInd.tla, same arithmetic module) is discharged by Apalache for the real capacity and a symbolic jumbo size.",
    note="Payload/jumbo bytes are opaque ids in TLA+; their byte equality (MCV, clock, payload, jumbo data) is checked by the harness decoder against the driver's emit log. Logical clock abstracts CLOCK_MONOTONIC. Exhaustive only within the stated constants."),
 "C02": dict(
    level="model_checking", ref="DESIGN.md §4 C02",
    technique="TLA+ spec RtStream/RtStreamAbs checked by TLC (ClockMonotone, FlushPaired, NoNestedFlush) + Apalache inductive invariant (RtStreamInd) + negative configurations + replay of TLC-generated protocol-conformant programs through libovni, trace validation and ovniemu -l",
    text="Same models as C01 with the validity invariants (tiling, monotone clocks, paired non-nested flush markers); the arithmetic of the pinned commit is kept as a negative configuration that TLC must refute. A 48-thread program is emulated with 40 file descriptors. A quarter of the three-thread programs is an MPI rank (set by the thread whose directory sorts last) next to a second process of the same loom. Every generated program is run against the real library, its stream validated by RtStreamTrace.tla (observed markers paired, clocks monotone, sizes) and the directory is fed to ovniemu -l which must accept.",
    note="Programs are single-threaded scripts plus three-thread programs whose threads run such scripts concurrently (forced interleavings are C11). Exhaustive within constants; the emulator is part of the observation."),

 "C04": dict(
    level="model_checking", ref="DESIGN.md §4 C04",
    technique="TLA+ spec EmuCore/EmuFull (thread state machine) explored by TLC; one ovniemu history per model transition (accepted and rejected, with legal completion); observed thread.prv timelines and verdict validated by EmuTrace.tla",
    text="TLC enumerates the full state graph of 2 threads x {OHx,OHp,OHr,OHc,OHw,OHe} x 3 CPU targets with invariants (TidShownIffActive, CpuIffStarted, ...). Every transition of the graph becomes a synthetic trace replayed by the real ovniemu (accepted with completion, rejected, rejected with completion, and cut short before the completion; a quarter with same-instant events); trace validation compares the state/TID/CPU timelines after every event and the final verdict with the specification, so both directions of the 'accepted exactly when legal' claim are exercised. A second instance interleaves kernel context switches (KCO/KCI) with the life-cycle and affinity events; a two-step cover (an accepted transition followed by a second event of the same kind) is added.",
    note="Bounded: 2 threads, histories up to the graph diameter; rows identified through .row names. Events of a stream after its thread is dead are Unspecified (a dead thread executing again is rejected: fixed defect 958e849)."),
 "C05": dict(
    level="model_checking", ref="DESIGN.md §4 C05",
    technique="TLA+ spec EmuCore (CPU occupancy, local/remote affinity) explored by TLC; transition-cover histories replayed on ovniemu; cpu.prv/thread.prv timelines validated by EmuTrace.tla",
    text="Bounded model with 4 threads in 3 processes and 2 looms, physical and virtual CPUs, OHx/OHp/OHr/OHe/OAs/OAr incl. malformed payloads and foreign looms; invariants NoPhysOversubscription, CpuMirrorsThreads. A second instance has two looms whose threads carry the same TIDs (TIDs are unique per loom only), a third interleaves kernel context switches (KCO/KCI: a switched-out thread is still running and still occupies its CPU). Sampled (quick) or full (thorough) transition cover plus a two-step cover (an accepted transition followed by a second event of the same kind) replayed on the emulator and validated event by event (nrunning, TID, PID per CPU).",
    note="OAr to the CPU the thread is already on is accepted as the identity (fixed defect d92fa81); bounded: 4 threads, 2 looms."),
 "C06": dict(
    level="model_checking", ref="DESIGN.md §4 C06",
    technique="TLA+ specs Emu (View = function of thread state, binding and raw channel values) and Bay (channel/patch-bay/mux implementation layer) explored by TLC over all interleavings of value/state/affinity events and all write orders; Bay behaviours replayed in-process on chan.c/bay.c/mux.c; histories replayed on ovniemu for every published channel of every model; views validated by EmuTrace.tla",
    text="Property layer View(thread/CPU, quantity, tracking mode) is checked on the real Paraver output after every event of TLC-generated histories (one channel per tracking mode ANY/RUN/ACT, stack and single), and the accepted histories are re-instantiated for each of the 19 published channels of the 8 models (table spec/data/events.json), with virtual CPUs in the alphabet, and for the stack and single mark channels of the ovni model; an explicit family puts three and four running threads on the virtual CPU. Implementation layer Bay.tla (chan_set / dirty list / mux callbacks of chan.c, bay.c, mux.c; every write order of an event; three refuted wrong variants) is replayed in-process on the real chan/bay/mux objects (drivers/bayharness). The traces recorded by the repository's own emulation test programs are validated against the same View (suite traces).",
    note="Bay.tla models one mux (select + N inputs + output), the wiring used for thread and CPU tracking; the whole-emulator composition is bound through the property layer. CPU idle default (Resting) is allowed where the property allows it."),
 "C07": dict(
    level="model_checking", ref="DESIGN.md §4 C07",
    technique="TLA+ spec EmuFull (task/body state machine of task.c/body.c with the nOS-V and Nanos6 rules) explored by TLC with invariants; transition cover replayed on ovniemu; task id/type/body/app/rank timelines validated by EmuTrace.tla",
    text="Bounded nOS-V model (normal, parallel and second normal task, 2 threads, rank) and Nanos6 model (relaxed nesting, rank) explored exhaustively with BodyRunsOnAtMostOneThread, OnlyTopRuns, TaskChansMirrorBodies, ParallelNeverPaused; 8000 (quick) histories incl. every rejected transition class replayed on the emulator, plus histories with both task models in one trace; task-type labels with blanks and percent signs.",
    note="Task types compared through PCF labels; a Nanos6 task started directly over TASK_BODY is Unspecified."),
 "C08": dict(
    level="model_checking", ref="DESIGN.md §4 C08",
    technique="TLA+ spec Emu (stack machine over committed event tables EventData.tla) explored by TLC per model; transition cover + every enter/leave pair of all 8 models in 10 shapes + depth probes replayed on ovniemu -l and validated by EmuTrace.tla",
    text="For each model a bounded instance (3 region kinds, for Nanos6 also two tasks whose execution nests on the same stack, bystander thread, thread state changes) is explored and replayed; additionally all 149 push/pop pairs of the tables are exercised (enter/leave/nested/mismatch/leave on empty/open at end under lint always; state preconditions incl. paused, cooling and warming, re-entry sampled in the quick tier) the clause shapes of nOS-V and Nanos6 are run with -b -l as well, and the 512-deep stack limit is probed; the value shown for the innermost region comes from the committed table.",
    note="Tables are committed data (spec/data/events.json) transcribed from documentation and model tables; immediate re-entry is Unspecified."),
 "C17": dict(
    level="model_checking", ref="DESIGN.md §4 C17",
    technique="TLA+ spec EmuFull (mark channels: stack/single, ACTIVE/RUNNING tracking) explored by TLC; transition cover replayed on ovniemu and validated by EmuTrace.tla; runtime side through drivers/rtdrive",
    text="Bounded model with a stack and a single mark type, two threads, pause/cool/migrate; push on single, set on stack, zero values, undefined types and mismatched pops must be rejected; timelines of types 101/102 on thread and CPU rows validated after every event; depth probes at the stack limit (511/512/513/600 values, well nested and with a wrong pop on top).",
    note="Runtime side: spec MarkRt (ovni_mark_type/label/push/pop/set refusals and metadata merging) with programs replayed on libovni through drivers/markdrive, then emulated."),

 "C09": dict(
    level="fault_enumeration", ref="DESIGN.md §4 C09",
    technique="TLA+ spec RtFs (literal system-call sequence of the runtime + Crash between any two calls) checked by TLC; every system call index of every scenario program is killed with strace on the real library and the surviving directories + ovniemu verdict are validated by RtFsTrace.tla",
    text="TLC checks C09a/C09b on the bounded family (direct/tmp mode, 1-2 flushes, copy chunk sizes, both readdir orders, accepted-prefix positions) and refutes the negative configurations (relocation in readdir order). On the code: the strace call list of each scenario must be exactly the model's script, and for every call index N the process is re-run with SIGKILL at the entry of call N; the abstract disk state must equal the model state at that crash point and the monitors are evaluated with the observed emulator verdict. The error-injection family of C10 is also run and judged by the C09 monitors (a stream is marked finished only after its bytes are in place, also on the error paths). The model and the scenarios include a finished earlier stream of the same loom/pid/tid in the final directory (left by an earlier run, or by an earlier thread of the same process with the same thread id); the variant that does not remove its metadata is refuted. Spec RtFs2 (two threads of one process, whole-directory acceptance by the emulator; negative configuration refuted) is bound by two-thread programs: strace -P confines the injection to the files of one thread, every matching call of either thread is killed / failed and the per-stream disk state + emulator verdicts are judged by the multi-stream monitors.",
    note="Single-threaded scenarios plus two-thread programs whose threads run one after the other (threads write disjoint directories); SIGKILL delivered by strace at syscall entry; the emulator is the observation of 'accepted'. The scenario 'boundary-tmp' places the end event exactly on the stdio copy-chunk boundary, 'bigmeta' has metadata larger than a stdio buffer."),
 "C10": dict(
    level="fault_enumeration", ref="DESIGN.md §4 C10",
    technique="TLA+ spec RtFs with a Fail alternative for every call (one fault per run) checked by TLC; every libovni system call of every scenario is failed with strace error injection on the real library and the outcome is judged by the C10 monitors of RtFsTrace.tla",
    text="TLC checks C10a/b/c (normal return => a complete copy exists; the only complete copy is never deleted; nothing accepted lacks flushed bytes) for a single failing call anywhere, and refutes the variant that ignores copy errors. Two-thread programs (spec RtFs2) get the same treatment per thread, one of them with a late worker that frees its stream after ovni_proc_fini. On the code each call index (incl. the stat family, which the model's script does not list) is failed with ENOSPC/EIO/EACCES/ESTALE (the call is not executed) and the exit kind (abort with diagnostic / normal return), the disk state of tmp and final directories and the emulator verdicts are validated.",
    note="Error injection skips the call (no partial effect); truthful short writes are injected separately through an LD_PRELOAD shim (every write returns at most k bytes) and must leave complete streams. Faults are single."),
 "C11": dict(
    level="model_checking", ref="DESIGN.md §4 C11",
    technique="TLA+ specs RtProc (CAS-guarded life-cycle, thread-local state) and RtAttr (per-thread metadata) checked by TLC over all interleavings; TLC -simulate schedules replayed step by step on libovni through the hook points (drivers/mtdrive) and validated by RtProcTrace.tla; free-running runs under ThreadSanitizer",
    text="All interleavings of 3 threads over 7 programs at linearization-point granularity with InitOnce, FiniOnce, RecordStableWhileRead, NoOpBeforeReady, Isolation, StMonotone; a load+store 'CAS' is refuted. ~1000 (quick) generated schedules are forced on the real library with gates at ovni_verif_point 1-4 and before each API call; every step outcome, refusal class and the per-thread streams on disk are validated. Free-running programs (no gates) with racing init/fini/thread_init, and seven threads starting together after another thread of the process has finished (each stream must hold exactly its own events), are run many times, also under ThreadSanitizer with relocation (OVNI_TMPDIR) on; the per-operation outcomes of every run must be one of the outcome vectors TLC computes for that program (RtProcFree.tla) and TSan must report nothing. The attribute API (spec RtAttr: metadata tree with parson's dot-path rules, get/has/flush, what ovni_thread_free stores) is explored by TLC and thousands of single- and multi-threaded call sequences are replayed on libovni comparing every return value / death and each thread's stream.json with the tree TLC expects for that thread; the multi-thread walks run once more under ThreadSanitizer.",
    note="Schedules are forced at API/hook granularity only; absence of data races in C is observed (TSan), not proved; a CAS weakened to load+store is caught by the model, only probabilistically on the code."),
 "C13": dict(
    level="model_checking", ref="DESIGN.md §4 C13",
    technique="TLA+ specs PrvTrace (clauses of the property as operators; expected row names from SystemOps) and ChanPrv (channel + Paraver writer implementation layer, replayed in process) evaluated by TLC on the real .prv/.pcf/.row files of accepted runs over TLC-generated histories of all bounded models and the metadata family",
    text="Every clause (non-decreasing times, rows in range, header duration = last event time, types declared in the .pcf, labelled state values, .row names/count/order) is evaluated by TLC on the files written by the real emulator for thousands of accepted runs covering all models, marks, tasks (incl. type labels whose hash sits on a boundary of the gid arithmetic), ranks, two looms, multi-process systems, histories followed by events that change no timeline (the trace lasts until the last of them), histories the specification rejects (judged whenever the emulator accepts them all the same, incl. uses of what a refused creation would have created) and the breakdown files written with -b. The writer itself is modelled (spec ChanPrv: stack/single channels, propagate phases, prv.c duplicate/zero/NEXT rules, non-decreasing times, header = last advance, track.c modes; 7 refuted wrong variants) and ~19k TLC-exported call sequences are replayed in process on the real chan/bay/prv/track objects (drivers/chanprvharness).",
    note="Speaks of accepted traces only; 64-bit values are folded before TLC; the semantics of breakdown rows is C20, their well-formedness is checked here."),
 "C14": dict(
    level="model_checking", ref="DESIGN.md §4 C14",
    technique="TLA+ spec Version (Compatible/Parse/ShouldEnable + code-shaped layer) checked exhaustively by TLC; exported cases replayed on version_parse/version_is_compatible/ovni_version_check_str/ovni_thread_require and on ovniemu (require versions, model enabling)",
    text="TLC enumerates all (want, have) triples over 0..3, all strings up to length 6/7 over a 6-character alphabet and all (events, requires, -a) configurations of 8 models (half of them with decoy names in the require table that extend a model name) with 18 invariants and 6 refuted negative configurations; >100k exported cases are replayed on the real runtime functions and the emulator; every other must-refuse version case carries no event of the model, so that the version is the only reason to refuse.",
    note="The grammar is N.N.N with an optional -suffix; everything else is malformed (fixed defect: the pinned parser read empty components, a 4th component and strtol spellings leniently). Numbers of 10+ digits are Unspecified."),
 "C15": dict(
    level="model_checking", ref="DESIGN.md §4 C15",
    technique="TLA+ spec SystemOps/System (property layer = function of the union of metadata; implementation layer = sequential first-come merge) checked by TLC over all distributions/orders/contradictions; exported cases materialised and run through ovniemu (verdict, signal, thread.row/cpu.row)",
    text="For every distribution of app_id/rank/loom_cpus over the threads, CPU list order, processing order and every single contradiction of the bounded family TLC checks that the merge agrees with the union semantics and that rows are distribution independent; a deterministic sample and all contradictions are run on the real emulator and rows/verdict/absence of signals compared.",
    note="2 looms, 3 processes, 5 threads, loom names node<l>.x or names whose whole-string order differs from the order of their host parts (cn1-ib.0 / cn1.0), plus a 3-loom family (one PID used in two looms) with rank information on any subset of the looms in 8 (thorough: all 120) processing orders; equal sort keys are Unspecified."),

 "C18": dict(
    level="model_checking", ref="DESIGN.md §4 C18",
    technique="TLA+ spec Catalogue (over EmuFull + committed event tables): witness contexts by TLC reachability, verdict for every code of the 8 x 94 x 94 code space, Decode of description templates; probes and decodings replayed on ovnievents / ovniemu / ovnidump",
    text="TLC finds for each of the 348 listed events the shortest history after which it is accepted, evaluates the reference semantics on all 70,688 printable three-character codes plus the single-bit changes and bit-7 images of every listed code (thorough: all 397,832 codes with bytes 33..255) (invariant: rejected exactly when neither listed nor excepted) and computes the expected ovnidump text for argument vectors (integers over the whole range of each type, labels incl. UTF-8 bytes); ovnievents output is compared with the committed table in both directions, every listed event is replayed in its witness context (and once more with the thread switched out by the kernel model), unlisted codes are probed (quick: neighbourhood + sample + payload-shaped probes; thorough: the whole space) and decodings compared, per model and in traces that mix all models so that codes differing in the model byte only are neighbours; unlisted, not excepted codes are dumped as well and must get no description.",
    note="The table is committed data; printf formatting is reproduced for the conversions the catalogue uses. Unlisted codes are probed in the running context and again after the thread has ended (OHx OHe <code>), where the base model still processes OF[ OF]."),
 "C20": dict(
    level="model_checking", ref="DESIGN.md §4 C20",
    technique="TLA+ specs SortOps/SortMod (sort_replace as written vs sorted-multiset property, only-changed-rows written) and Breakdown/BreakdownMC (tri rule + mux selection memory) checked by TLC; exported sequences replayed in-process on sort.c (drivers/sortharness) and histories replayed with ovniemu -b, validated by BreakdownTrace.tla",
    text="The full finite state space of the sort module for n<=4 inputs is explored with RowsSorted / OnlyChangedWritten / AllChangedWritten and four refuted wrong variants; all exported replacement cases and module histories are replayed on the real sort.c; nOS-V and Nanos6 bounded models (2-3 CPUs) are explored and thousands of histories (also on two looms: rows over the physical CPUs of all looms) are emulated with -b: after every event the breakdown rows must be the sorted multiset of the per-CPU values given by the tri rule applied to the same run's cpu.prv and predicted by the spec.",
    note="One genuine finding is listed in known-findings.txt (stale tr-mux selection); the spec tolerates exactly that state and reports every other disagreement."),

 "C03": dict(
    level="model_checking", ref="DESIGN.md §4 C03",
    technique="TLA+ specs Player/PlayerMerge (property layer Merge), PtrHeap/PlayerHeap/HeapOps (heap.h and player.c transcribed) checked by TLC incl. refinement HeapPlayer => Merge; exported heap op sequences replayed on the real heap.h (drivers/heapharness), exported stream sets replayed through ovnidump/ovnitop/ovniemu in several enumeration orders and validated by PlayerTrace.tla",
    text="TLC checks the structural heap invariants and that every emission of the pointer-heap player is an allowed step of the abstract k-way merge (ties free), corrected clocks and output times, independence of the enumeration order, with 12 refuted negative configurations. ~19k heap op sequences are replayed on heap.h comparing popped keys and the whole pointer structure; 1200 (quick) stream sets with offset tables are materialised in several directory orders (and nftw orders through a shim), also with clocks seconds apart, with looms sharing a host name, with host names one of which is a prefix of the other, with one loom per process and ranks placed round-robin over the hosts, with offset tables in integer / fixed / exponent notation without the final newline, with an extra event-less non-thread stream and with a loom or thread directory reached through a symbolic link, and the observed replay order / PRV times validated by TLC.",
    note="ovnidump/ovnitop have no clock-offset input (offsets exercised on ovniemu only); a stream whose first corrected clock is negative is refused by the code (modelled via Base, assumption)."),
 "C12": dict(
    level="model_checking", ref="DESIGN.md §4 C12",
    technique="TLA+ spec Corrupt (acceptance function over EmuFull + SystemOps; every single corruption of 5 seed traces enumerated by TLC with expected verdict) + CorruptBytes for suite traces; each corrupted trace materialised byte for byte and run through ovniemu -l",
    text="TLC enumerates every truncation offset, adjacent swap, clock regression, header byte alteration, JSON damage, metadata key removal/retyping/alteration, require alteration, MCV substitution (incl. codes differing from a listed one only in bit 7), payload-size change, jumbo data cut below its first field and jumbo-flag removal (plain and with the very bytes the jumbo event stored as a normal payload) of the seeds and decides reject / ok / unspecified with the reference semantics (12 invariants, 4 refuted negative configurations); ~4000 (quick) corrupted traces are run on the real emulator: expected reject => exit 1 without 'finished ok' and without a signal.",
    note="Where a corruption yields another valid trace the spec says ok/Unspecified; redundant guards in the code make some single-guard mutations verdict-equivalent."),

 "C16": dict(
    level="model_checking", ref="DESIGN.md §4 C16",
    technique="TLA+ spec OvniSort (property layer SortedStablePermutation/PrefixUntouched/Idempotent + implementation layer: region automaton, look-back ring, find_destination, stable re-sort, ring rebuild) checked by TLC for refinement over all small streams; exported streams replayed through ovnisort / ovnisort -c / ovniemu and random larger runs validated by OvniSortTrace.tla",
    text="TLC explores every stream of <=6 events over 3-4 clock values with regions, jumbo events and several ring sizes (0.77M states quick, 9.8M thorough): Impl => Property, tightness of the look-back precondition, idempotence, five refuted negative configurations. ~7400 exported (stream, ring) pairs are materialised byte for byte and the tool's exit status, output order, size, untouched prefix, second run, check mode and emulator verdict compared with TLC's; random streams up to thousands of events (incl. disorder outside the regions before and after legal regions) and traces with two streams (the look-back ring must not leak between streams; a stream that cannot be sorted followed by a sorted one must still fail the run) are validated in the recorded direction; a third of all cases is written with clocks seconds apart (differences beyond 2^31 ns), about half of the normal events carry no payload, a fifth starts at clock 0, and streams of ~3000 events dominated by one region that belongs near the start are sorted with the default window.",
    note="Stability relies on glibc's merge-sort qsort; outside the preconditions the tool may fail; exit 0 always means a sorted stream (fixed defect c7e4054); a second run may fail when the sorted stream no longer satisfies the look-back (file unchanged)."),

 "C19": dict(
    level="exploration", ref="DESIGN.md §4 C19 (incl. its stated limit)",
    technique="TLA+ spec Decoder (stream decoder with C integer semantics scaled to 8 bits: guarded variant satisfies CursorInBounds/Progress/HeaderReadInBounds/ReadsWithinEvent, the unguarded arithmetic of the pinned commit is refuted) used to generate the structure-aware input family; all four tools run on it from the ASan+UBSan build with heap-buffer stream loading (hook H1) under timeout",
    text="TLC proves the guarded decoder design within scaled integers (58k states quick, 23M thorough) and refutes each invariant on the arithmetic of the pinned commit; the transition/boundary classes of the model plus structure-aware mutations (size fields, flags, truncations, payload shapes per handler, sort windows wider than 2^31/2^32 ns, unterminated strings and labels around the 1 KiB line buffers, every metadata key x JSON type, random stage) give ~6400 inputs (quick; a quarter with a clock offset table next to the streams, some with non-thread streams) x up to 7 tool invocations (ovniemu -l, ovniemu -d, ovnidump, ovnitop, ovnisort -c, ovnisort, ovnisort -n 4 so that the look-back ring wraps); a case fails iff a tool dies by a signal, times out, a sanitizer reports or the exit status is not 0/1; failures are grouped by signature.",
    note="A TLA+ model cannot establish memory safety of C: claimed is the decoder design within scaled integers plus absence of crashes/hangs/sanitizer reports on the generated family; ASan/UBSan are the observation channel."),
}

NA_REASON = "check not built yet in this round (planned, see DESIGN.md §4/§8); not claimed until its machinery exists"


def main():
    checks = []
    for pid in ALL:
        if pid not in CHECKS:
            continue
        c = CHECKS[pid]
        checks.append({
            "property_id": pid,
            "quick_cmd": "./check %s --tier quick" % pid,
            "thorough_cmd": "./check %s --tier thorough" % pid,
            "evidence_file": "evidence/%s.json" % pid,
            "replay_cmd_template": "./check %s --replay {path}" % pid,
            "engine": "tlc",
            "level_claimed": {"category": c["level"], "text": c["text"], "design_ref": c["ref"]},
            "level_note": c["note"],
            "technique": c["technique"],
        })
    man = {
        "version": 1,
        "setup_cmd": "./setup.sh",
        "hooks": {
            "guard": "OVNI_VERIF",
            "enable": "checks configure /repo out of tree into /verif/.cache/build/<variant>-<tree hash> with -DCMAKE_C_FLAGS=-DOVNI_VERIF (variants: hooks, asan, tsan)",
            "baseline_off_cmd": "cmake --build /repo/_build && ctest --test-dir /repo/_build -j8 --timeout 900",
            "source_commits": HOOK_COMMITS,
            "add_only": True,
        },
        "engines": [
            {"name": "tlc", "path": "/usr/local/bin/tlc",
             "serves_properties": sorted(CHECKS), "kind_free_text": "TLA+ explicit-state model checker (TLC 1.8.0) on the specs in /verif/spec, used for exhaustive bounded exploration, behaviour generation and trace validation"},
        ],
        "checks": checks,
        "not_applicable": [{"property_id": p, "reason": NA_REASON} for p in ALL if p not in CHECKS],
        "notes": "Fix commits in /repo (unguarded, 'fix:'): see known-findings.txt. ./check <id> exits 2 on machinery failure (never a VIOLATION).",
    }
    with open(os.path.join(HERE, "MANIFEST.json"), "w") as f:
        json.dump(man, f, indent=1)
        f.write("\n")


HOOK_COMMITS = ["4347f13", "1b81d02", "79e435a", "49254e3"]

if __name__ == "__main__":
    main()
