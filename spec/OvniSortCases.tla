---------------------------- MODULE OvniSortCases ----------------------------
(* Pinned streams (beyond the bounds of the exhaustive export, or worth a
   permanent replay): TLC evaluates the property layer and the implementation
   layer on each of them and prints the same record as OvniSort!Export; the
   harness replays them on the real ovnisort like the exported ones.        *)
EXTENDS OvniSort

Mk(k, c) == [i \in DOMAIN k |-> [id |-> i, clk |-> c[i], k |-> k[i], sz |-> SzOf(k[i])]]

Cases == <<
  \* a late event of the 2nd region lands in the 1st region: the 1st run sorts,
  \* a 2nd run with the same -n exits 1 on the sorted stream (nothing changes)
  [n |-> 5, k |-> <<"b","j","n","e","b","n","e">>, c |-> <<0,0,0,2,2,1,2>>],
  [n |-> 6, k |-> <<"b","j","n","e","b","n","e">>, c |-> <<0,0,0,2,2,1,2>>],
  \* same shape behind an OHx-like first event and with an OHe-like last event
  [n |-> 5, k |-> <<"n","b","n","n","e","b","n","e","n">>, c |-> <<0,1,1,1,3,3,2,3,4>>],
  [n |-> 6, k |-> <<"n","b","n","n","e","b","n","e","n">>, c |-> <<0,1,1,1,3,3,2,3,4>>],
  \* start of the stream reached with exactly n-1 / n-2 events in the ring
  [n |-> 4, k |-> <<"b","n","n","e">>, c |-> <<1,0,0,1>>],
  [n |-> 5, k |-> <<"b","n","n","e">>, c |-> <<1,0,0,1>>],
  \* wrap-around of the ring in the middle of the backwards search, jumbo moved
  [n |-> 8, k |-> <<"n","n","n","n","n","n","b","j","n","e","n">>, c |-> <<0,1,2,3,4,5,6,3,3,6,7>>],
  [n |-> 7, k |-> <<"n","n","n","n","n","n","b","j","n","e","n">>, c |-> <<0,1,2,3,4,5,6,3,3,6,7>>],
  \* three regions, each reaching back into the previous one
  [n |-> 9, k |-> <<"n","n","b","n","e","b","n","e","b","j","e","n">>, c |-> <<0,4,5,1,5,5,3,6,6,2,7,8>>],
  [n |-> 10, k |-> <<"n","n","b","n","e","b","n","e","b","j","e","n">>, c |-> <<0,4,5,1,5,5,3,6,6,2,7,8>>],
  \* garbage in: a region event later than its closing marker; a region left open
  [n |-> 8, k |-> <<"n","b","n","e","n">>, c |-> <<0,0,2,1,3>>],
  [n |-> 8, k |-> <<"n","b","n","n">>, c |-> <<0,1,3,2>>],
  \* markers used freely: OU] outside, OU[ inside a region
  [n |-> 8, k |-> <<"n","e","b","b","n","e","e","n">>, c |-> <<0,1,2,2,1,3,3,4>>]
>>

ASSUME \A i \in DOMAIN Cases :
          LET inp == Mk(Cases[i].k, Cases[i].c)
          IN PrintT(<<"TR", ToJson(ExportRec(inp, Run(inp, Cases[i].n)))>>)

\* every pinned case also satisfies Impl => Property
ASSUME \A i \in DOMAIN Cases :
          LET inp == Mk(Cases[i].k, Cases[i].c)
              S == Run(inp, Cases[i].n)
          IN Conforms(inp, Cases[i].n, Outcome(S), S.buf)

CInit == in = <<>> /\ s = ImplInit(2, <<>>)
CSpec == CInit /\ [][FALSE]_vars
=============================================================================
