"""C07 (task life-cycle) - EmuFull task layer via EmuMC.

Bounded models for nOS-V (normal + parallel tasks, 2 threads, rank) and
Nanos6 (relaxed nesting) explored exhaustively by TLC with the invariants
BodyRunsOnAtMostOneThread, OnlyTopRuns, TaskChansMirrorBodies,
ParallelNeverPaused; transition cover replayed on ovniemu and validated by
EmuTrace (task id / type / body id / app id / rank timelines, verdict).
The task module itself (all 16 flag combinations) is driven in-process by
drivers/taskharness.c along TLC-generated call sequences (TaskMod.tla).
"""
from vlib import core, emuhist


def main(pid, tier):
    ck = core.Check(pid, "model_checking", tier)
    bdir = core.build("hooks")
    for cfg, name in (("EmuMC_C07V.cfg", "nosv"), ("EmuMC_C076.cfg", "nanos6")):
        r, g = emuhist.explore(cfg)
        ck.add_tlc(r, "EmuMC/%s (%s tasks)" % (cfg, name))
        if r.violated:
            ck.violation("model %s violates %s" % (cfg, r.violated), {"tlc.out": r.out[-20000:]})
        emuhist.conformance(ck, bdir, g, tier, limit_quick=12000, limit_thorough=None, label="C07/" + name,
                            pairs=600 if tier == "quick" else 20000, pair_same=emuhist.same_category)
    ck.phase("transition_cover")
    try:
        from checks import taskmod
        taskmod.run(ck, bdir, tier)
        ck.phase("task_module")
    except ImportError:
        pass
    ck.assumptions += ["task type values are compared through their PCF label (the hash-derived gid is opaque)",
                       "a Nanos6 task started directly over the TASK_BODY region is Unspecified (C07 allows, C08 refuses)"]
    return ck.finish(rule="one emulator history per transition of the bounded nOS-V and Nanos6 task models "
                          "(+ in-process call sequences on task.c/body.c for all flag combinations); "
                          "non-trivial = at least 2 events; distinct by event list")
