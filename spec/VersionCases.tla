---------------------------- MODULE VersionCases ----------------------------
(* Verdicts of the property layer of Version.tla for cases given by the
   harness (version strings derived from the versions of the library and of
   the models of the tree under test): one JSON object per line in the file
   named by the environment variable CASES,

       {"i": n, "ss": [[c, c, ...], ...], "h": [c, c, ...], "all": false}

   ss = the version strings required (by the program / by each stream), as
   arrays of one-character strings; h = the version string of the provider
   (library or model), which must itself be well formed; all = option -a.  One
   state per case; the theorems of Version.tla relating the code-shaped
   parser to the property layer are checked on every string, and each case is
   printed with the verdict ProbeVerdict(ss, h, all). *)
EXTENDS Version, IOUtils

Cases == ndJsonDeserialize(IOEnv.CASES)

VARIABLES l, j
cvars == <<vars, l, j>>

\* l = case, j = string of the case put in s (so that the string theorems apply to it)
CInit == Init /\ l = 0 /\ j = 0
CNext == /\ \/ /\ (IF l = 0 THEN FALSE ELSE j < Len(Cases[l].ss))
               /\ j' = j + 1 /\ l' = l
            \/ /\ (IF l = 0 THEN TRUE ELSE j = Len(Cases[l].ss))
               /\ l < Len(Cases)
               /\ l' = l + 1 /\ j' = 1
         /\ kind' = "extra" /\ s' = Cases[l'].ss[j']
         /\ UNCHANGED <<w, h, req, evm, all>>
CSpec == CInit /\ [][CNext]_cvars

Have(c) == Parse(c.h).v

CExport ==
    LET c == Cases[l'] IN
    j' = 1 => PrintT(<<"TR", ToJson([i |-> c.i, rv |-> ProbeVerdict(c.ss, Have(c), c.all),
                                     p |-> [n \in 1..Len(c.ss) |-> Parse(c.ss[n])],
                                     pk |-> [n \in 1..Len(c.ss) |-> ParseVerdict(c.ss[n])]])>>)

\* the provider's own version is a well-formed version
HaveWellFormed == l > 0 => Parse(Cases[l].h).kind = "ok" /\ ~HasHuge(Have(Cases[l]))

\* the code-shaped layer agrees with the verdict wherever the property defines it
CaseRefines == l > 0 =>
    LET c == Cases[l]
        rv == ProbeVerdict(c.ss, Have(c), c.all)
        iv == IF \E n \in 1..Len(c.ss) : RequireImpl(c.ss[n], Have(c)) = "reject" THEN "reject" ELSE "accept"
    IN rv # "unspecified" => iv = rv
=============================================================================
