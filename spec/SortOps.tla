------------------------------ MODULE SortOps ------------------------------
(* Operators shared by SortMod (the sort module of the emulator,
   src/emu/sort.c) and Breakdown (the breakdown view built on it).

   Property layer: what "sorted" means (non-decreasing, same multiset).
   Implementation layer: sort_replace() transcribed statement by statement
   from sort.c (C arrays are 0-based, sequences 1-based: At(a, i) = a[i+1]),
   plus deliberately wrong variants used by the negative configurations.  *)
EXTENDS Naturals, Integers, Sequences, FiniteSets

-----------------------------------------------------------------------------
(* property layer *)
NonDecreasing(s) == \A i \in 1..(Len(s) - 1) : s[i] <= s[i + 1]
Count(s, v)      == Cardinality({i \in 1..Len(s) : s[i] = v})
Range(s)         == {s[i] : i \in 1..Len(s)}
SameMultiset(s, t) == /\ Len(s) = Len(t)
                      /\ \A v \in Range(s) \cup Range(t) : Count(s, v) = Count(t, v)
\* rows hold exactly the multiset of the values, in non-decreasing order
IsSortOf(rows, vals) == NonDecreasing(rows) /\ SameMultiset(rows, vals)

\* a reference sort (insertion sort); IsSortOf(SortAsc(s), s) is checked by TLC
RECURSIVE InsertSorted(_, _)
InsertSorted(s, v) ==
   IF s = <<>> THEN <<v>>
   ELSE IF v <= Head(s) THEN <<v>> \o s
   ELSE <<Head(s)>> \o InsertSorted(Tail(s), v)
RECURSIVE SortAsc(_)
SortAsc(s) == IF s = <<>> THEN <<>> ELSE InsertSorted(SortAsc(Tail(s)), Head(s))

\* sequence of f[k] for k in the finite set of integers S, in increasing order of k
RECURSIVE SeqOfFun(_, _)
SeqOfFun(f, S) ==
   IF S = {} THEN <<>>
   ELSE LET k == CHOOSE x \in S : \A y \in S : x <= y
        IN  <<f[k]>> \o SeqOfFun(f, S \ {k})

-----------------------------------------------------------------------------
(* implementation layer: sort_replace(arr, n, old, new), result
   [arr |-> new array, oob |-> an index outside 0..n-1 was read or written] *)
At(a, i) == a[i + 1]
Put(a, i, v) == [a EXCEPT ![i + 1] = v]
R(a, oob) == [arr |-> a, oob |-> oob]

\* for (; arr[i] < old; i++) ;       returns i, or -1 when it runs off the array
RECURSIVE SkipLess(_, _, _)
SkipLess(a, i, old) ==
   IF i < 0 \/ i >= Len(a) THEN -1
   ELSE IF At(a, i) < old THEN SkipLess(a, i + 1, old) ELSE i

\* for (; i < n - 1 && arr[i + 1] <= new; i++) arr[i] = arr[i + 1];   arr[i] = new;
RECURSIVE ShiftLeft(_, _, _)
ShiftLeft(a, i, new) ==
   IF i < Len(a) - 1 /\ At(a, i + 1) <= new
   THEN ShiftLeft(Put(a, i, At(a, i + 1)), i + 1, new)
   ELSE Put(a, i, new)

\* for (; i > 0 && arr[i - 1] > new; i--) arr[i] = arr[i - 1];   arr[i] = new;
RECURSIVE ShiftRight(_, _, _)
ShiftRight(a, i, new) ==
   IF i > 0 /\ At(a, i - 1) > new
   THEN ShiftRight(Put(a, i, At(a, i - 1)), i - 1, new)
   ELSE Put(a, i, new)

RECURSIVE ShiftRightLess(_, _, _)      \* wrong comparison, used by variant "down_less"
ShiftRightLess(a, i, new) ==
   IF i > 0 /\ At(a, i - 1) < new
   THEN ShiftRightLess(Put(a, i, At(a, i - 1)), i - 1, new)
   ELSE Put(a, i, new)

(* variant = "code"         sort_replace as written in sort.c
             "jump_always"  WRONG: jumps to the middle without looking at arr[m]
             "jump_le"      WRONG: jumps past the middle when arr[m] <= old
             "down_less"    WRONG: the shift-right loop compares with < instead of >   *)
SortReplace(variant, a, old, new) ==
   LET n == Len(a)
       m == n \div 2
   IN
   IF old < new THEN
      LET i0 == CASE variant = "jump_always" -> m
                  [] variant = "jump_le" -> IF At(a, m) <= old THEN m + 1 ELSE 0
                  [] OTHER -> IF At(a, m) < old THEN m ELSE 0     \* quick jump to middle if less than old
          i1 == SkipLess(a, i0, old)
      IN  IF i1 < 0 THEN R(a, TRUE) ELSE R(ShiftLeft(a, i1, new), FALSE)
   ELSE
      LET i1 == SkipLess(a, 0, old)
      IN  IF i1 < 0 THEN R(a, TRUE)
          ELSE IF variant = "down_less" THEN R(ShiftRightLess(a, i1, new), FALSE)
               ELSE R(ShiftRight(a, i1, new), FALSE)
=============================================================================
