"""RtAttr: the runtime's thread attribute API (ovni_attr_* of src/rt/ovni.c on
top of the bundled parson) and the stream.json written by ovni_thread_init /
ovni_attr_flush / ovni_thread_free.

spec/RtAttr.tla models the metadata of a thread as a tree (paths -> nodes),
one action per API call with its outcome (ok + returned value / dies), the
content of the file after every store, and the library's own keys.  TLC

  * checks the model exhaustively on small alphabets (RtAttr.cfg: every tree
    over two names down to depth 2 + the "ovni" namespace; RtAttr_Flush.cfg:
    flush / require, depth 3; RtAttr_MT.cfg: two threads), invariants
    (declarative "last write at a prefix wins" from the history) and action
    properties (frame condition of a set, typed gets, has <=> present, flush
    idempotent, dead is final, not-ready dies, isolation);
  * refutes the negative configurations RtAttr_Neg*.cfg (else MachineryError);
  * exports call sequences with the expected outcome / returned value of
    every call and the expected content of every thread's stream.json: the
    transition covers RtAttr_CoverA / CoverF (every transition of the state
    graph, reached by the representative history of its source state) and
    random walks over a larger alphabet (RtAttr_Sim.cfg, RtAttr_SimMT.cfg).

Conformance: every (quick tier: sampled) sequence is executed on the real
library by drivers/attrdrive.c (die() observed through the abort
interposer); the outcome and the value returned by every call and the parsed
stream.json are compared with what TLC exported.  Multi-thread walks run the
threads of one process concurrently and compare each thread's file with that
thread's expected tree.

Nothing expected is computed here: this module encodes TLC's calls as script
lines (tokens -> concrete doubles / strings / JSON texts), runs the driver,
decodes what it observes back into tokens and compares.
"""
import glob
import json
import os
import random
import re
import shutil
import subprocess

from vlib import core

# --------------------------------------------------------------------------
# encoding of the model's value tokens (inputs) and its inverse (observations)

STR_ENC = {"$empty": "", "$nasty": 'q"\\/\n\té€ \u0001{[', "$dots": "a.b.c"}
STR_DEC = {v: k for k, v in STR_ENC.items()}
ARR_ENC = {"A1": [1, "x", {"k": None}, [True]], "A2": []}
BAD_JSON = '{"a": '


def enc_str(tok):
    return STR_ENC.get(tok, tok)


def dec_str(s):
    if s in STR_DEC:
        return STR_DEC[s]
    if s.startswith("$") or s == "?":
        return "raw:" + s
    return s


def dec_arr(a):
    for k, v in ARR_ENC.items():
        if json.dumps(v, sort_keys=True) == json.dumps(a, sort_keys=True):
            return k
    return "raw:" + json.dumps(a, sort_keys=True)


def normnum(x):
    """canonical text of a number (values are compared, not their formatting)"""
    try:
        return repr(float(x))
    except (TypeError, ValueError):
        return "raw:%r" % (x,)


def hexs(s):
    b = s.encode("utf-8")
    return b.hex() if b else "-"


def render_json(nodes):
    """JSON text of a value tree exported by TLC (flat list of [path, kind, value])"""
    m = {tuple(p): (k, v) for p, k, v in nodes}

    def build(p):
        k, v = m[p]
        if k == "obj":
            kids = sorted(q for q in m if len(q) == len(p) + 1 and q[:len(p)] == p)
            return "{" + ", ".join(json.dumps(q[-1]) + ": " + build(q) for q in kids) + "}"
        if k == "num":
            return v
        if k == "bool":
            return "true" if v == "T" else "false"
        if k == "str":
            return json.dumps(enc_str(v))
        if k == "null":
            return "null"
        if k == "arr":
            return json.dumps(ARR_ENC[v])
        if k == "bad":
            return BAD_JSON
        raise core.MachineryError("unknown node kind %r" % k)
    return build(())


class Dup(Exception):
    pass


def _nodup(pairs):
    d = {}
    for k, v in pairs:
        if k in d:
            raise Dup(k)
        d[k] = v
    return d


def flatten(v, path=(), out=None):
    """observed JSON value -> {path: (kind, token)}"""
    if out is None:
        out = {}
    if isinstance(v, dict):
        out[path] = ("obj", "")
        for k, x in v.items():
            flatten(x, path + (k,), out)
    elif isinstance(v, bool):
        out[path] = ("bool", "T" if v else "F")
    elif isinstance(v, (int, float)):
        out[path] = ("num", normnum(v))
    elif isinstance(v, str):
        out[path] = ("str", dec_str(v))
    elif v is None:
        out[path] = ("null", "")
    elif isinstance(v, list):
        out[path] = ("arr", dec_arr(v))
    else:
        out[path] = ("raw", repr(v))
    return out


def expected(nodes):
    out = {}
    for p, k, v in nodes:
        if k == "num" and v != "?":
            v = normnum(v)
        out[tuple(p)] = (k, v)
    return out


def diff(exp, obs):
    """differences between an expected tree and an observed one ("?": any value of that kind)"""
    d = []
    for p in sorted(set(exp) | set(obs)):
        e, o = exp.get(p), obs.get(p)
        if e is not None and o is not None and e[1] == "?" and e[0] == o[0]:
            continue
        if e != o:
            d.append("%s: expected %s, observed %s" % ("/".join(p) or "<root>", e or "absent", o or "absent"))
    return d


# --------------------------------------------------------------------------
# scripts

def key_of(e):
    return ".".join(e["key"])


def arg_scalar(e):
    return e["arg"][0][2]


def line_of(e):
    op = e["op"]
    if op == "proc_init":
        a = {p[0]: v for p, k, v in e["arg"]}
        return "proc_init %s %s %s" % (a["app"], a["loom"], a["pid"])
    if op == "thread_init":
        return "thread_init %s" % arg_scalar(e)
    if op == "require":
        return "require %s %s" % (e["key"][0], arg_scalar(e))
    if op in ("has", "get_double", "get_boolean", "get_str", "get_json"):
        return "%s %s" % (op, key_of(e))
    if op == "set_double":
        return "set_double %s %s" % (key_of(e), arg_scalar(e))
    if op == "set_boolean":
        return "set_boolean %s %d" % (key_of(e), 1 if arg_scalar(e) == "T" else 0)
    if op == "set_str":
        return "set_str %s %s" % (key_of(e), hexs(enc_str(arg_scalar(e))))
    if op == "set_json":
        return "set_json %s %s" % (key_of(e), hexs(render_json(e["arg"])))
    if op in ("flush", "free", "fini"):
        return op
    raise core.MachineryError("unknown op %r exported by TLC" % op)


def show(e):
    s = line_of(e)
    if e["op"] == "set_str":
        s = "set_str %s %s" % (key_of(e), json.dumps(enc_str(arg_scalar(e))))
    elif e["op"] == "set_json":
        s = "set_json %s %s" % (key_of(e), render_json(e["arg"]))
    return s + ("" if e["out"] == "ok" else " -> " + e["out"])


def project_ret(op, ret):
    """value returned by a call (driver log) -> tree of tokens"""
    if op in ("has", "get_boolean"):
        return {(): ("bool", "T" if ret else "F")}
    if op == "get_double":
        return {(): ("num", normnum(ret))}
    if op == "get_str":
        if ret == "NULL":
            return {(): ("raw", "NULL pointer")}
        return {(): ("str", dec_str(bytes.fromhex(ret).decode("utf-8", "replace")))}
    if op == "get_json":
        if ret == "NULL":
            return {(): ("raw", "NULL pointer")}
        txt = bytes.fromhex(ret).decode("utf-8", "replace")
        try:
            return flatten(json.loads(txt, object_pairs_hook=_nodup))
        except (ValueError, Dup) as ex:
            return {(): ("raw", "unparsable %r: %r" % (txt[:200], ex))}
    return {}


def judge_calls(k, hist, at, log, findings):
    """compare the calls of one thread with its log; returns 'ok' | 'dies' | 'open' | 'bad'"""
    seen = {}
    for x in log:
        seen.setdefault(x["i"], x)
    for e, li in zip(hist, at):
        ent = seen.get(li)
        what = "thread %d call #%d `%s`" % (k, li, show(e))
        if e["out"] == "unspec":
            return "open"
        if e["out"] == "ok":
            if ent is None:
                findings.append(("outcome:" + e["op"], what + " must succeed: no log line (the process ended before)"))
                return "bad"
            if ent.get("aborted"):
                findings.append(("outcome:" + e["op"], what + " must succeed: the library died"))
                return "bad"
            d = diff(expected(e["ret"]), project_ret(e["op"], ent.get("ret")))
            if d:
                findings.append(("ret:" + e["op"], what + " returned %r: %s" % (ent.get("ret"), "; ".join(d))))
                return "bad"
        else:
            if ent is None:
                findings.append(("outcome:" + e["op"], what + " must die: no log line"))
                return "bad"
            if not ent.get("aborted"):
                findings.append(("outcome:" + e["op"], what + " must die: it returned %r" % (ent.get("ret"),)))
                return "bad"
            return "dies"
    return "ok"


def read_log(path):
    out = []
    if os.path.exists(path):
        for l in open(path):
            l = l.strip()
            if l:
                try:
                    out.append(json.loads(l))
                except ValueError:
                    out.append({"i": -1, "garbled": l})
    return out


def judge_file(k, td, loom, pid, tid, exp, findings, files):
    path = os.path.join(td, "loom.%s" % loom, "proc.%s" % pid, "thread.%s" % tid, "stream.json")
    if not exp["file"]:
        if os.path.exists(path):
            findings.append(("file:unexpected", "thread %d: %s exists before ovni_thread_init" % (k, path)))
        return
    if not os.path.exists(path):
        findings.append(("file:missing", "thread %d: no stream.json (thread.%s)" % (k, tid)))
        return
    txt = open(path, errors="replace").read()
    files["stream%d.json" % k] = txt
    try:
        obs = flatten(json.loads(txt, object_pairs_hook=_nodup))
    except (ValueError, Dup) as ex:
        findings.append(("file:unparsable", "thread %d: stream.json is not a JSON object with unique keys: %r" % (k, ex)))
        return
    d = diff(expected(exp["nodes"]), obs)
    if d:
        findings.append(("file:content", "thread %d: stream.json differs from the expected tree: %s" % (k, "; ".join(d[:8]))))


def replay(drv, root, item, reps=1):
    """item = (source, index, line exported by TLC).  Returns findings + artefacts."""
    src, idx, P = item
    nt = P["nt"]
    pa = {p[0]: v for p, k, v in P["proc"]}
    res = {"findings": [], "files": {}, "end": None}
    for rep in range(reps):
        d = os.path.join(root, "%s-%d-%d" % (src, idx, rep))
        os.makedirs(d)
        try:
            td = os.path.join(d, "ovni")
            scripts, ats = [], []
            if not P["pas"]:
                if nt != 1:
                    raise core.MachineryError("single-process sequence with %d threads" % nt)
                # the whole life of the process is in the history of the thread
                lines = [line_of(e) for e in P["hist"][0]]
                scripts = [lines]
                ats = [list(range(len(lines)))]
                hists = [P["hist"][0]]
            else:
                # ovni_proc_init / _fini around the threads (ProcAtStart)
                scripts = [["proc_init %s %s %s" % (pa["app"], pa["loom"], pa["pid"]), "spawn", "fini"]]
                ats = [[]]
                hists = [[]]
                for k in range(nt):
                    lines, at = [], []
                    for e in P["hist"][k]:
                        at.append(len(lines))
                        lines.append(line_of(e))
                        if e["op"] == "thread_init":
                            lines.append("barrier")
                    if not any(e["op"] == "thread_init" for e in P["hist"][k]):
                        lines.insert(0, "barrier")
                        at = [a + 1 for a in at]
                    scripts.append(lines)
                    ats.append(at)
                    hists.append(P["hist"][k])
            paths = []
            for k, lines in enumerate(scripts):
                sp = os.path.join(d, "script%d" % k)
                with open(sp, "w") as f:
                    f.write("\n".join(lines) + "\n")
                paths.append(sp)
                res["files"]["script%d.txt" % k] = "\n".join(lines) + "\n"
            env = dict(os.environ)
            env["OVNI_TRACEDIR"] = td
            env.pop("OVNI_TMPDIR", None)
            try:
                p = subprocess.run([drv, os.path.join(d, "log")] + paths, cwd=d, env=env, stdout=subprocess.DEVNULL,
                                   stderr=subprocess.PIPE, timeout=120)
                full = p.stderr.decode("latin1")
                rc, err = p.returncode, full[-800:]
                k0 = full.find("WARNING: ThreadSanitizer: data race")
                if k0 >= 0:
                    res["tsan"] = full[k0:k0 + 5000]
            except subprocess.TimeoutExpired:
                rc, err = None, "timeout"
            res["files"]["stderr.txt"] = err
            findings = []
            ends = []
            logs = []
            for k in range(len(scripts)):
                log = read_log(os.path.join(d, "log.%d" % k))
                logs.append(log)
                res["files"]["log%d.ndjson" % k] = "\n".join(json.dumps(x) for x in log) + "\n"
            if rc == 2:
                raise core.MachineryError("attrdrive refused its script: %s\n%s" % (err, scripts))
            for k in range(len(scripts)):
                if hists[k]:
                    ends.append(judge_calls(max(k, 1), hists[k], ats[k], logs[k], findings))
            aborted = any(x.get("aborted") for log in logs for x in log)
            if rc is None or rc not in (0, 3) or (rc == 3) != aborted:
                findings.append(("crash", "driver exit status %s (0 = all calls returned, 3 = the library died), "
                                          "abort logged: %s; stderr: %s" % (rc, aborted, err[-300:])))
            elif "bad" not in ends and "open" not in ends:
                if ("dies" in ends) != (rc == 3):
                    where = [x for log in logs for x in log if x.get("aborted")]
                    findings.append(("outcome:elsewhere", "the library died in %s, no call of the sequence must die" % where))
                if len(scripts) > 1 and rc == 0 and not (len(logs[0]) == 3):
                    findings.append(("crash", "main thread did not finish: %s" % logs[0]))
            res["end"] = "open" if "open" in ends else ("bad" if findings else ("dies" if "dies" in ends else "ok"))
            if not findings and "open" not in ends:
                for k in range(nt):
                    judge_file(k + 1, td, pa["loom"], pa["pid"], P["tids"][k], P["files"][k], findings, res["files"])
                # no other stream than those of the threads of the sequence
                others = glob.glob(os.path.join(td, "loom.*", "proc.*", "thread.*", "stream.json"))
                want = sum(1 for k in range(nt) if P["files"][k]["file"])
                if len(others) != want and not findings:
                    findings.append(("file:unexpected", "%d stream.json files in the trace, expected %d: %s"
                                     % (len(others), want, others)))
            if findings:
                res["findings"] = findings
                return res
        finally:
            shutil.rmtree(d, ignore_errors=True)
    return res


# --------------------------------------------------------------------------
# TLC

NEGATIVES = [
    ("RtAttr_NegScalarMid.cfg", "a set through a scalar intermediate silently succeeds",
     ("P_ScalarMidDies", "P_SetFrame")),
    ("RtAttr_NegKeepSubtree.cfg", "a set does not delete the old subtree",
     ("TreesWellFormed", "TreeIsLastWrites", "P_SetFrame", "DiskIsSnapshot", "ReturnsAreDeclared")),
    ("RtAttr_NegGetType.cfg", "a get of the wrong type returns instead of dying",
     ("P_Reads", "ReturnsAreDeclared")),
    ("RtAttr_NegLazyFlush.cfg", "flush does not write when no key was added or removed",
     ("P_Flush", "DiskIsSnapshot")),
]


def sim_env(nt, maxops, mindie, tail):
    return {"RTATTR_NT": nt, "RTATTR_MAXOPS": maxops, "RTATTR_MINDIE": mindie, "RTATTR_TAIL": tail}


def jobs_for(tier):
    quick = tier == "quick"
    s = core.seed()
    J = []

    def job(name, cfg, kind, **kw):
        J.append({"name": name, "cfg": cfg, "kind": kind, "kw": kw})
    job("main", "RtAttr.cfg" if quick else "RtAttr_Thorough.cfg", "check", workers=4 if quick else 8)
    job("flush", "RtAttr_Flush.cfg", "check", workers=3)
    job("mt", "RtAttr_MT.cfg", "check", workers=1)
    if not quick:
        job("hist", "RtAttr_Hist.cfg", "check", workers=4)
    job("coverA", "RtAttr_CoverA.cfg" if quick else "RtAttr_CoverD.cfg", "cover", workers=2 if quick else 4)
    job("coverF", "RtAttr_CoverF.cfg", "cover", workers=2)
    for cfg, what, must in NEGATIVES:
        job(cfg, cfg, "neg", workers=1, must=must, what=what)
    m = 1 if quick else 12
    sims = [("free", 12, 12, 300), ("free", 26, 26, 160), ("die", 9, 8, 300), ("die", 18, 17, 160), ("any", 10, 3, 250)]
    for i, (tail, mo, md, n) in enumerate(sims):
        for r in range(1 if quick else 3):
            job("sim-%s-%d-%d" % (tail, mo, r), "RtAttr_Sim.cfg", "sim", workers=1, simulate=n * m // (1 if quick else 3),
                depth=mo + 4, seed_=s * 1000 + i * 10 + r, env=sim_env(1, mo, md, tail))
    for i, (nt, mo, n) in enumerate([(2, 40, 60), (2, 36, 60), (3, 30, 70), (4, 24, 60)]):
        job("simmt-%d-%d" % (nt, mo), "RtAttr_SimMT.cfg", "simmt", workers=1, simulate=n * m, depth=nt * (mo + 2),
            seed_=s * 1000 + 500 + i, env=sim_env(nt, mo, mo, "free"))
    return J


def run_tlc(J):
    def one(j):
        kw = {k: v for k, v in j["kw"].items() if k not in ("must", "what")}
        return core.tlc("RtAttr", j["cfg"], timeout=3000, heap="4g", **kw)
    return core.pmap(one, J, threads=True)


def violated_name(r):
    m = re.search(r"(?:Invariant|property) (\w+) is violated", r.violated or "")
    if m:
        return m.group(1)
    return r.violated


def klass(P):
    """stratum of a sequence: how it ends, whether it stores (all read from the exported line)"""
    h = P["hist"][0]
    last = h[-1] if h else {"op": "-", "out": "-"}
    return "%s/%s/%s/%d" % (last["op"], last["out"], "flush" if any(e["op"] == "flush" for e in h) else "-",
                            min(3, len(last.get("key", []))))


def sample(items, budget, rng):
    if budget is None or len(items) <= budget:
        return items
    by = {}
    for it in items:
        by.setdefault(klass(it[2]), []).append(it)
    cap = max(3, budget // max(1, len(by)))
    out, rest = [], []
    for k in sorted(by):
        lst = by[k]
        rng.shuffle(lst)
        out += lst[:cap]
        rest += lst[cap:]
    rng.shuffle(rest)
    out += rest[:max(0, budget - len(out))]
    return out[:max(budget, len(by) * 3)]


# --------------------------------------------------------------------------

def run(ck, tier, bdir):
    quick = tier == "quick"
    rng = random.Random(core.seed())
    drv = core.cc_driver(bdir, "attrdrive.c", emu=False)
    J = jobs_for(tier)
    R = run_tlc(J)
    seqs = {"cover": [], "sim": [], "simmt": []}
    exported = {}
    for j, r in zip(J, R):
        if j["kind"] == "neg":
            ck.add_tlc(r, "RtAttr/%s (%s; must fail)" % (j["cfg"], j["kw"]["what"]))
            name = violated_name(r)
            if not r.violated or name not in j["kw"]["must"]:
                raise core.MachineryError("negative configuration %s (%s) is no longer refuted (%s): vacuous model\n%s"
                                          % (j["cfg"], j["kw"]["what"], r.violated or r.error, r.out[-1500:]))
            continue
        core.tlc_expect_ok(r, j["cfg"])
        if j["kind"] in ("sim", "simmt") and not r.generated:
            m = re.search(r"number of states generated: (\d+)", r.out)      # simulation mode
            if m:
                r.generated = r.states = int(m.group(1))
        ck.add_tlc(r, "RtAttr/%s [%s]" % (j["cfg"], j["name"]))
        if r.violated:
            ck.violation("RtAttr.tla (%s) violates %s: the model of the attribute API is inconsistent"
                         % (j["cfg"], r.violated), {"tlc.out": r.out[-20000:]}, sig="rtattr-model")
            continue
        if j["kind"] == "check":
            if r.states < 100:
                raise core.MachineryError("%s explored %d states only\n%s" % (j["cfg"], r.states, r.out[-1500:]))
            continue
        lines = [o for tg, o in r.lines if tg == "TR" and isinstance(o, dict)]
        if not lines:
            raise core.MachineryError("no sequences exported by %s [%s]:\n%s" % (j["cfg"], j["name"], r.out[-1500:]))
        exported[j["name"]] = len(lines)
        seqs[j["kind"]] += [(j["name"], P) for P in lines]
    ck.phase("rtattr_tlc")

    # canonical order, duplicates removed (the simulator may print a line twice)
    items = []
    stats = {"exported_by_tlc": exported}
    for kind in ("cover", "sim", "simmt"):
        seen, lst = set(), []
        for name, P in seqs[kind]:
            key = json.dumps(P["hist"], sort_keys=True)
            if key not in seen:
                seen.add(key)
                lst.append((key, name, P))
        lst.sort(key=lambda x: x[0])
        lst = [(name, i, P) for i, (key, name, P) in enumerate(lst)]
        stats["distinct_" + kind] = len(lst)
        if kind == "cover":
            lst = sample(lst, 6000 if quick else None, rng)
        items += [(kind, it) for it in lst]
    stats["replayed"] = {k: sum(1 for kind, it in items if kind == k) for k in ("cover", "sim", "simmt")}

    root = core.mkscratch("rtattr")
    try:
        results = core.pmap(lambda x: replay(drv, root, x[1], reps=(2 if quick else 6) if x[0] == "simmt" else 1), items)
    finally:
        shutil.rmtree(root, ignore_errors=True)
    ck.phase("rtattr_replay")
    # the multi-thread walks once more on the ThreadSanitizer build: no data race inside the library
    try:
        tb = core.build("tsan")
        tdrv = core.cc_driver(tb, "attrdrive.c", emu=False, variant="tsan")
    except core.MachineryError as ex:
        tdrv = None
        ck.notes["rtattr_tsan"] = "tsan build unavailable: %s" % str(ex)[:200]
    if tdrv:
        mt = [it for kind, it in items if kind == "simmt"]
        root = core.mkscratch("rtattr-tsan")
        try:
            tres = core.pmap(lambda it: replay(tdrv, root, it, reps=1), mt)
        finally:
            shutil.rmtree(root, ignore_errors=True)
        races = 0
        for (name, idx, P), r_ in zip(mt, tres):
            if r_.get("tsan"):
                races += 1
                fr = re.findall(r"#\d+ (\w+) ", r_["tsan"])
                top = [f for f in fr if f.startswith(("ovni_", "json_", "thread_", "parson_")) or f in ("die",)][:3]
                ck.violation("data race inside the library while threads use the attribute API concurrently: %s\n%s"
                             % (top, r_["tsan"][:2500]), dict(r_["files"], **{"tsan.txt": r_["tsan"]}),
                             sig="rtattr:tsan:" + ",".join(top[:2]))
        ck.notes["rtattr_tsan"] = {"multi_thread_walks": len(mt), "race_reports": races}
        ck.phase("rtattr_tsan")

    agree = 0
    ends = {}
    ncalls = 0
    for (kind, (name, idx, P)), res in zip(items, results):
        nset = sum(1 for h in P["hist"] for e in h if e["op"].startswith("set_") and e["out"] == "ok")
        ncalls += sum(len(h) for h in P["hist"])
        ck.case("rtattr/" + json.dumps(P["hist"], sort_keys=True), nontrivial=nset >= 1)
        ends[res["end"]] = ends.get(res["end"], 0) + 1
        if not res["findings"]:
            agree += 1
            continue
        head = "attribute calls (%s #%d):\n%s" % (
            name, idx, "\n".join("  thread %d: %s" % (k + 1, "; ".join(show(e) for e in h)) for k, h in enumerate(P["hist"])))
        bundle = dict(res["files"])
        bundle["expected.json"] = P
        for sig, text in res["findings"]:
            ck.violation("runtime attribute API [%s]\n%s\n%s" % (sig, text, head), bundle, sig="rtattr:" + sig)
    ck.cov["traces_validated_against_impl"] += agree
    for (kind, (name, idx, P)) in items[:1] + items[-1:]:
        ck.sample({"kind": "rtattr/" + kind, "calls": [[show(e) for e in h] for h in P["hist"]]})
    ck.notes["rtattr"] = dict(stats, agreeing=agree, calls_replayed=ncalls, ends=ends)
    ck.assumptions += [
        "rtattr: values are tokens of the model, encoded as concrete doubles / strings / JSON texts by the harness; "
        "numbers are compared by value (not by their formatting in the file), key order inside objects is ignored",
        "rtattr: the metadata version, the library version / commit and the version required for the ovni model are "
        "left open by the model (any value of the modelled type)",
        "rtattr: ovni_attr_set_double(NaN) is unspecified (either outcome accepted); NULL keys / values, empty key "
        "components and duplicate keys inside a JSON text are outside the modelled alphabet",
        "rtattr: the threads of a multi-thread walk run concurrently in one process; their interleaving is not "
        "controlled (the model says the per-thread results do not depend on it)"]
    return agree


def main(pid, tier):
    ck = core.Check(pid, "model_checking", tier)
    bdir = core.build("hooks")
    run(ck, tier, bdir)
    return ck.finish(rule="cases = call sequences exported by TLC from RtAttr.tla (transition covers + random walks, "
                          "single- and multi-thread) replayed on libovni; nontrivial = at least one successful set")
